import WebpVerif.Spec.Prefix

/-!
Canonical codes are prefix-free and `Prefix.decodeSym` inverts them: reading the bits of the
canonical code word of a symbol (followed by anything) returns that symbol and the rest.
-/
namespace Prefix

theorem findSym_none (p : Nat → Bool) : ∀ n, (∀ t, t < n → p t = false) → findSym p n = none := by
  intro n
  induction n with
  | zero => intro _; rfl
  | succ n ih =>
    intro h
    rw [findSym, ih (fun t ht => h t (by omega)), h n (by omega)]
    rfl

theorem findSym_some (p : Nat → Bool) (s : Nat) : ∀ n, s < n → p s = true →
    (∀ t, t < n → p t = true → t = s) → findSym p n = some s := by
  intro n
  induction n with
  | zero => intro h; omega
  | succ n ih =>
    intro hs hp huniq
    rw [findSym]
    by_cases hsn : s < n
    · rw [ih hsn hp (fun t ht hpt => huniq t (by omega) hpt)]
    · have hsn' : s = n := by omega
      subst hsn'
      rw [findSym_none p s (fun t ht => by
        cases hpt : p t with
        | false => rfl
        | true => have := huniq t (by omega) hpt; omega)]
      simp only [hp, if_true]

/-- number of earlier symbols with the same length -/
def rank (ls : List Nat) (s len : Nat) : Nat := ((ls.take s).filter (· == len)).length

theorem canonical_some (ls : List Nat) (s c : Nat) (h : canonicalCode ls s = some c) :
    s < ls.length ∧ ls.getD s 0 ≠ 0 ∧ c = nextCode ls (ls.getD s 0) + rank ls s (ls.getD s 0) := by
  unfold canonicalCode at h
  cases hg : ls[s]? with
  | none => rw [hg] at h; simp at h
  | some l =>
    rw [hg] at h
    have hlt : s < ls.length := by
      rcases Nat.lt_or_ge s ls.length with h1 | h1
      · exact h1
      · rw [List.getElem?_eq_none h1] at hg; simp at hg
    have hd : ls.getD s 0 = l := by rw [List.getD_eq_getElem?_getD, hg]; rfl
    cases l with
    | zero => simp at h
    | succ m =>
      simp only [Option.some.injEq] at h
      refine ⟨hlt, by rw [hd]; omega, ?_⟩
      rw [hd, ← h]; rfl

theorem rank_mono : ∀ (l : List Nat) (t s len : Nat), t < s → s ≤ l.length → l.getD t 0 = len →
    rank l t len + 1 ≤ rank l s len := by
  intro l
  induction l with
  | nil => intro t s len h1 h2 _; simp at h2; omega
  | cons a l ih =>
    intro t s len h1 h2 h3
    obtain ⟨s', rfl⟩ : ∃ s', s = s' + 1 := ⟨s - 1, by omega⟩
    cases t with
    | zero =>
      have ha : a = len := by simpa using h3
      subst ha
      simp [rank, List.take_succ_cons, List.filter_cons]
    | succ t' =>
      have h3' : l.getD t' 0 = len := by simpa using h3
      have := ih t' s' len (by omega) (by simp at h2; omega) h3'
      unfold rank at this ⊢
      simp only [List.take_succ_cons, List.filter_cons]
      by_cases ha : (a == len) = true
      · simp only [ha, if_true, List.length_cons]; omega
      · simp only [ha]; exact this

theorem rank_lt_blCount (l : List Nat) (s : Nat) (hs : s < l.length) :
    rank l s (l.getD s 0) < blCount l (l.getD s 0) := by
  have := rank_mono l s l.length (l.getD s 0) hs (Nat.le_refl _) rfl
  unfold rank at this
  rw [List.take_length] at this
  unfold rank blCount
  omega

theorem nextCode_mono (ls : List Nat) (len : Nat) (h1 : 1 ≤ len) : ∀ d,
    (nextCode ls len + blCount ls len) * 2 ^ (d + 1) ≤ nextCode ls (len + d + 1) := by
  intro d
  induction d with
  | zero =>
    show _ ≤ (nextCode ls len + (if len = 0 then 0 else blCount ls len)) * 2
    rw [if_neg (by omega)]; omega
  | succ d ih =>
    have e : nextCode ls (len + (d + 1) + 1) =
        (nextCode ls (len + d + 1) + (if len + d + 1 = 0 then 0 else blCount ls (len + d + 1))) * 2 := rfl
    rw [e, if_neg (by omega), Nat.pow_succ]
    have : (nextCode ls len + blCount ls len) * (2 ^ (d + 1) * 2) = (nextCode ls len + blCount ls len) * 2 ^ (d + 1) * 2 := by
      rw [Nat.mul_assoc]
    rw [this]
    have h2 : nextCode ls (len + d + 1) ≤ nextCode ls (len + d + 1) + blCount ls (len + d + 1) := Nat.le_add_right _ _
    exact Nat.mul_le_mul_right 2 (Nat.le_trans ih h2)

/-- **separation**: a symbol that precedes another in (length, index) order owns the code space
    strictly below it -/
theorem sep (ls : List Nat) (t s ct cs : Nat) (ht : canonicalCode ls t = some ct) (hs : canonicalCode ls s = some cs)
    (hord : ls.getD t 0 < ls.getD s 0 ∨ (ls.getD t 0 = ls.getD s 0 ∧ t < s)) :
    (ct + 1) * 2 ^ (ls.getD s 0 - ls.getD t 0) ≤ cs := by
  obtain ⟨t1, t2, t3⟩ := canonical_some ls t ct ht
  obtain ⟨s1, s2, s3⟩ := canonical_some ls s cs hs
  rcases hord with hlt | ⟨heq, hts⟩
  · obtain ⟨d, hd⟩ : ∃ d, ls.getD s 0 = ls.getD t 0 + d + 1 := ⟨ls.getD s 0 - ls.getD t 0 - 1, by omega⟩
    have hr := rank_lt_blCount ls t t1
    have hm := nextCode_mono ls (ls.getD t 0) (by omega) d
    rw [← hd] at hm
    have e : ls.getD s 0 - ls.getD t 0 = d + 1 := by omega
    rw [e]
    have h1 : ct + 1 ≤ nextCode ls (ls.getD t 0) + blCount ls (ls.getD t 0) := by omega
    calc (ct + 1) * 2 ^ (d + 1) ≤ (nextCode ls (ls.getD t 0) + blCount ls (ls.getD t 0)) * 2 ^ (d + 1) :=
          Nat.mul_le_mul_right _ h1
      _ ≤ nextCode ls (ls.getD s 0) := hm
      _ ≤ cs := by omega
  · have hr := rank_mono ls t s (ls.getD s 0) hts (by omega) heq
    rw [heq, Nat.sub_self, Nat.pow_zero, Nat.mul_one]
    rw [heq] at t3
    omega

/-- no other symbol's code word is a prefix of (or equal to) the code word of `s` -/
theorem prefix_free (ls : List Nat) (t s ct cs : Nat) (ht : canonicalCode ls t = some ct) (hs : canonicalCode ls s = some cs)
    (hle : ls.getD t 0 ≤ ls.getD s 0) (hpre : ct = cs / 2 ^ (ls.getD s 0 - ls.getD t 0)) : t = s := by
  rcases Nat.lt_trichotomy t s with h | h | h
  · -- t before s
    have := sep ls t s ct cs ht hs (by omega)
    have hdm := Nat.div_add_mod cs (2 ^ (ls.getD s 0 - ls.getD t 0))
    have hml := Nat.mod_lt cs (Nat.two_pow_pos (ls.getD s 0 - ls.getD t 0))
    rw [hpre, Nat.add_mul, Nat.one_mul] at this
    rw [Nat.mul_comm] at hdm
    omega
  · exact h
  · by_cases heq : ls.getD t 0 = ls.getD s 0
    · have := sep ls s t cs ct hs ht (Or.inr ⟨heq.symm, h⟩)
      rw [heq, Nat.sub_self, Nat.pow_zero, Nat.mul_one] at this
      rw [heq, Nat.sub_self, Nat.pow_zero, Nat.div_one] at hpre
      omega
    · have := sep ls t s ct cs ht hs (Or.inl (by omega))
      have hdm := Nat.div_add_mod cs (2 ^ (ls.getD s 0 - ls.getD t 0))
      have hml := Nat.mod_lt cs (Nat.two_pow_pos (ls.getD s 0 - ls.getD t 0))
      rw [hpre, Nat.add_mul, Nat.one_mul] at this
      rw [Nat.mul_comm] at hdm
      omega

theorem symbolOf_none (ls : List Nat) (s cs k : Nat) (hs : canonicalCode ls s = some cs) (hk : k < ls.getD s 0) (hk1 : 1 ≤ k) :
    symbolOf ls k (cs / 2 ^ (ls.getD s 0 - k)) = none := by
  unfold symbolOf
  apply findSym_none
  intro t _
  cases hp : (ls.getD t 0 == k && canonicalCode ls t == some (cs / 2 ^ (ls.getD s 0 - k))) with
  | false => rfl
  | true =>
    simp only [Bool.and_eq_true, beq_iff_eq] at hp
    have := prefix_free ls t s _ cs hp.2 hs (by omega) (by rw [hp.1])
    subst this
    omega

theorem symbolOf_self (ls : List Nat) (s cs : Nat) (hs : canonicalCode ls s = some cs) :
    symbolOf ls (ls.getD s 0) cs = some s := by
  unfold symbolOf
  apply findSym_some _ s _ (canonical_some ls s cs hs).1
  · simp [hs]
  · intro t _ hp
    simp only [Bool.and_eq_true, beq_iff_eq] at hp
    exact prefix_free ls t s cs cs hp.2 hs (by omega) (by rw [hp.1, Nat.sub_self, Nat.pow_zero, Nat.div_one])

theorem msbBits_succ (c len : Nat) : msbBits c (len + 1) = (c / 2 ^ len % 2) :: msbBits (c % 2 ^ len) len := by
  unfold msbBits
  rw [List.range_succ_eq_map, List.map_cons, List.map_map]
  congr 1
  apply List.map_congr_left
  intro k hk
  have hk' : k < len := List.mem_range.mp hk
  simp only [Function.comp]
  have e1 : len + 1 - 1 - (k + 1) = len - 1 - k := by omega
  rw [e1]
  -- (c % 2^len) / 2^(len-1-k) % 2 = c / 2^(len-1-k) % 2
  obtain ⟨j, hj⟩ : ∃ j, len = (len - 1 - k) + (j + 1) := ⟨k, by omega⟩
  generalize len - 1 - k = m at hj ⊢
  subst hj
  rw [Nat.pow_add, Nat.mod_mul_right_div_self, Nat.pow_succ, Nat.mod_mul_left_mod]

/-- the decoding loop on the bits of the code word of `s`: after `k` bits the accumulated value
    is the top `k` bits of the code word -/
theorem decodeSym_run (ls : List Nat) (s cs : Nat) (hs : canonicalCode ls s = some cs) (rest : List Nat) :
    ∀ (j k fuel : Nat), k + j = ls.getD s 0 → 1 ≤ j → j ≤ fuel →
      decodeSym ls fuel k (cs / 2 ^ j) (msbBits (cs % 2 ^ j) j ++ rest) = some (s, rest) := by
  intro j
  induction j with
  | zero => intro k fuel _ h; omega
  | succ j ih =>
    intro k fuel hk _ hf
    obtain ⟨fuel', rfl⟩ : ∃ f, fuel = f + 1 := ⟨fuel - 1, by omega⟩
    rw [msbBits_succ, List.cons_append, decodeSym]
    have hb : cs % 2 ^ (j + 1) / 2 ^ j % 2 = cs / 2 ^ j % 2 := by
      rw [Nat.pow_succ, Nat.mod_mul_right_div_self, Nat.mod_mod]
    have hacc : 2 * (cs / 2 ^ (j + 1)) + cs % 2 ^ (j + 1) / 2 ^ j % 2 = cs / 2 ^ j := by
      rw [hb, Nat.pow_succ, ← Nat.div_div_eq_div_mul]
      exact Nat.div_add_mod (cs / 2 ^ j) 2
    simp only [hacc]
    have hmm : cs % 2 ^ (j + 1) % 2 ^ j = cs % 2 ^ j := by
      rw [Nat.pow_succ, Nat.mod_mul_right_mod]
    rw [hmm]
    by_cases hj : j = 0
    · subst hj
      have hk' : k + 1 = ls.getD s 0 := by omega
      rw [hk', Nat.pow_zero, Nat.div_one, symbolOf_self ls s cs hs]
      simp [msbBits]
    · have hnone := symbolOf_none ls s cs (k + 1) hs (by omega) (by omega)
      have e : ls.getD s 0 - (k + 1) = j := by omega
      rw [e] at hnone
      rw [hnone]
      exact ih (k + 1) fuel' (by omega) (by omega) (by omega)

/-- **`decodeSym` inverts the canonical code**: for any lengths, a symbol whose canonical code
    word fits its length, and any continuation of the stream -/
theorem decodeSym_canonical (ls : List Nat) (s cs fuel : Nat) (hs : canonicalCode ls s = some cs)
    (hfit : cs < 2 ^ ls.getD s 0) (hf : ls.getD s 0 ≤ fuel) (rest : List Nat) :
    decodeSym ls fuel 0 0 (msbBits cs (ls.getD s 0) ++ rest) = some (s, rest) := by
  have h := decodeSym_run ls s cs hs rest (ls.getD s 0) 0 fuel (by omega) (by have := (canonical_some ls s cs hs).2.1; omega) hf
  rw [Nat.div_eq_of_lt hfit, Nat.mod_eq_of_lt hfit] at h
  exact h

/-! ### the table-driven variant used for execution is the same function -/

theorem findSym_congr (p q : Nat → Bool) : ∀ n, (∀ t, t < n → p t = q t) → findSym p n = findSym q n := by
  intro n
  induction n with
  | zero => intro _; rfl
  | succ n ih =>
    intro h
    rw [findSym, findSym, ih (fun t ht => h t (by omega)), h n (by omega)]

theorem symbolOfT_eq (ls : List Nat) (len code : Nat) :
    symbolOfT ls.toArray (codeTable ls) len code = symbolOf ls len code := by
  unfold symbolOfT symbolOf
  rw [List.size_toArray]
  apply findSym_congr
  intro t ht
  have e1 : ls.toArray.getD t 0 = ls.getD t 0 := by
    simp [Array.getD_eq_getD_getElem?, List.getD_eq_getElem?_getD]
  have e2 : (codeTable ls).getD t none = canonicalCode ls t := by
    unfold codeTable
    simp [Array.getD_eq_getD_getElem?, ht]
  rw [e1, e2]

theorem decodeSymT_eq (ls : List Nat) : ∀ (fuel len code : Nat) (bits : List Nat),
    decodeSymT ls.toArray (codeTable ls) fuel len code bits = decodeSym ls fuel len code bits := by
  intro fuel
  induction fuel with
  | zero => intro _ _ _; rfl
  | succ fuel ih =>
    intro len code bits
    cases bits with
    | nil => rfl
    | cons b rest =>
      rw [decodeSymT, decodeSym, symbolOfT_eq]
      cases symbolOf ls (len + 1) (2 * code + b) with
      | some s => rfl
      | none => exact ih _ _ _

end Prefix

/-! ### totality and soundness: on a complete code every bit string decodes, to a symbol whose
    code word is the prefix consumed -/
namespace Prefix

theorem findSym_spec (p : Nat → Bool) : ∀ n s, findSym p n = some s → p s = true ∧ s < n := by
  intro n
  induction n with
  | zero => intro s h; simp [findSym] at h
  | succ n ih =>
    intro s h
    rw [findSym] at h
    cases hf : findSym p n with
    | some s' =>
      rw [hf] at h
      simp only [Option.some.injEq] at h
      subst h
      have := ih s' hf
      exact ⟨this.1, by omega⟩
    | none =>
      rw [hf] at h
      by_cases hp : p n = true
      · simp only [hp, if_true, Option.some.injEq] at h
        subst h; exact ⟨hp, by omega⟩
      · simp [hp] at h

/-- the `r`-th symbol of length `k` exists when `r < bl_count[k]` -/
theorem select_rank (k : Nat) : ∀ (l : List Nat) (r : Nat), r < (l.filter (· == k)).length →
    ∃ s, s < l.length ∧ l.getD s 0 = k ∧ ((l.take s).filter (· == k)).length = r := by
  intro l
  induction l with
  | nil => intro r h; simp at h
  | cons a l ih =>
    intro r h
    by_cases ha : (a == k) = true
    · cases r with
      | zero => exact ⟨0, by simp, by simpa using ha, by simp⟩
      | succ r' =>
        have h' : r' < (l.filter (· == k)).length := by
          simp only [List.filter_cons, ha, if_true, List.length_cons] at h; omega
        obtain ⟨s, s1, s2, s3⟩ := ih r' h'
        refine ⟨s + 1, by simp; omega, by simpa using s2, ?_⟩
        simp only [List.take_succ_cons, List.filter_cons, ha, if_true, List.length_cons, s3]
    · have h' : r < (l.filter (· == k)).length := by
        simp only [List.filter_cons, ha] at h; exact h
      obtain ⟨s, s1, s2, s3⟩ := ih r h'
      refine ⟨s + 1, by simp; omega, by simpa using s2, ?_⟩
      simp only [List.take_succ_cons, List.filter_cons, ha]
      exact s3

/-- every value in the block of length-`k` code words belongs to a symbol -/
theorem symbolOf_block (ls : List Nat) (k r : Nat) (hk : 1 ≤ k) (hr : r < blCount ls k) :
    ∃ s, symbolOf ls k (nextCode ls k + r) = some s := by
  obtain ⟨s, s1, s2, s3⟩ := select_rank k ls r hr
  have hget : ls[s]? = some k := by
    rw [List.getD_eq_getElem?_getD] at s2
    rw [List.getElem?_eq_getElem s1] at s2 ⊢
    simp at s2; rw [s2]
  have hc : canonicalCode ls s = some (nextCode ls k + r) := by
    unfold canonicalCode
    rw [hget]
    obtain ⟨m, rfl⟩ : ∃ m, k = m + 1 := ⟨k - 1, by omega⟩
    simp only [s3]
  have := symbolOf_self ls s _ hc
  rw [s2] at this
  exact ⟨s, this⟩

/-- first value above the code words of length `k` (nothing at length 0) -/
def blockEnd (ls : List Nat) (k : Nat) : Nat := nextCode ls k + (if k = 0 then 0 else blCount ls k)

theorem nextCode_succ (ls : List Nat) (k : Nat) : nextCode ls (k + 1) = blockEnd ls k * 2 := rfl

theorem blockEnd_grows (ls : List Nat) (L : Nat) (hc : blockEnd ls L = 2 ^ L) : ∀ d, 2 ^ (L + d) ≤ blockEnd ls (L + d) := by
  intro d
  induction d with
  | zero => rw [Nat.add_zero, hc]; exact Nat.le_refl _
  | succ d ih =>
    have : blockEnd ls (L + (d + 1)) ≥ nextCode ls (L + d + 1) := by unfold blockEnd; exact Nat.le_add_right _ _
    rw [nextCode_succ] at this
    have e : 2 ^ (L + (d + 1)) = 2 ^ (L + d) * 2 := by rw [← Nat.add_assoc, Nat.pow_succ]
    rw [e]
    exact Nat.le_trans (Nat.mul_le_mul_right 2 ih) this

/-- **totality**: on a complete code (the code words of the longest length end exactly at
    `2^L`) every string of at least `L` bits starts with the code word of some symbol -/
theorem decodeSym_total (ls : List Nat) (L : Nat) (hL : 1 ≤ L) (hc : blockEnd ls L = 2 ^ L) :
    ∀ (fuel k c : Nat) (bits : List Nat), L ≤ k + fuel → L ≤ k + bits.length → (∀ b ∈ bits, b < 2) →
      c < 2 ^ k → blockEnd ls k ≤ c → ∃ s rest, decodeSym ls fuel k c bits = some (s, rest) := by
  intro fuel
  induction fuel with
  | zero =>
    intro k c bits h1 _ _ hck hbe
    obtain ⟨d, rfl⟩ : ∃ d, k = L + d := ⟨k - L, by omega⟩
    have := blockEnd_grows ls L hc d
    omega
  | succ fuel ih =>
    intro k c bits h1 h2 hb hck hbe
    by_cases hkL : L ≤ k
    · obtain ⟨d, rfl⟩ : ∃ d, k = L + d := ⟨k - L, by omega⟩
      have := blockEnd_grows ls L hc d
      omega
    · cases bits with
      | nil => simp at h2; omega
      | cons b rest =>
        rw [decodeSym]
        have hb2 : b < 2 := hb b List.mem_cons_self
        have hnc : nextCode ls (k + 1) ≤ 2 * c + b := by rw [nextCode_succ]; omega
        cases hs : symbolOf ls (k + 1) (2 * c + b) with
        | some s => exact ⟨s, rest, rfl⟩
        | none =>
          simp only
          apply ih (k + 1) (2 * c + b) rest (by omega) (by simp at h2; omega)
            (fun b' hb' => hb b' (List.mem_cons_of_mem _ hb')) (by rw [Nat.pow_succ]; omega)
          -- not matched at length k+1: the value lies above the block
          unfold blockEnd
          rw [if_neg (by omega)]
          rcases Nat.lt_or_ge (2 * c + b) (nextCode ls (k + 1) + blCount ls (k + 1)) with hlt | hge
          · obtain ⟨s, hs'⟩ := symbolOf_block ls (k + 1) (2 * c + b - nextCode ls (k + 1)) (by omega) (by omega)
            rw [show nextCode ls (k + 1) + (2 * c + b - nextCode ls (k + 1)) = 2 * c + b by omega] at hs'
            rw [hs'] at hs; cases hs
          · exact hge

/-- **soundness**: whatever `decodeSym` returns is a symbol whose canonical code word, MSB first,
    is exactly the bits consumed (after the `k` bits `c` accumulated before) -/
theorem decodeSym_sound (ls : List Nat) : ∀ (fuel k c : Nat) (bits : List Nat) (s : Nat) (rest : List Nat),
    decodeSym ls fuel k c bits = some (s, rest) →
      ∃ taken, bits = taken ++ rest ∧ ls.getD s 0 = k + taken.length ∧
        canonicalCode ls s = some (taken.foldl (fun acc b => 2 * acc + b) c) := by
  intro fuel
  induction fuel with
  | zero => intro k c bits s rest h; simp [decodeSym] at h
  | succ fuel ih =>
    intro k c bits s rest h
    cases bits with
    | nil => simp [decodeSym] at h
    | cons b tl =>
      rw [decodeSym] at h
      cases hs : symbolOf ls (k + 1) (2 * c + b) with
      | some s' =>
        rw [hs] at h
        simp only [Option.some.injEq, Prod.mk.injEq] at h
        obtain ⟨rfl, rfl⟩ := h
        unfold symbolOf at hs
        obtain ⟨hp, _⟩ := findSym_spec _ _ _ hs
        simp only [Bool.and_eq_true, beq_iff_eq] at hp
        exact ⟨[b], rfl, by rw [hp.1]; rfl, by rw [hp.2]; rfl⟩
      | none =>
        rw [hs] at h
        simp only at h
        obtain ⟨taken, e1, e2, e3⟩ := ih (k + 1) (2 * c + b) tl s rest h
        refine ⟨b :: taken, by rw [e1]; rfl, by rw [e2, List.length_cons]; omega, ?_⟩
        rw [e3]; rfl

end Prefix
