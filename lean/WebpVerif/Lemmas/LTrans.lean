import WebpVerif.Model.LosslessTransforms
import WebpVerif.Spec.LosslessP
import Mathlib.Tactic.Linarith
import Mathlib.Tactic.Ring

/-!
The inverse-transform drivers of `lossless_transform.rs` (models in `Model/LosslessTransforms.lean`)
against the specification's transforms (`VP8LP`): the RGBA byte buffer after the call, read as ARGB
pixels, is the specification's result on the buffer before the call.
-/
namespace LTrProof
open LTr LK

/-- pixel `p` of an RGBA byte buffer as the ARGB number of the specification -/
def pixAt (a : Array Nat) (p : Nat) : Nat :=
  VP8L.mk (a.getD (4 * p + 3) 0) (a.getD (4 * p) 0) (a.getD (4 * p + 1) 0) (a.getD (4 * p + 2) 0)

def pixels (a : Array Nat) : List Nat := (List.range (a.size / 4)).map (pixAt a)

def Bytes (a : Array Nat) : Prop := ∀ i, a.getD i 0 < 256

theorem ch_mk (a r g b : Nat) (ha : a < 256) (hr : r < 256) (hg : g < 256) (hb : b < 256) :
    VP8L.ch (VP8L.mk a r g b) 0 = b ∧ VP8L.ch (VP8L.mk a r g b) 1 = g ∧
    VP8L.ch (VP8L.mk a r g b) 2 = r ∧ VP8L.ch (VP8L.mk a r g b) 3 = a := by
  unfold VP8L.ch VP8L.mk
  refine ⟨?_, ?_, ?_, ?_⟩ <;> simp <;> omega

theorem ch_pixAt (a : Array Nat) (hb : Bytes a) (p : Nat) :
    VP8L.ch (pixAt a p) 0 = a.getD (4 * p + 2) 0 ∧ VP8L.ch (pixAt a p) 1 = a.getD (4 * p + 1) 0 ∧
    VP8L.ch (pixAt a p) 2 = a.getD (4 * p) 0 ∧ VP8L.ch (pixAt a p) 3 = a.getD (4 * p + 3) 0 :=
  ch_mk _ _ _ _ (hb _) (hb _) (hb _) (hb _)

theorem getD_ofFn (n : Nat) (f : Fin n → Nat) (i : Nat) (h : i < n) : (Array.ofFn f).getD i 0 = f ⟨i, h⟩ := by
  simp [Array.getD, h]

/-! ### subtract green -/

theorem subGreenAt_px (a : Array Nat) (p : Nat) (hp : 4 * p + 4 ≤ a.size) :
    subGreenAt a (4 * p) = (a.getD (4 * p) 0 + a.getD (4 * p + 1) 0) % 256 ∧ subGreenAt a (4 * p + 1) = a.getD (4 * p + 1) 0 ∧
    subGreenAt a (4 * p + 2) = (a.getD (4 * p + 2) 0 + a.getD (4 * p + 1) 0) % 256 ∧ subGreenAt a (4 * p + 3) = a.getD (4 * p + 3) 0 := by
  unfold subGreenAt addGreen
  have e0 : (4 * p) % 4 = 0 := by omega
  have e1 : (4 * p + 1) % 4 = 1 := by omega
  have e2 : (4 * p + 2) % 4 = 2 := by omega
  have e3 : (4 * p + 3) % 4 = 3 := by omega
  have d0 : (4 * p) / 4 * 4 = 4 * p := by omega
  have d2 : (4 * p + 2) / 4 * 4 = 4 * p := by omega
  simp only [e0, e1, e2, e3, d0, d2]
  refine ⟨?_, ?_, ?_, ?_⟩
  · simp [hp]
  · simp
  · simp [hp]
  · simp

theorem getD_applySubGreen (a : Array Nat) (i : Nat) (h : i < a.size) : (applySubGreen a).getD i 0 = subGreenAt a i := by
  unfold applySubGreen; exact getD_ofFn _ _ _ h

theorem pixAt_congr (a b : Array Nat) (p : Nat) (h0 : a.getD (4 * p) 0 = b.getD (4 * p) 0) (h1 : a.getD (4 * p + 1) 0 = b.getD (4 * p + 1) 0)
    (h2 : a.getD (4 * p + 2) 0 = b.getD (4 * p + 2) 0) (h3 : a.getD (4 * p + 3) 0 = b.getD (4 * p + 3) 0) : pixAt a p = pixAt b p := by
  unfold pixAt; rw [h0, h1, h2, h3]


theorem subGreen_px (a : Array Nat) (hb : Bytes a) (h4 : a.size % 4 = 0) (p : Nat) (hp : p < a.size / 4) :
    pixAt (applySubGreen a) p = VP8LP.invSubGreenPx (pixAt a p) := by
  obtain ⟨c0, c1, c2, c3⟩ := ch_pixAt a hb p
  obtain ⟨s0, s1, s2, s3⟩ := subGreenAt_px a p (by omega)
  unfold VP8LP.invSubGreenPx
  rw [c0, c1, c2, c3]
  have g0 := getD_applySubGreen a (4 * p) (by omega)
  have g1 := getD_applySubGreen a (4 * p + 1) (by omega)
  have g2 := getD_applySubGreen a (4 * p + 2) (by omega)
  have g3 := getD_applySubGreen a (4 * p + 3) (by omega)
  unfold pixAt
  rw [g0, g1, g2, g3, s0, s1, s2, s3]

theorem pixels_map (a b : Array Nat) (f : Nat → Nat) (hs : b.size = a.size)
    (h : ∀ p, p < a.size / 4 → pixAt b p = f (pixAt a p)) : pixels b = (pixels a).map f := by
  unfold pixels
  rw [hs, List.map_map]
  apply List.map_congr_left
  intro p hp
  exact h p (List.mem_range.mp hp)

theorem size_applySubGreen (a : Array Nat) : (applySubGreen a).size = a.size := by
  unfold applySubGreen; exact Array.size_ofFn

theorem subGreen_is_spec (a : Array Nat) (hb : Bytes a) (h4 : a.size % 4 = 0) :
    pixels (applySubGreen a) = (pixels a).map VP8LP.invSubGreenPx :=
  pixels_map a (applySubGreen a) _ (size_applySubGreen a) (subGreen_px a hb h4)

/-! ### colour transform -/

/-- the wrapping u32 arithmetic of the code and the signed arithmetic shift of the specification
    give the same byte, for all transform elements and channel values -/
theorem color_delta_eq : ∀ t < 256, ∀ c < 256, ∀ x < 256,
    (LK.addDelta x t c : Int) = ((x : Int) + VP8L.colorDeltaFloor t c) % 256 := by
  intro t ht c hc x hx
  unfold LK.addDelta LK.colorDeltaU32 VP8L.colorDeltaFloor LK.toI8 VP8L.toInt8
  generalize hp : (if t < 128 then (t : Int) else (t : Int) - 256) * (if c < 128 then (c : Int) else (c : Int) - 256) = p
  have hrange : -16384 ≤ p ∧ p ≤ 16384 := by
    rw [← hp]
    have ht' : -128 ≤ (if t < 128 then (t : Int) else (t : Int) - 256) ∧ (if t < 128 then (t : Int) else (t : Int) - 256) ≤ 127 := by split <;> omega
    have hc' : -128 ≤ (if c < 128 then (c : Int) else (c : Int) - 256) ∧ (if c < 128 then (c : Int) else (c : Int) - 256) ≤ 127 := by split <;> omega
    generalize (if t < 128 then (t : Int) else (t : Int) - 256) = u at *
    generalize (if c < 128 then (c : Int) else (c : Int) - 256) = v at *
    constructor <;> nlinarith
  simp only [Int.fdiv_eq_ediv_of_nonneg _ (by omega : (0 : Int) ≤ 32)]
  obtain ⟨h1, h2⟩ := hrange
  by_cases hneg : p < 0
  · have e : (p % 2 ^ 32).toNat = (p + 4294967296).toNat := by
      have : p % 2 ^ 32 = p + 4294967296 := by omega
      rw [this]
    rw [e]
    omega
  · have e : (p % 2 ^ 32).toNat = p.toNat := by
      have : p % 2 ^ 32 = p := by omega
      rw [this]
    rw [e]
    omega

/-- the block index of pixel `p` -/
def blockIdx (w bits p : Nat) : Nat := ((p / w) / 2 ^ bits) * VP8L.subSize w bits + (p % w) / 2 ^ bits

theorem invColor_eq (bits : Nat) (data : Array Nat) (w : Nat) (l : List Nat) (i : Nat) :
    VP8LP.invColor bits data w l i =
      (List.range l.length).map fun k => VP8LP.invColorPx (data.getD (blockIdx w bits (i + k)) 0) (l.getD k 0) := by
  induction l generalizing i with
  | nil => rfl
  | cons p rest ih =>
    have e : VP8LP.invColor bits data w (p :: rest) i =
        VP8LP.invColorPx (data.getD (blockIdx w bits i) 0) p :: VP8LP.invColor bits data w rest (i + 1) := rfl
    rw [e]
    rw [ih (i + 1)]
    rw [List.length_cons]
    rw [List.range_succ_eq_map]
    rw [List.map_cons]
    refine List.cons_eq_cons.mpr ⟨rfl, ?_⟩
    conv => rhs; rw [List.map_map]
    apply List.map_congr_left
    intro k _
    show VP8LP.invColorPx (data.getD (blockIdx w bits (i + 1 + k)) 0) (rest.getD k 0) =
      VP8LP.invColorPx (data.getD (blockIdx w bits (i + (k + 1))) 0) ((p :: rest).getD (k + 1) 0)
    rw [show i + 1 + k = i + (k + 1) by omega, List.getD_cons_succ]

theorem colorAt_px (w bits : Nat) (d a : Array Nat) (p : Nat) :
    colorAt w bits d a (4 * p) = addDelta (a.getD (4 * p) 0) (d.getD (4 * blockIdx w bits p + 2) 0) (a.getD (4 * p + 1) 0) ∧
    colorAt w bits d a (4 * p + 1) = a.getD (4 * p + 1) 0 ∧
    colorAt w bits d a (4 * p + 2) = (a.getD (4 * p + 2) 0 + colorDeltaU32 (d.getD (4 * blockIdx w bits p + 1) 0) (a.getD (4 * p + 1) 0) +
      colorDeltaU32 (d.getD (4 * blockIdx w bits p) 0)
        (addDelta (a.getD (4 * p) 0) (d.getD (4 * blockIdx w bits p + 2) 0) (a.getD (4 * p + 1) 0))) % 256 ∧
    colorAt w bits d a (4 * p + 3) = a.getD (4 * p + 3) 0 := by
  have e0 : (4 * p) % 4 = 0 := by omega
  have e1 : (4 * p + 1) % 4 = 1 := by omega
  have e2 : (4 * p + 2) % 4 = 2 := by omega
  have e3 : (4 * p + 3) % 4 = 3 := by omega
  have d0 : (4 * p) / 4 = p := by omega
  have d1 : (4 * p + 1) / 4 = p := by omega
  have d2 : (4 * p + 2) / 4 = p := by omega
  have d3 : (4 * p + 3) / 4 = p := by omega
  unfold colorAt blockIdx addDelta
  simp only [e0, e1, e2, e3, d0, d1, d2, d3]
  refine ⟨?_, ?_, ?_, ?_⟩ <;> simp <;> rfl

theorem pixels_length (a : Array Nat) : (pixels a).length = a.size / 4 := by simp [pixels]

theorem pixels_getD (a : Array Nat) (k : Nat) (h : k < a.size / 4) : (pixels a).getD k 0 = pixAt a k := by
  unfold pixels
  rw [List.getD_eq_getElem?_getD, List.getElem?_map, List.getElem?_range h]
  rfl

/-- channel `c` of element `k` of a sub-image given as RGBA bytes (also outside it: both are 0) -/
theorem ch_elem (d : Array Nat) (hb : Bytes d) (h4 : d.size % 4 = 0) (k : Nat) :
    VP8L.ch ((pixels d).toArray.getD k 0) 0 = d.getD (4 * k + 2) 0 ∧ VP8L.ch ((pixels d).toArray.getD k 0) 1 = d.getD (4 * k + 1) 0 ∧
    VP8L.ch ((pixels d).toArray.getD k 0) 2 = d.getD (4 * k) 0 ∧ VP8L.ch ((pixels d).toArray.getD k 0) 3 = d.getD (4 * k + 3) 0 := by
  have e : (pixels d).toArray.getD k 0 = (pixels d).getD k 0 := by
    simp only [Array.getD, List.getD_eq_getElem?_getD, List.size_toArray, pixels_length]
    split
    · rename_i h; rw [List.getElem?_eq_getElem (by rw [pixels_length]; exact h)]; rfl
    · rename_i h; rw [List.getElem?_eq_none (by rw [pixels_length]; omega)]; rfl
  rw [e]
  by_cases hk : k < d.size / 4
  · rw [pixels_getD d k hk]; exact ch_pixAt d hb k
  · have z : (pixels d).getD k 0 = 0 := by
      rw [List.getD_eq_getElem?_getD, List.getElem?_eq_none (by rw [pixels_length]; omega)]; rfl
    rw [z]
    have o : ∀ c, c < 4 → d.getD (4 * k + c) 0 = 0 := by
      intro c hc; simp [Array.getD]; intro h; omega
    have := o 0 (by omega); have := o 1 (by omega); have := o 2 (by omega); have := o 3 (by omega)
    simp_all [VP8L.ch]

theorem getD_applyColor (w h bits : Nat) (d a : Array Nat) (hs : a.size = 4 * w * h) (hw : 0 < w) (i : Nat) (hi : i < a.size) :
    (applyColor w bits d a).getD i 0 = colorAt w bits d a i := by
  unfold applyColor
  rw [getD_ofFn _ _ _ hi]
  have hq : i / (4 * w) < h := by
    rw [Nat.div_lt_iff_lt_mul (by omega)]; rw [hs] at hi; calc i < 4 * w * h := hi
      _ = h * (4 * w) := by ring
  have : (i / (4 * w) + 1) * (4 * w) ≤ h * (4 * w) := Nat.mul_le_mul_right _ hq
  have e : i / (4 * w) * (4 * w) + 4 * w = (i / (4 * w) + 1) * (4 * w) := by ring
  have e2 : h * (4 * w) = a.size := by rw [hs]; ring
  simp only
  rw [if_pos (by omega)]

theorem size_applyColor (w bits : Nat) (d a : Array Nat) : (applyColor w bits d a).size = a.size := by
  unfold applyColor; exact Array.size_ofFn

theorem color_px (w h bits : Nat) (d a : Array Nat) (hb : Bytes a) (hd : Bytes d) (hd4 : d.size % 4 = 0)
    (hs : a.size = 4 * w * h) (hw : 0 < w) (p : Nat) (hp : p < a.size / 4) :
    pixAt (applyColor w bits d a) p = VP8LP.invColorPx ((pixels d).toArray.getD (blockIdx w bits p) 0) (pixAt a p) := by
  obtain ⟨c0, c1, c2, c3⟩ := ch_pixAt a hb p
  obtain ⟨k0, k1, k2, k3⟩ := colorAt_px w bits d a p
  obtain ⟨e0, e1, e2, e3⟩ := ch_elem d hd hd4 (blockIdx w bits p)
  have g0 := getD_applyColor w h bits d a hs hw (4 * p) (by omega)
  have g1 := getD_applyColor w h bits d a hs hw (4 * p + 1) (by omega)
  have g2 := getD_applyColor w h bits d a hs hw (4 * p + 2) (by omega)
  have g3 := getD_applyColor w h bits d a hs hw (4 * p + 3) (by omega)
  unfold VP8LP.invColorPx
  rw [c0, c1, c2, c3, e0, e1, e2]
  show VP8L.mk _ _ _ _ = _
  rw [g0, g1, g2, g3, k0, k1, k2, k3]
  have b1 := hd (4 * blockIdx w bits p)
  have b2 := hd (4 * blockIdx w bits p + 1)
  have b3 := hd (4 * blockIdx w bits p + 2)
  have a0 := hb (4 * p)
  have a1 := hb (4 * p + 1)
  have a2 := hb (4 * p + 2)
  generalize d.getD (4 * blockIdx w bits p) 0 = r2b at *
  generalize d.getD (4 * blockIdx w bits p + 1) 0 = g2b at *
  generalize d.getD (4 * blockIdx w bits p + 2) 0 = g2r at *
  generalize a.getD (4 * p) 0 = R at *
  generalize a.getD (4 * p + 1) 0 = G at *
  generalize a.getD (4 * p + 2) 0 = B at *
  generalize a.getD (4 * p + 3) 0 = Al at *
  have hR' : addDelta R g2r G < 256 := by unfold addDelta; omega
  have h1 := color_delta_eq g2r b3 G a1 R a0
  have h2 := color_delta_eq g2b b2 G a1 B a2
  have h3 := color_delta_eq r2b b1 (addDelta R g2r G) hR' (addDelta B g2b G) (by unfold addDelta; omega)
  show _ = VP8L.mk Al (((R : Int) + VP8L.colorDeltaFloor g2r G) % 256).toNat G
    ((((B : Int) + VP8L.colorDeltaFloor g2b G) % 256 + VP8L.colorDeltaFloor r2b (((R : Int) + VP8L.colorDeltaFloor g2r G) % 256).toNat) % 256).toNat
  rw [← h1, Int.toNat_natCast, ← h2, ← h3, Int.toNat_natCast]
  congr 1
  unfold addDelta
  omega

theorem color_is_spec (w h bits : Nat) (d a : Array Nat) (hb : Bytes a) (hd : Bytes d) (hd4 : d.size % 4 = 0)
    (hs : a.size = 4 * w * h) (hw : 0 < w) :
    pixels (applyColor w bits d a) = VP8LP.invColor bits (pixels d).toArray w (pixels a) 0 := by
  rw [invColor_eq, pixels_length]
  have hsz := size_applyColor w bits d a
  have key : ∀ p, p < a.size / 4 → pixAt (applyColor w bits d a) p =
      VP8LP.invColorPx ((pixels d).toArray.getD (blockIdx w bits (0 + p)) 0) ((pixels a).getD p 0) := by
    intro p hp
    rw [Nat.zero_add, pixels_getD a p hp]
    exact color_px w h bits d a hb hd hd4 hs hw p hp
  generalize applyColor w bits d a = b at *
  unfold pixels at *
  rw [hsz]
  apply List.map_congr_left
  intro p hp
  exact key p (List.mem_range.mp hp)


/-! ### predictor transform: the fourteen predictor bodies -/

/-- the four bytes `[r, g, b, a]` of an ARGB pixel -/
def bytesOf (P : Nat) : List Nat := [VP8L.ch P 2, VP8L.ch P 1, VP8L.ch P 0, VP8L.ch P 3]
def packL (v : List Nat) : Nat := VP8L.mk (v.getD 3 0) (v.getD 0 0) (v.getD 1 0) (v.getD 2 0)
/-- byte index → channel number -/
def chanOf (c : Nat) : Nat := if c = 0 then 2 else if c = 2 then 0 else c

theorem ch_lt (P k : Nat) : VP8L.ch P k < 256 := by unfold VP8L.ch; omega

theorem ch_perCh (f : Nat → Nat) : VP8L.ch (VP8L.perCh f) 0 = f 0 % 256 ∧ VP8L.ch (VP8L.perCh f) 1 = f 1 % 256 ∧
    VP8L.ch (VP8L.perCh f) 2 = f 2 % 256 ∧ VP8L.ch (VP8L.perCh f) 3 = f 3 % 256 := by
  unfold VP8L.perCh
  exact ch_mk _ _ _ _ (by omega) (by omega) (by omega) (by omega)

theorem ch_packL_chans (f : Nat → Nat) (hf : ∀ c, f c < 256) :
    VP8L.ch (packL (chans f)) 0 = f 2 ∧ VP8L.ch (packL (chans f)) 1 = f 1 ∧ VP8L.ch (packL (chans f)) 2 = f 0 ∧ VP8L.ch (packL (chans f)) 3 = f 3 := by
  unfold packL chans
  exact ch_mk _ _ _ _ (hf 3) (hf 0) (hf 1) (hf 2)

theorem bytesOf_getD (P : Nat) : (bytesOf P).getD 0 0 = VP8L.ch P 2 ∧ (bytesOf P).getD 1 0 = VP8L.ch P 1 ∧
    (bytesOf P).getD 2 0 = VP8L.ch P 0 ∧ (bytesOf P).getD 3 0 = VP8L.ch P 3 := ⟨rfl, rfl, rfl, rfl⟩

/-- two pixels with the same four channels add the same -/
def SameCh (X Y : Nat) : Prop := VP8L.ch X 0 = VP8L.ch Y 0 ∧ VP8L.ch X 1 = VP8L.ch Y 1 ∧ VP8L.ch X 2 = VP8L.ch Y 2 ∧ VP8L.ch X 3 = VP8L.ch Y 3

theorem avg_lt (a b : Nat) (ha : a < 256) (hb : b < 256) : average2 a b < 256 := by unfold average2; omega

theorem bytesOf_lt (P c : Nat) : (bytesOf P).getD c 0 < 256 := by
  rcases c with _ | _ | _ | _ | c <;> simp [bytesOf, ch_lt]

theorem ch_perCh' (f : Nat → Nat) (k : Nat) (hk : k < 4) : VP8L.ch (VP8L.perCh f) k = f k % 256 := by
  obtain ⟨h0, h1, h2, h3⟩ := ch_perCh f
  have : k = 0 ∨ k = 1 ∨ k = 2 ∨ k = 3 := by omega
  rcases this with h | h | h | h <;> subst h <;> assumption

theorem ch_avg2 (p q k : Nat) (hk : k < 4) : VP8L.ch (VP8L.avg2 p q) k = (VP8L.ch p k + VP8L.ch q k) / 2 := by
  unfold VP8L.avg2; rw [ch_perCh' _ k hk]; have := ch_lt p k; have := ch_lt q k; omega

theorem clamp_le (v : Int) : VP8L.clamp v < 256 := by unfold VP8L.clamp; split <;> (try split) <;> omega

theorem ch_full (a b c k : Nat) (hk : k < 4) :
    VP8L.ch (VP8L.clampAddSubFull a b c) k = LK.clampAddSubFull (VP8L.ch a k) (VP8L.ch b k) (VP8L.ch c k) := by
  unfold VP8L.clampAddSubFull; rw [ch_perCh' _ k hk]
  have := clamp_le ((VP8L.ch a k : Int) + VP8L.ch b k - VP8L.ch c k)
  rw [Nat.mod_eq_of_lt this]
  unfold LK.clampAddSubFull VP8L.clamp; split <;> (try split) <;> omega

theorem ch_half (a b k : Nat) (hk : k < 4) :
    VP8L.ch (VP8L.clampAddSubHalf a b) k = LK.clampAddSubHalf (VP8L.ch a k) (VP8L.ch b k) := by
  unfold VP8L.clampAddSubHalf; rw [ch_perCh' _ k hk]
  have := clamp_le ((VP8L.ch a k : Int) + Int.tdiv ((VP8L.ch a k : Int) - VP8L.ch b k) 2)
  rw [Nat.mod_eq_of_lt this]
  unfold LK.clampAddSubHalf VP8L.clamp; split <;> (try split) <;> omega

theorem select_bytes (L T TL : Nat) :
    selectLeft (chans fun c => (bytesOf L).getD c 0) (chans fun c => (bytesOf T).getD c 0) (chans fun c => (bytesOf TL).getD c 0) = true ↔
    ((List.range 4).map fun k => (((VP8L.ch L k : Int) + VP8L.ch T k - VP8L.ch TL k) - VP8L.ch L k).natAbs).sum <
    ((List.range 4).map fun k => (((VP8L.ch L k : Int) + VP8L.ch T k - VP8L.ch TL k) - VP8L.ch T k).natAbs).sum := by
  unfold selectLeft chans bytesOf
  simp [List.range, List.range.loop]
  omega

macro "chan4" : tactic => `(tactic| (refine ⟨?_, ?_, ?_, ?_⟩ <;> simp only [ch_avg2 _ _ _ (by omega : (0:Nat) < 4), ch_avg2 _ _ _ (by omega : (1:Nat) < 4), ch_avg2 _ _ _ (by omega : (2:Nat) < 4), ch_avg2 _ _ _ (by omega : (3:Nat) < 4), ch_full _ _ _ _ (by omega : (0:Nat) < 4), ch_full _ _ _ _ (by omega : (1:Nat) < 4), ch_full _ _ _ _ (by omega : (2:Nat) < 4), ch_full _ _ _ _ (by omega : (3:Nat) < 4), ch_half _ _ _ (by omega : (0:Nat) < 4), ch_half _ _ _ (by omega : (1:Nat) < 4), ch_half _ _ _ (by omega : (2:Nat) < 4), ch_half _ _ _ (by omega : (3:Nat) < 4), average2, half13]))

theorem predPx_1 (A B C D : List Nat) : predPx 1 A B C D = chans (fun c => A.getD c 0) := by
  unfold predPx; rfl
theorem predict_1 (L T TR TL : Nat) : VP8L.predict 1 L T TR TL = L := by
  unfold VP8L.predict; rfl
theorem predPx_2 (A B C D : List Nat) : predPx 2 A B C D = chans (fun c => B.getD c 0) := by
  unfold predPx; rfl
theorem predict_2 (L T TR TL : Nat) : VP8L.predict 2 L T TR TL = T := by
  unfold VP8L.predict; rfl
theorem predPx_3 (A B C D : List Nat) : predPx 3 A B C D = chans (fun c => C.getD c 0) := by
  unfold predPx; rfl
theorem predict_3 (L T TR TL : Nat) : VP8L.predict 3 L T TR TL = TR := by
  unfold VP8L.predict; rfl
theorem predPx_4 (A B C D : List Nat) : predPx 4 A B C D = chans (fun c => D.getD c 0) := by
  unfold predPx; rfl
theorem predict_4 (L T TR TL : Nat) : VP8L.predict 4 L T TR TL = TL := by
  unfold VP8L.predict; rfl
theorem predPx_5 (A B C D : List Nat) : predPx 5 A B C D = chans (fun c => average2 (average2 (A.getD c 0) (C.getD c 0)) (B.getD c 0)) := by
  unfold predPx; rfl
theorem predict_5 (L T TR TL : Nat) : VP8L.predict 5 L T TR TL = VP8L.avg2 (VP8L.avg2 L TR) T := by
  unfold VP8L.predict; rfl
theorem predPx_6 (A B C D : List Nat) : predPx 6 A B C D = chans (fun c => average2 (A.getD c 0) (D.getD c 0)) := by
  unfold predPx; rfl
theorem predict_6 (L T TR TL : Nat) : VP8L.predict 6 L T TR TL = VP8L.avg2 L TL := by
  unfold VP8L.predict; rfl
theorem predPx_7 (A B C D : List Nat) : predPx 7 A B C D = chans (fun c => average2 (A.getD c 0) (B.getD c 0)) := by
  unfold predPx; rfl
theorem predict_7 (L T TR TL : Nat) : VP8L.predict 7 L T TR TL = VP8L.avg2 L T := by
  unfold VP8L.predict; rfl
theorem predPx_8 (A B C D : List Nat) : predPx 8 A B C D = chans (fun c => average2 (D.getD c 0) (B.getD c 0)) := by
  unfold predPx; rfl
theorem predict_8 (L T TR TL : Nat) : VP8L.predict 8 L T TR TL = VP8L.avg2 TL T := by
  unfold VP8L.predict; rfl
theorem predPx_9 (A B C D : List Nat) : predPx 9 A B C D = chans (fun c => average2 (B.getD c 0) (C.getD c 0)) := by
  unfold predPx; rfl
theorem predict_9 (L T TR TL : Nat) : VP8L.predict 9 L T TR TL = VP8L.avg2 T TR := by
  unfold VP8L.predict; rfl
theorem predPx_10 (A B C D : List Nat) : predPx 10 A B C D = chans (fun c => average2 (average2 (A.getD c 0) (D.getD c 0)) (average2 (B.getD c 0) (C.getD c 0))) := by
  unfold predPx; rfl
theorem predict_10 (L T TR TL : Nat) : VP8L.predict 10 L T TR TL = VP8L.avg2 (VP8L.avg2 L TL) (VP8L.avg2 T TR) := by
  unfold VP8L.predict; rfl
theorem predPx_12 (A B C D : List Nat) : predPx 12 A B C D = chans (fun c => clampAddSubFull (A.getD c 0) (B.getD c 0) (D.getD c 0)) := by
  unfold predPx; rfl
theorem predict_12 (L T TR TL : Nat) : VP8L.predict 12 L T TR TL = VP8L.clampAddSubFull L T TL := by
  unfold VP8L.predict; rfl
theorem predPx_13 (A B C D : List Nat) : predPx 13 A B C D = chans (fun c => clampAddSubHalf (half13 (A.getD c 0) (B.getD c 0)) (D.getD c 0)) := by
  unfold predPx; rfl
theorem predict_13 (L T TR TL : Nat) : VP8L.predict 13 L T TR TL = VP8L.clampAddSubHalf (VP8L.avg2 L T) TL := by
  unfold VP8L.predict; rfl
theorem predPx_0 (A B C D : List Nat) : predPx 0 A B C D = [0, 0, 0, 255] := by
  unfold predPx; rfl
theorem predict_0 (L T TR TL : Nat) : VP8L.predict 0 L T TR TL = 0xff000000 := by
  unfold VP8L.predict; rfl
theorem predPx_11 (A B C D : List Nat) : predPx 11 A B C D =
    if selectLeft (chans fun c => A.getD c 0) (chans fun c => B.getD c 0) (chans fun c => D.getD c 0) then chans (fun c => A.getD c 0) else chans (fun c => B.getD c 0) := by
  unfold predPx; rfl
theorem predict_11 (L T TR TL : Nat) : VP8L.predict 11 L T TR TL = VP8L.select L T TL := by
  unfold VP8L.predict; rfl

theorem clampFull_lt (a b c : Nat) : LK.clampAddSubFull a b c < 256 := by unfold LK.clampAddSubFull; omega
theorem clampHalf_lt (a b : Nat) : LK.clampAddSubHalf a b < 256 := by unfold LK.clampAddSubHalf; omega

/-- **the fourteen predictor bodies are the specification's predictors**, channel by channel, for
    all neighbour pixels -/
theorem predPx_is_predict (m : Nat) (hm : m < 14) (L T TR TL : Nat) :
    SameCh (packL (predPx m (bytesOf L) (bytesOf T) (bytesOf TR) (bytesOf TL))) (VP8L.predict m L T TR TL) := by
  obtain ⟨l0, l1, l2, l3⟩ := bytesOf_getD L
  obtain ⟨t0, t1, t2, t3⟩ := bytesOf_getD T
  obtain ⟨r0, r1, r2, r3⟩ := bytesOf_getD TR
  obtain ⟨q0, q1, q2, q3⟩ := bytesOf_getD TL
  have bL := bytesOf_lt L; have bT := bytesOf_lt T; have bR := bytesOf_lt TR; have bQ := bytesOf_lt TL
  unfold SameCh
  have cases : m = 0 ∨ m = 1 ∨ m = 2 ∨ m = 3 ∨ m = 4 ∨ m = 5 ∨ m = 6 ∨ m = 7 ∨ m = 8 ∨ m = 9 ∨ m = 10 ∨ m = 11 ∨ m = 12 ∨ m = 13 := by omega
  rcases cases with h | h | h | h | h | h | h | h | h | h | h | h | h | h <;> subst h
  · rw [predPx_0, predict_0]; exact ⟨by decide, by decide, by decide, by decide⟩
  · rw [predPx_1, predict_1]
    obtain ⟨p0, p1, p2, p3⟩ := ch_packL_chans _ (bL)
    simp only [p0, p1, p2, p3, l0, l1, l2, l3, t0, t1, t2, t3, r0, r1, r2, r3, q0, q1, q2, q3]
    chan4
  · rw [predPx_2, predict_2]
    obtain ⟨p0, p1, p2, p3⟩ := ch_packL_chans _ (bT)
    simp only [p0, p1, p2, p3, l0, l1, l2, l3, t0, t1, t2, t3, r0, r1, r2, r3, q0, q1, q2, q3]
    chan4
  · rw [predPx_3, predict_3]
    obtain ⟨p0, p1, p2, p3⟩ := ch_packL_chans _ (bR)
    simp only [p0, p1, p2, p3, l0, l1, l2, l3, t0, t1, t2, t3, r0, r1, r2, r3, q0, q1, q2, q3]
    chan4
  · rw [predPx_4, predict_4]
    obtain ⟨p0, p1, p2, p3⟩ := ch_packL_chans _ (bQ)
    simp only [p0, p1, p2, p3, l0, l1, l2, l3, t0, t1, t2, t3, r0, r1, r2, r3, q0, q1, q2, q3]
    chan4
  · rw [predPx_5, predict_5]
    obtain ⟨p0, p1, p2, p3⟩ := ch_packL_chans _ (fun c => avg_lt _ _ (avg_lt _ _ (bL c) (bR c)) (bT c))
    simp only [p0, p1, p2, p3, l0, l1, l2, l3, t0, t1, t2, t3, r0, r1, r2, r3, q0, q1, q2, q3]
    chan4
  · rw [predPx_6, predict_6]
    obtain ⟨p0, p1, p2, p3⟩ := ch_packL_chans _ (fun c => avg_lt _ _ (bL c) (bQ c))
    simp only [p0, p1, p2, p3, l0, l1, l2, l3, t0, t1, t2, t3, r0, r1, r2, r3, q0, q1, q2, q3]
    chan4
  · rw [predPx_7, predict_7]
    obtain ⟨p0, p1, p2, p3⟩ := ch_packL_chans _ (fun c => avg_lt _ _ (bL c) (bT c))
    simp only [p0, p1, p2, p3, l0, l1, l2, l3, t0, t1, t2, t3, r0, r1, r2, r3, q0, q1, q2, q3]
    chan4
  · rw [predPx_8, predict_8]
    obtain ⟨p0, p1, p2, p3⟩ := ch_packL_chans _ (fun c => avg_lt _ _ (bQ c) (bT c))
    simp only [p0, p1, p2, p3, l0, l1, l2, l3, t0, t1, t2, t3, r0, r1, r2, r3, q0, q1, q2, q3]
    chan4
  · rw [predPx_9, predict_9]
    obtain ⟨p0, p1, p2, p3⟩ := ch_packL_chans _ (fun c => avg_lt _ _ (bT c) (bR c))
    simp only [p0, p1, p2, p3, l0, l1, l2, l3, t0, t1, t2, t3, r0, r1, r2, r3, q0, q1, q2, q3]
    chan4
  · rw [predPx_10, predict_10]
    obtain ⟨p0, p1, p2, p3⟩ := ch_packL_chans _ (fun c => avg_lt _ _ (avg_lt _ _ (bL c) (bQ c)) (avg_lt _ _ (bT c) (bR c)))
    simp only [p0, p1, p2, p3, l0, l1, l2, l3, t0, t1, t2, t3, r0, r1, r2, r3, q0, q1, q2, q3]
    chan4
  · rw [predPx_11, predict_11]
    unfold VP8L.select
    by_cases hs : selectLeft (chans fun c => (bytesOf L).getD c 0) (chans fun c => (bytesOf T).getD c 0) (chans fun c => (bytesOf TL).getD c 0) = true
    · rw [if_pos hs]
      have := (select_bytes L T TL).mp hs
      rw [if_pos this]
      obtain ⟨p0, p1, p2, p3⟩ := ch_packL_chans _ bL
      rw [p0, p1, p2, p3]; exact ⟨l2, l1, l0, l3⟩
    · rw [if_neg hs]
      have := fun h => hs ((select_bytes L T TL).mpr h)
      rw [if_neg this]
      obtain ⟨p0, p1, p2, p3⟩ := ch_packL_chans _ bT
      rw [p0, p1, p2, p3]; exact ⟨t2, t1, t0, t3⟩
  · rw [predPx_12, predict_12]
    obtain ⟨p0, p1, p2, p3⟩ := ch_packL_chans (fun c => clampAddSubFull ((bytesOf L).getD c 0) ((bytesOf T).getD c 0) ((bytesOf TL).getD c 0)) (fun c => clampFull_lt _ _ _)
    simp only [p0, p1, p2, p3, l0, l1, l2, l3, t0, t1, t2, t3, r0, r1, r2, r3, q0, q1, q2, q3]
    chan4
  · rw [predPx_13, predict_13]
    obtain ⟨p0, p1, p2, p3⟩ := ch_packL_chans (fun c => clampAddSubHalf (half13 ((bytesOf L).getD c 0) ((bytesOf T).getD c 0)) ((bytesOf TL).getD c 0)) (fun c => clampHalf_lt _ _)
    simp only [p0, p1, p2, p3, l0, l1, l2, l3, t0, t1, t2, t3, r0, r1, r2, r3, q0, q1, q2, q3]
    chan4

end LTrProof
