import WebpVerif.Lemmas.HuffTree

/-!
`HuffmanTree::build_implicit`, part 2b: the code assignment (`next_codes`) hands out the canonical
code words, they fit their lengths when the validity test passes, and the prefix-freeness of the
canonical code in the vocabulary of table indices (bit-reversed words).
-/
namespace Huff
open Prefix

theorem hist_eq (ls : List Nat) (len : Nat) (h : len ≠ 0) : hist ls len = blCount ls len := by
  unfold hist blCount
  congr 1
  apply List.filter_congr
  intro l _
  by_cases hl : l = len
  · subst hl; simp [h]
  · simp [hl]

theorem nextCodes_spec (ls : List Nat) : ∀ m, m ≤ 15 →
    (nextCodes ls m).2 = nextCode ls (m + 1) ∧ (nextCodes ls m).1.size = 16 ∧
    ∀ len, 1 ≤ len → len ≤ m → (nextCodes ls m).1[len]! = nextCode ls len % 65536 := by
  intro m
  induction m with
  | zero => intro _; exact ⟨rfl, by simp [nextCodes], fun len h1 h2 => by omega⟩
  | succ m ih =>
    intro hm
    obtain ⟨i1, i2, i3⟩ := ih (by omega)
    have e : nextCodes ls (m + 1) = ((nextCodes ls m).1.setIfInBounds (m + 1) ((nextCodes ls m).2 % 65536),
        ((nextCodes ls m).2 + hist ls (m + 1)) * 2) := rfl
    rw [e]
    refine ⟨?_, by simp [i2], fun len h1 h2 => ?_⟩
    · simp only
      rw [i1, hist_eq ls (m + 1) (by omega)]
      show _ = (nextCode ls (m + 1) + (if m + 1 = 0 then 0 else blCount ls (m + 1))) * 2
      rw [if_neg (by omega)]
    · simp only
      rw [aget_set]
      by_cases hl : len = m + 1
      · rw [if_pos ⟨hl, by rw [i2]; omega⟩, i1, hl]
      · rw [if_neg (fun hh => hl hh.1)]
        exact i3 len h1 (by omega)

theorem blockEnd_le (ls : List Nat) (L : Nat) (hc : blockEnd ls L = 2 ^ L) : ∀ k, 1 ≤ k → k ≤ L → blockEnd ls k ≤ 2 ^ k := by
  intro k h1 hk
  by_cases hkl : k = L
  · subst hkl; rw [hc]
  · obtain ⟨d, hd⟩ : ∃ d, L = k + d + 1 := ⟨L - k - 1, by omega⟩
    have hm := nextCode_mono ls k h1 d
    rw [← hd] at hm
    have hle : nextCode ls L ≤ blockEnd ls L := by unfold blockEnd; exact Nat.le_add_right _ _
    rw [hc] at hle
    have hb : blockEnd ls k = nextCode ls k + blCount ls k := by unfold blockEnd; rw [if_neg (by omega)]
    rw [hb]
    have hp : 2 ^ L = 2 ^ k * 2 ^ (d + 1) := by rw [hd, ← Nat.pow_add]; congr 1
    rw [hp] at hle
    exact Nat.le_of_mul_le_mul_right (Nat.le_trans hm hle) (Nat.two_pow_pos _)

theorem code_fits (ls : List Nat) (L : Nat) (hc : blockEnd ls L = 2 ^ L) (s c : Nat) (hs : canonicalCode ls s = some c)
    (hle : ls.getD s 0 ≤ L) : c < 2 ^ ls.getD s 0 := by
  obtain ⟨s1, s2, s3⟩ := canonical_some ls s c hs
  have hr := rank_lt_blCount ls s s1
  have hb := blockEnd_le ls L hc (ls.getD s 0) (by omega) hle
  unfold blockEnd at hb
  rw [if_neg s2] at hb
  omega

/-! ### bit lists -/

theorem lsbBits_mod (v n : Nat) : lsbBits (v % 2 ^ n) n = lsbBits v n := by
  unfold lsbBits
  apply List.map_congr_left
  intro k hk
  have hk' : k < n := List.mem_range.mp hk
  obtain ⟨j, rfl⟩ : ∃ j, n = k + (j + 1) := ⟨n - k - 1, by omega⟩
  rw [Nat.pow_add, Nat.mod_mul_right_div_self, Nat.pow_succ, Nat.mod_mul_left_mod]

theorem lsbBits_split (v a : Nat) : ∀ b, lsbBits v (a + b) = lsbBits v a ++ lsbBits (v / 2 ^ a) b := by
  intro b
  induction b with
  | zero => simp [lsbBits]
  | succ b ih =>
    have e1 : lsbBits v (a + (b + 1)) = lsbBits v (a + b) ++ [v / 2 ^ (a + b) % 2] := by
      unfold lsbBits; rw [← Nat.add_assoc, List.range_succ, List.map_append]; rfl
    have e2 : lsbBits (v / 2 ^ a) (b + 1) = lsbBits (v / 2 ^ a) b ++ [v / 2 ^ a / 2 ^ b % 2] := by
      unfold lsbBits; rw [List.range_succ, List.map_append]; rfl
    rw [e1, e2, ih, List.append_assoc, Nat.div_div_eq_div_mul, ← Nat.pow_add]

theorem msbBits_split (c b : Nat) : ∀ a, msbBits c (a + b) = msbBits (c / 2 ^ b) a ++ msbBits c b := by
  intro a
  induction a with
  | zero => simp [msbBits]
  | succ a ih =>
    have e : a + 1 + b = (a + b) + 1 := by omega
    rw [e, msbBits_cons, msbBits_cons, ih, List.cons_append, Nat.div_div_eq_div_mul, ← Nat.pow_add, Nat.add_comm b a]

theorem msbVal_msbBits : ∀ (n c : Nat), c < 2 ^ n → msbVal 0 (msbBits c n) = c := by
  intro n
  induction n with
  | zero => intro c h; simp at h; subst h; rfl
  | succ n ih =>
    intro c h
    rw [msbBits_snoc, msbVal_snoc, ih (c / 2) (by rw [Nat.pow_succ] at h; omega)]
    omega

theorem reverse_inj (n a b : Nat) (ha : a < 2 ^ n) (hb : b < 2 ^ n) (h : reverseBits a n = reverseBits b n) : a = b := by
  have e : msbBits a n = msbBits b n := by rw [← lsb_reverse_eq_msb, ← lsb_reverse_eq_msb, h]
  rw [← msbVal_msbBits n a ha, ← msbVal_msbBits n b hb, e]

theorem reverse_mod (n : Nat) : ∀ (d c : Nat), reverseBits c (n + d) % 2 ^ n = reverseBits (c / 2 ^ d) n := by
  intro d
  induction d with
  | zero =>
    intro c
    rw [Nat.add_zero, Nat.pow_zero, Nat.div_one, EncHuff.reverseBits_eq, Nat.mod_eq_of_lt (bitSum_lt n c)]
  | succ d ih =>
    intro c
    rw [← Nat.add_assoc, EncHuff.reverseBits_eq, bitSum_rec, ← EncHuff.reverseBits_eq]
    have e : c % 2 * 2 ^ (n + d) = 2 ^ n * (c % 2 * 2 ^ d) := by rw [Nat.pow_add]; ring
    rw [e, Nat.mul_add_mod, ih (c / 2), Nat.div_div_eq_div_mul, Nat.pow_succ, Nat.mul_comm 2]

/-- **prefix-freeness on table indices**: the reversed word of `t` is not the low bits of the
    reversed word of a different symbol `s` -/
theorem pf_index (ls : List Nat) (hfit : ∀ s c, canonicalCode ls s = some c → c < 2 ^ ls.getD s 0)
    (s t cs ct : Nat) (hs : canonicalCode ls s = some cs) (ht : canonicalCode ls t = some ct)
    (hle : ls.getD t 0 ≤ ls.getD s 0)
    (h : reverseBits cs (ls.getD s 0) % 2 ^ ls.getD t 0 = reverseBits ct (ls.getD t 0)) : t = s := by
  obtain ⟨d, hd⟩ : ∃ d, ls.getD s 0 = ls.getD t 0 + d := ⟨ls.getD s 0 - ls.getD t 0, by omega⟩
  rw [hd, reverse_mod] at h
  have hcs := hfit s cs hs
  have hct := hfit t ct ht
  have hlt : cs / 2 ^ d < 2 ^ ls.getD t 0 := by
    rw [hd, Nat.pow_add] at hcs
    exact Nat.div_lt_of_lt_mul (by rw [Nat.mul_comm]; exact hcs)
  have := reverse_inj _ _ _ hlt hct h
  exact prefix_free ls t s ct cs ht hs hle (by rw [← this]; congr 2; omega)

/-- a peek that starts with the word of `s` carries the tail of that word above bit `a` -/
theorem peek_tail (v c l a : Nat) (hc : c < 2 ^ l) (ha : a ≤ l) (h : v % 2 ^ l = reverseBits c l) :
    lsbBits (v / 2 ^ a) (l - a) = msbBits c (l - a) := by
  have e1 : lsbBits v l = msbBits c l := by rw [← lsbBits_mod, h, lsb_reverse_eq_msb]
  obtain ⟨b, rfl⟩ : ∃ b, l = a + b := ⟨l - a, by omega⟩
  rw [lsbBits_split, msbBits_split] at e1
  have hl : (lsbBits v a).length = (msbBits (c / 2 ^ b) a).length := by simp [lsbBits, msbBits]
  have := (List.append_inj e1 hl).2
  rw [Nat.add_sub_cancel_left]
  exact this

end Huff
