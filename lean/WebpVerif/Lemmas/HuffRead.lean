import WebpVerif.Model.Huffman
import WebpVerif.Lemmas.CodeBits

/-!
`HuffmanTree::read_symbol` (model `Huff.readSym`) against the specification's canonical symbol
decoder.  Part 1: a table/tree that answers every 16-bit peek starting with the code word of a
symbol by that symbol (`Good`) reads exactly what `Prefix.decodeSym` reads.
-/
namespace Huff
open Prefix

/-- the peek `v` starts with the code word of symbol `s` (stream order = code word MSB first =
    the bit-reversed word in the low bits of `v`) -/
def Matches (ls : List Nat) (s v : Nat) : Prop :=
  ∃ c, canonicalCode ls s = some c ∧ v % 2 ^ ls.getD s 0 = reverseBits c (ls.getD s 0)

/-- the structure answers every peek that starts with a code word by its symbol and length -/
def Good (t : HT) (ls : List Nat) : Prop :=
  ∀ s v, v < 65536 → Matches ls s v → look t v = some (s, ls.getD s 0)

theorem lsbVal_append (a b : List Nat) : lsbVal (a ++ b) = lsbVal a + 2 ^ a.length * lsbVal b := by
  induction a with
  | nil => simp [lsbVal]
  | cons x a ih =>
    simp only [List.cons_append, lsbVal, ih, List.length_cons, Nat.pow_succ]
    rw [Nat.mul_add, ← Nat.mul_assoc, Nat.mul_comm 2 (2 ^ a.length)]
    omega

theorem lsbVal_lt (a : List Nat) (h : ∀ b ∈ a, b < 2) : lsbVal a < 2 ^ a.length := by
  induction a with
  | nil => simp [lsbVal]
  | cons x a ih =>
    have hx := h x List.mem_cons_self
    have := ih (fun b hb => h b (List.mem_cons_of_mem _ hb))
    simp only [lsbVal, List.length_cons, Nat.pow_succ]
    omega

/-- value of a bit list, first bit most significant, after `c` -/
def msbVal (c : Nat) (bits : List Nat) : Nat := bits.foldl (fun acc b => 2 * acc + b) c

theorem msbVal_append (c : Nat) (a b : List Nat) : msbVal c (a ++ b) = msbVal (msbVal c a) b := by
  unfold msbVal; rw [List.foldl_append]

theorem msbVal_snoc (a : List Nat) (x : Nat) : msbVal 0 (a ++ [x]) = 2 * msbVal 0 a + x := by
  rw [msbVal_append]; rfl

/-- reversing the MSB-first value of a bit list gives its LSB-first value -/
theorem reverse_msbVal_rev : ∀ (a : List Nat), (∀ b ∈ a, b < 2) →
    reverseBits (msbVal 0 a.reverse) a.length = lsbVal a.reverse := by
  intro a
  induction a with
  | nil => intro _; rfl
  | cons x a ih =>
    intro h
    have hx := h x List.mem_cons_self
    have ha := fun b hb => h b (List.mem_cons_of_mem _ hb)
    rw [List.reverse_cons, msbVal_snoc, List.length_cons, EncHuff.reverseBits_eq, bitSum_rec, lsbVal_append]
    have e1 : (2 * msbVal 0 a.reverse + x) % 2 = x := by omega
    have e2 : (2 * msbVal 0 a.reverse + x) / 2 = msbVal 0 a.reverse := by omega
    rw [e1, e2, ← EncHuff.reverseBits_eq, ih ha, List.length_reverse]
    simp only [lsbVal]
    ring

theorem reverse_msbVal (a : List Nat) (h : ∀ b ∈ a, b < 2) : reverseBits (msbVal 0 a) a.length = lsbVal a := by
  have := reverse_msbVal_rev a.reverse (fun b hb => h b (List.mem_reverse.mp hb))
  rw [List.reverse_reverse, List.length_reverse] at this
  exact this

theorem peek16_mod (taken rest : List Nat) (hl : taken.length ≤ 16) (h : ∀ b ∈ taken, b < 2) :
    peek16 (taken ++ rest) % 2 ^ taken.length = lsbVal taken := by
  unfold peek16
  have e : (taken ++ rest).take 16 = taken ++ rest.take (16 - taken.length) := by
    rw [List.take_append]
    rw [List.take_of_length_le hl]
  rw [e, lsbVal_append, Nat.add_mul_mod_self_left, Nat.mod_eq_of_lt (lsbVal_lt taken h)]

theorem peek16_lt (bits : List Nat) (h : ∀ b ∈ bits, b < 2) : peek16 bits < 65536 := by
  unfold peek16
  have h1 := lsbVal_lt (bits.take 16) (fun b hb => h b (List.mem_of_mem_take hb))
  have h2 : (bits.take 16).length ≤ 16 := by rw [List.length_take]; omega
  calc lsbVal (bits.take 16) < 2 ^ (bits.take 16).length := h1
    _ ≤ 2 ^ 16 := Nat.pow_le_pow_right (by decide) h2
    _ = 65536 := by decide

/-- **Part 1**: a `Good` structure reads what the specification reads - on every complete code
    (longest length `L`) and every bit string of at least `L` bits -/
theorem readSym_good (t : HT) (ls : List Nat) (hgood : Good t ls) (hall : ∀ l ∈ ls, l ≤ 15) (L : Nat) (hL1 : 1 ≤ L) (hL : L ≤ 15)
    (hend : blockEnd ls L = 2 ^ L) (bits : List Nat) (hb : ∀ b ∈ bits, b < 2) (hlen : L ≤ bits.length) :
    readSym (.ok t) bits = decodeSym ls 15 0 0 bits := by
  obtain ⟨s, rest, hdec⟩ := decodeSym_total ls L hL1 hend 15 0 0 bits (by omega) (by omega) hb
    (by decide) (Nat.le_of_eq rfl)
  obtain ⟨taken, e1, e2, e3⟩ := decodeSym_sound ls 15 0 0 bits s rest hdec
  rw [Nat.zero_add] at e2
  have hs := canonical_some ls s _ e3
  have hl15 : taken.length ≤ 15 := by
    rw [← e2, List.getD_eq_getElem?_getD, List.getElem?_eq_getElem hs.1]
    exact hall _ (List.getElem_mem _)
  have htb : ∀ b ∈ taken, b < 2 := fun b hb' => hb b (by rw [e1]; exact List.mem_append_left _ hb')
  have hm : Matches ls s (peek16 bits) := by
    refine ⟨_, e3, ?_⟩
    rw [e2, e1, peek16_mod taken rest (by omega) htb]
    exact (reverse_msbVal taken htb).symm
  have hlook := hgood s (peek16 bits) (peek16_lt bits hb) hm
  rw [hdec]
  unfold readSym
  simp only [hlook]
  rw [if_neg (by rw [e2, e1, List.length_append]; omega), e2]
  congr 2
  rw [e1, List.drop_left]

end Huff
