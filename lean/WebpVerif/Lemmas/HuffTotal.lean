import WebpVerif.Lemmas.HuffTop
import Mathlib.Data.List.Induction

/-!
`HuffmanTree::build_implicit`, part 3: totality.  On a code that passes the validity test the
symbol loop never fails: the depth loop never meets a `Leaf`, and ends on an `Empty` node.
Needs the soundness of every leaf and branch of the secondary trees, which in turn needs that no
two paths lead to the same node (children are always allocated fresh).
-/
namespace Huff
open Prefix
open EncHuff (codeWord)

/-- the root a table slot points to, if it holds a pointer (non-zero, length field zero) -/
def rootOf (table : Array Nat) (j : Nat) : Option Nat :=
  if table[j]! ≠ 0 ∧ table[j]! < 65536 then some (table[j]! - 1) else none

@[reducible] def Bits (p : List Nat) : Prop := ∀ b ∈ p, b < 2

/-- no node has two parents, roots have none, slots have distinct roots -/
structure TS (tree : Array Node) (table : Array Nat) : Prop where
  w1 : W1 tree
  up : ∀ i i' off off' b b' : Nat, tree[i]! = Node.branch off → tree[i']! = Node.branch off' → b < 2 → b' < 2 →
    i + off + b = i' + off' + b' → i = i' ∧ b = b'
  rnp : ∀ j root i off b : Nat, rootOf table j = some root → tree[i]! = Node.branch off → b < 2 → i + off + b ≠ root
  rd : ∀ j j' root : Nat, rootOf table j = some root → rootOf table j' = some root → j = j'
  rlt : ∀ j root : Nat, rootOf table j = some root → root < tree.size

theorem path_snoc_inv (tree : Array Node) : ∀ (q : List Nat) (n b m : Nat), Path tree n (q ++ [b]) m →
    ∃ k off, Path tree n q k ∧ tree[k]! = Node.branch off ∧ m = k + off + b := by
  intro q
  induction q with
  | nil =>
    intro n b m h
    obtain ⟨off, h1, h2⟩ := h
    exact ⟨n, off, rfl, h1, h2.symm⟩
  | cons x q ih =>
    intro n b m h
    obtain ⟨off, h1, h2⟩ := h
    obtain ⟨k, off', a1, a2, a3⟩ := ih _ b m h2
    exact ⟨k, off', ⟨off, h1, a1⟩, a2, a3⟩

/-- **no aliasing**: a node is reached from at most one slot by at most one bit path -/
theorem path_unique (tree : Array Node) (table : Array Nat) (ts : TS tree table) :
    ∀ (p p' : List Nat) (j j' root root' m : Nat), Bits p → Bits p' →
      rootOf table j = some root → rootOf table j' = some root' → Path tree root p m → Path tree root' p' m →
      j = j' ∧ p = p' := by
  intro p
  induction p using List.reverseRecOn with
  | nil =>
    intro p' j j' root root' m _ hb' hr hr' hp hp'
    have hm : root = m := hp
    subst hm
    rcases List.eq_nil_or_concat p' with rfl | ⟨q', b', hq⟩
    all_goals try (rw [List.concat_eq_append] at hq; subst hq)
    · have : root' = root := hp'
      subst this
      exact ⟨ts.rd j j' root' hr hr', rfl⟩
    · obtain ⟨k, off, _, a2, a3⟩ := path_snoc_inv tree q' root' b' root hp'
      exact absurd a3.symm (ts.rnp j root k off b' hr a2 (hb' b' (by simp)))
  | append_singleton q b ih =>
    intro p' j j' root root' m hb hb' hr hr' hp hp'
    obtain ⟨k, off, a1, a2, a3⟩ := path_snoc_inv tree q root b m hp
    rcases List.eq_nil_or_concat p' with rfl | ⟨q', b', hq⟩
    all_goals try (rw [List.concat_eq_append] at hq; subst hq)
    · have : root' = m := hp'
      subst this
      exact absurd a3.symm (ts.rnp j' root' k off b hr' a2 (hb b (by simp)))
    · obtain ⟨k', off', c1, c2, c3⟩ := path_snoc_inv tree q' root' b' m hp'
      have hbb := hb b (by simp)
      have hbb' := hb' b' (by simp)
      obtain ⟨e1, e2⟩ := ts.up k k' off off' b b' a2 c2 hbb hbb' (by omega)
      subst e1 e2
      obtain ⟨i1, i2⟩ := ih q' j j' root root' k (fun x hx => hb x (by simp [hx])) (fun x hx => hb' x (by simp [hx]))
        hr hr' a1 c1
      exact ⟨i1, by rw [i2]⟩

/-! ### prefix-freeness along a path of a secondary tree -/

theorem msbBits_length (c n : Nat) : (msbBits c n).length = n := by simp [msbBits]
theorem lsbBits_length (c n : Nat) : (lsbBits c n).length = n := by simp [lsbBits]

/-- the first `tb` stream bits of a word are what the table slot is computed from -/
theorem slot_bits (c l tb : Nat) (htb : tb ≤ l) :
    lsbBits (reverseBits c l % 2 ^ tb) tb = msbBits (c / 2 ^ (l - tb)) tb := by
  have e : lsbBits (reverseBits c l) l = msbBits c l := lsb_reverse_eq_msb l c
  obtain ⟨d, rfl⟩ : ∃ d, l = tb + d := ⟨l - tb, by omega⟩
  rw [lsbBits_split, msbBits_split] at e
  have := (List.append_inj e (by rw [lsbBits_length, msbBits_length])).1
  rw [lsbBits_mod, this, Nat.add_sub_cancel_left]

/-- two long symbols in the same slot, the tree path of one a prefix of the other's: the same symbol -/
theorem same_of_path_prefix (ls : List Nat) (hfit : ∀ s c, canonicalCode ls s = some c → c < 2 ^ ls.getD s 0) (tb s t cs ct : Nat)
    (hs : canonicalCode ls s = some cs) (ht : canonicalCode ls t = some ct) (hls : tb < ls.getD s 0) (hlt : tb < ls.getD t 0)
    (hslot : reverseBits cs (ls.getD s 0) % 2 ^ tb = reverseBits ct (ls.getD t 0) % 2 ^ tb) (pre rest : List Nat)
    (hps : msbBits cs (ls.getD s 0 - tb) = pre) (hpt : msbBits ct (ls.getD t 0 - tb) = pre ++ rest) : s = t := by
  have hl1 : pre.length = ls.getD s 0 - tb := by rw [← hps, msbBits_length]
  have hl2 : pre.length + rest.length = ls.getD t 0 - tb := by rw [← List.length_append, ← hpt, msbBits_length]
  have hle : ls.getD s 0 ≤ ls.getD t 0 := by omega
  apply prefix_free ls s t cs ct hs ht hle
  -- cs is the top `l_s` bits of ct
  have hcs := hfit s cs hs
  have hct := hfit t ct ht
  have hlt' : ct / 2 ^ (ls.getD t 0 - ls.getD s 0) < 2 ^ ls.getD s 0 := by
    apply Nat.div_lt_of_lt_mul
    rw [← Nat.pow_add, show ls.getD t 0 - ls.getD s 0 + ls.getD s 0 = ls.getD t 0 by omega]
    exact hct
  rw [← msbVal_msbBits _ cs hcs, ← msbVal_msbBits _ _ hlt']
  congr 1
  -- split both words at the table width
  have e1 : msbBits cs (ls.getD s 0) = msbBits (cs / 2 ^ (ls.getD s 0 - tb)) tb ++ msbBits cs (ls.getD s 0 - tb) := by
    have := msbBits_split cs (ls.getD s 0 - tb) tb
    rw [show tb + (ls.getD s 0 - tb) = ls.getD s 0 by omega] at this
    exact this
  have e2 : msbBits (ct / 2 ^ (ls.getD t 0 - ls.getD s 0)) (ls.getD s 0) =
      msbBits (ct / 2 ^ (ls.getD t 0 - ls.getD s 0) / 2 ^ (ls.getD s 0 - tb)) tb ++
        msbBits (ct / 2 ^ (ls.getD t 0 - ls.getD s 0)) (ls.getD s 0 - tb) := by
    have := msbBits_split (ct / 2 ^ (ls.getD t 0 - ls.getD s 0)) (ls.getD s 0 - tb) tb
    rw [show tb + (ls.getD s 0 - tb) = ls.getD s 0 by omega] at this
    exact this
  rw [e1, e2]
  congr 1
  · -- the slot bits
    rw [Nat.div_div_eq_div_mul, ← Nat.pow_add, show ls.getD t 0 - ls.getD s 0 + (ls.getD s 0 - tb) = ls.getD t 0 - tb by omega,
      ← slot_bits cs _ tb (by omega), ← slot_bits ct _ tb (by omega), hslot]
  · -- the tree bits
    have e3 := msbBits_split ct (ls.getD t 0 - ls.getD s 0) (ls.getD s 0 - tb)
    rw [show ls.getD s 0 - tb + (ls.getD t 0 - ls.getD s 0) = ls.getD t 0 - tb by omega, hpt] at e3
    have := (List.append_inj e3 (by rw [hl1, msbBits_length])).1
    rw [hps, this]

/-! ### soundness of the secondary trees -/

structure Snd (ls : List Nat) (tb kl kb : Nat) (tree : Array Node) (table : Array Nat) : Prop where
  leaf : ∀ j root p m s, rootOf table j = some root → Bits p → Path tree root p m → tree[m]! = Node.leaf s →
    s < kl ∧ ∃ c, canonicalCode ls s = some c ∧ tb < ls.getD s 0 ∧ reverseBits c (ls.getD s 0) % 2 ^ tb = j ∧
      msbBits c (ls.getD s 0 - tb) = p
  branch : ∀ j root p m off, rootOf table j = some root → Bits p → Path tree root p m → tree[m]! = Node.branch off →
    ∃ s c q, s < kb ∧ canonicalCode ls s = some c ∧ tb < ls.getD s 0 ∧ reverseBits c (ls.getD s 0) % 2 ^ tb = j ∧
      q ≠ [] ∧ msbBits c (ls.getD s 0 - tb) = p ++ q
  used : ∀ j root, rootOf table j = some root →
    ∃ s c, s < kb ∧ canonicalCode ls s = some c ∧ tb < ls.getD s 0 ∧ reverseBits c (ls.getD s 0) % 2 ^ tb = j

theorem aget_oob (tree : Array Node) (i : Nat) (h : tree.size ≤ i) : tree[i]! = Node.empty := by
  rw [Array.getElem!_eq_getD, Array.getD_eq_getD_getElem?, Array.getElem?_eq_none h]
  rfl

/-- a path in the tree after `Empty → Branch` + two fresh `Empty` children that ends on an old
    node is a path of the old tree -/
theorem path_old (tree t1 : Array Node) (node : Nat)
    (hget : ∀ i, t1[i]! = if i = node then Node.branch (tree.size - node) else tree[i]!) (hn : node < tree.size) :
    ∀ (p : List Nat) (n m : Nat), Path t1 n p m → m < tree.size → Path tree n p m := by
  intro p
  induction p with
  | nil => intro n m h _; exact h
  | cons b bs ih =>
    intro n m h hm
    obtain ⟨off, h1, h2⟩ := h
    rw [hget] at h1
    by_cases hnn : n = node
    · rw [if_pos hnn] at h1
      injection h1 with h1
      -- the next node is fresh: the path cannot go on, nor end on an old node
      exfalso
      cases bs with
      | nil =>
        have : n + off + b = m := h2
        omega
      | cons b' bs' =>
        obtain ⟨off', g1, _⟩ := h2
        rw [hget, if_neg (by omega), aget_oob tree _ (by omega)] at g1
        cases g1
    · rw [if_neg hnn] at h1
      exact ⟨off, h1, ih _ _ h2 hm⟩

/-- a path in the tree after an `Empty → Leaf` write is a path of the tree before -/
theorem path_old_leaf (tree : Array Node) (e s : Nat) : ∀ (p : List Nat) (n m : Nat),
    Path (tree.setIfInBounds e (Node.leaf s)) n p m → Path tree n p m := by
  intro p
  induction p with
  | nil => intro n m h; exact h
  | cons b bs ih =>
    intro n m h
    obtain ⟨off, h1, h2⟩ := h
    rw [aget_set] at h1
    by_cases hc : n = e ∧ e < tree.size
    · rw [if_pos hc] at h1; cases h1
    · rw [if_neg hc] at h1
      exact ⟨off, h1, ih _ _ h2⟩

/-! ### the depth loop never fails -/

theorem walk_total (ls : List Nat) (hfit : ∀ s c, canonicalCode ls s = some c → c < 2 ^ ls.getD s 0)
    (tb k c j root : Nat) (table : Array Nat)
    (hcan : canonicalCode ls k = some c) (hl : tb < ls.getD k 0)
    (hslot : reverseBits c (ls.getD k 0) % 2 ^ tb = j) (hroot : rootOf table j = some root) :
    ∀ (d : Nat) (tree : Array Node) (node : Nat) (pre : List Nat),
      TS tree table → Snd ls tb k (k + 1) tree table → node < tree.size → Bits pre → Path tree root pre node →
      pre ++ msbBits c d = msbBits c (ls.getD k 0 - tb) →
      ∃ tree' node', walkInsert c d tree node = some (tree', node') ∧ TS tree' table ∧ Snd ls tb k (k + 1) tree' table ∧
        Path tree' root (msbBits c (ls.getD k 0 - tb)) node' ∧ node' < tree'.size := by
  intro d
  induction d with
  | zero =>
    intro tree node pre ts snd hn _ hpath hfull
    have : pre = msbBits c (ls.getD k 0 - tb) := by rw [← hfull]; simp [msbBits]
    subst this
    exact ⟨tree, node, rfl, ts, snd, hpath, hn⟩
  | succ d ih =>
    intro tree node pre ts snd hn hbits hpath hfull
    have hb2 : c / 2 ^ d % 2 < 2 := Nat.mod_lt _ (by decide)
    rw [msbBits_cons] at hfull
    have hbits' : Bits (pre ++ [c / 2 ^ d % 2]) := by
      intro x hx
      rcases List.mem_append.mp hx with h | h
      · exact hbits x h
      · simp at h; omega
    have hfull' : (pre ++ [c / 2 ^ d % 2]) ++ msbBits c d = msbBits c (ls.getD k 0 - tb) := by
      rw [List.append_assoc]; exact hfull
    rw [walkInsert]
    cases hnode : tree[node]! with
    | leaf s =>
      exfalso
      obtain ⟨hs, cs, h1, h2, h3, h4⟩ := snd.leaf j root pre node s hroot hbits hpath hnode
      have := same_of_path_prefix ls hfit tb s k cs c h1 hcan h2 hl (by rw [h3, hslot]) pre _ h4 hfull.symm
      omega
    | branch off =>
      simp only
      have hin := ts.w1 node off hnode
      exact ih tree (node + off + c / 2 ^ d % 2) (pre ++ [c / 2 ^ d % 2]) ts snd (by omega) hbits'
        (path_snoc tree pre root node off _ hpath hnode) hfull'
    | empty =>
      simp only
      generalize ht1 : ((tree.setIfInBounds node (.branch (tree.size - node))).push .empty).push .empty = t1
      have hsz : t1.size = tree.size + 2 := by rw [← ht1]; simp
      have hget : ∀ i, t1[i]! = if i = node then Node.branch (tree.size - node) else tree[i]! := by
        intro i
        rw [← ht1, aget_push_empty, aget_push_empty, aget_set]
        by_cases hi : i = node
        · rw [if_pos ⟨hi, hn⟩, if_pos hi]
        · rw [if_neg (fun hh => hi hh.1), if_neg hi]
      have hk1 : Keep tree t1 := by
        intro i hi
        rw [hget, if_neg]
        intro hh; rw [hh] at hi; exact hi hnode
      -- an old-looking node of the new tree is an old node
      have hold : ∀ m, m ≠ node → t1[m]! ≠ Node.empty → m < tree.size ∧ tree[m]! = t1[m]! := by
        intro m hm hne
        rw [hget, if_neg hm] at hne ⊢
        refine ⟨?_, rfl⟩
        rcases Nat.lt_or_ge m tree.size with h | h
        · exact h
        · exact absurd (aget_oob tree m h) hne
      have ts1 : TS t1 table := by
        refine { w1 := ?_, up := ?_, rnp := ?_, rd := ts.rd, rlt := fun j' r' h => by have := ts.rlt j' r' h; omega }
        · intro i off hi
          rw [hget] at hi
          by_cases hin : i = node
          · rw [if_pos hin] at hi
            injection hi with hi
            rw [hsz, hin, ← hi]; omega
          · rw [if_neg hin] at hi
            have := ts.w1 i off hi
            rw [hsz]; omega
        · intro i i' off off' bb bb' hi hi' hbb hbb' heq
          rw [hget] at hi hi'
          by_cases h1 : i = node
          · rw [if_pos h1] at hi
            injection hi with hi
            by_cases h2 : i' = node
            · rw [if_pos h2] at hi'
              injection hi' with hi'
              omega
            · rw [if_neg h2] at hi'
              have := ts.w1 i' off' hi'
              omega
          · rw [if_neg h1] at hi
            by_cases h2 : i' = node
            · rw [if_pos h2] at hi'
              injection hi' with hi'
              have := ts.w1 i off hi
              omega
            · rw [if_neg h2] at hi'
              exact ts.up i i' off off' bb bb' hi hi' hbb hbb' heq
        · intro j' r' i off bb hr hi hbb
          rw [hget] at hi
          have hrl := ts.rlt j' r' hr
          by_cases h1 : i = node
          · rw [if_pos h1] at hi
            injection hi with hi
            omega
          · rw [if_neg h1] at hi
            exact ts.rnp j' r' i off bb hr hi hbb
      have snd1 : Snd ls tb k (k + 1) t1 table := by
        refine { leaf := ?_, branch := ?_, used := snd.used }
        · intro j' r' p m s hr hb hp hm
          have hmn : m ≠ node := by
            intro h; rw [h, hget, if_pos rfl] at hm; cases hm
          obtain ⟨o1, o2⟩ := hold m hmn (by rw [hm]; exact fun h => by cases h)
          exact snd.leaf j' r' p m s hr hb (path_old tree t1 node hget hn p r' m hp o1) (by rw [o2, hm])
        · intro j' r' p m off hr hb hp hm
          by_cases hmn : m = node
          · subst hmn
            have hp0 := path_old tree t1 m hget hn p r' m hp hn
            obtain ⟨e1, e2⟩ := path_unique tree table ts p pre j' j r' root m hb hbits hr hroot hp0 hpath
            subst e1 e2
            exact ⟨k, c, (c / 2 ^ d % 2) :: msbBits c d, by omega, hcan, hl, hslot, by simp, hfull.symm⟩
          · obtain ⟨o1, o2⟩ := hold m hmn (by rw [hm]; exact fun h => by cases h)
            exact snd.branch j' r' p m off hr hb (path_old tree t1 node hget hn p r' m hp o1) (by rw [o2, hm])
      have hchild : Path t1 root (pre ++ [c / 2 ^ d % 2]) (node + (tree.size - node) + c / 2 ^ d % 2) :=
        path_snoc t1 pre root node _ _ (path_keep hk1 _ _ _ hpath) (by rw [hget, if_pos rfl])
      exact ih t1 _ (pre ++ [c / 2 ^ d % 2]) ts1 snd1 (by rw [hsz]; omega) hbits' hchild hfull'

/-! ### one symbol -/

theorem snd_mono (ls : List Nat) (tb kl kb kl' kb' : Nat) (tree : Array Node) (table : Array Nat) (h1 : kl ≤ kl') (h2 : kb ≤ kb')
    (snd : Snd ls tb kl kb tree table) : Snd ls tb kl' kb' tree table := by
  refine { leaf := ?_, branch := ?_, used := ?_ }
  · intro j r p m s hr hb hp hm
    obtain ⟨a, b⟩ := snd.leaf j r p m s hr hb hp hm
    exact ⟨by omega, b⟩
  · intro j r p m off hr hb hp hm
    obtain ⟨s, c, q, a, b⟩ := snd.branch j r p m off hr hb hp hm
    exact ⟨s, c, q, by omega, b⟩
  · intro j r hr
    obtain ⟨s, c, a, b⟩ := snd.used j r hr
    exact ⟨s, c, by omega, b⟩

theorem ts_congr (tree : Array Node) (table table' : Array Nat) (h : ∀ j, rootOf table' j = rootOf table j)
    (ts : TS tree table) : TS tree table' :=
  { w1 := ts.w1, up := ts.up,
    rnp := fun j r i off b hr => ts.rnp j r i off b (by rw [← h]; exact hr),
    rd := fun j j' r hr hr' => ts.rd j j' r (by rw [← h]; exact hr) (by rw [← h]; exact hr'),
    rlt := fun j r hr => ts.rlt j r (by rw [← h]; exact hr) }

theorem snd_congr (ls : List Nat) (tb kl kb : Nat) (tree : Array Node) (table table' : Array Nat)
    (h : ∀ j, rootOf table' j = rootOf table j) (snd : Snd ls tb kl kb tree table) : Snd ls tb kl kb tree table' :=
  { leaf := fun j r p m s hr => snd.leaf j r p m s (by rw [← h]; exact hr),
    branch := fun j r p m off hr => snd.branch j r p m off (by rw [← h]; exact hr),
    used := fun j r hr => snd.used j r (by rw [← h]; exact hr) }

theorem path_push (tree : Array Node) : ∀ (p : List Nat) (n m : Nat), Path (tree.push Node.empty) n p m ↔ Path tree n p m := by
  intro p
  induction p with
  | nil => intro n m; exact Iff.rfl
  | cons b bs ih =>
    intro n m
    constructor
    · rintro ⟨off, h1, h2⟩
      rw [aget_push_empty] at h1
      exact ⟨off, h1, (ih _ _).mp h2⟩
    · rintro ⟨off, h1, h2⟩
      exact ⟨off, by rw [aget_push_empty]; exact h1, (ih _ _).mpr h2⟩

theorem rootOf_set (table : Array Nat) (idx v : Nat) (hidx : idx < table.size) (hv0 : v ≠ 0) (hv : v < 65536) (j : Nat) :
    rootOf (table.setIfInBounds idx v) j = if j = idx then some (v - 1) else rootOf table j := by
  unfold rootOf
  have e : (table.setIfInBounds idx v)[j]! = if j = idx then v else table[j]! := by
    rw [aget_set]
    by_cases h : j = idx
    · rw [if_pos ⟨h, hidx⟩, if_pos h]
    · rw [if_neg (fun hh => h hh.1), if_neg h]
  rw [e]
  by_cases h : j = idx
  · simp only [h, if_true]
    rw [if_pos ⟨hv0, hv⟩]
  · simp only [h, if_false]

/-- the final write of a long symbol: `Empty → Leaf` keeps the structure -/
theorem ts_leaf (tree : Array Node) (table : Array Nat) (e s : Nat) (ts : TS tree table) :
    TS (tree.setIfInBounds e (Node.leaf s)) table := by
  have hb : ∀ i off : Nat, (tree.setIfInBounds e (Node.leaf s))[i]! = Node.branch off → tree[i]! = Node.branch off := by
    intro i off h
    rw [aget_set] at h
    by_cases hc : i = e ∧ e < tree.size
    · rw [if_pos hc] at h; cases h
    · rw [if_neg hc] at h; exact h
  refine { w1 := ?_, up := ?_, rnp := ?_, rd := ts.rd, rlt := fun j r h => by rw [Array.size_setIfInBounds]; exact ts.rlt j r h }
  · intro i off h
    rw [Array.size_setIfInBounds]; exact ts.w1 i off (hb i off h)
  · intro i i' off off' b b' h h'
    exact ts.up i i' off off' b b' (hb i off h) (hb i' off' h')
  · intro j r i off b hr h
    exact ts.rnp j r i off b hr (hb i off h)

/-- a long symbol, from the root of its slot: the depth loop succeeds, ends on an `Empty` node,
    and writing the leaf keeps every invariant -/
theorem long_total (ls : List Nat) (hfit : ∀ s c, canonicalCode ls s = some c → c < 2 ^ ls.getD s 0)
    (tb k c j root : Nat) (tree0 : Array Node) (table0 : Array Nat)
    (hcan : canonicalCode ls k = some c) (hl : tb < ls.getD k 0)
    (hslot : reverseBits c (ls.getD k 0) % 2 ^ tb = j) (hroot : rootOf table0 j = some root)
    (ts : TS tree0 table0) (snd : Snd ls tb k (k + 1) tree0 table0) :
    ∃ tree1 node1, walkInsert c (ls.getD k 0 - tb) tree0 root = some (tree1, node1) ∧ tree1[node1]! = Node.empty ∧
      TS (tree1.setIfInBounds node1 (Node.leaf k)) table0 ∧
      Snd ls tb (k + 1) (k + 1) (tree1.setIfInBounds node1 (Node.leaf k)) table0 := by
  obtain ⟨tree1, node1, hw, ts1, snd1, hp1, hn1⟩ := walk_total ls hfit tb k c j root table0 hcan hl hslot hroot
    (ls.getD k 0 - tb) tree0 root [] ts snd (ts.rlt j root hroot) (fun b hb => by cases hb) rfl (by simp)
  have hbits : Bits (msbBits c (ls.getD k 0 - tb)) := by
    intro b hb
    unfold msbBits at hb
    obtain ⟨i, _, rfl⟩ := List.mem_map.mp hb
    exact Nat.mod_lt _ (by decide)
  have hempty : tree1[node1]! = Node.empty := by
    cases hnode : tree1[node1]! with
    | empty => rfl
    | leaf s =>
      exfalso
      obtain ⟨hs, cs, h1, h2, h3, h4⟩ := snd1.leaf j root _ node1 s hroot hbits hp1 hnode
      have := same_of_path_prefix ls hfit tb s k cs c h1 hcan h2 hl (by rw [h3, hslot]) _ [] h4 (by simp)
      omega
    | branch off =>
      exfalso
      obtain ⟨s, cs, q, hs, h1, h2, h3, h4, h5⟩ := snd1.branch j root _ node1 off hroot hbits hp1 hnode
      have hks := same_of_path_prefix ls hfit tb k s c cs hcan h1 hl h2 (by rw [h3, hslot]) _ q rfl h5
      subst hks
      rw [hcan] at h1; injection h1 with h1; subst h1
      have : (msbBits c (ls.getD k 0 - tb)).length = (msbBits c (ls.getD k 0 - tb) ++ q).length := by rw [← h5]
      rw [List.length_append] at this
      have hq : q.length = 0 := by omega
      exact h4 (List.eq_nil_of_length_eq_zero hq)
  refine ⟨tree1, node1, hw, hempty, ts_leaf tree1 table0 node1 k ts1, ?_⟩
  refine { leaf := ?_, branch := ?_, used := snd1.used }
  · intro j' r' p m s hr hb hp hm
    have hp' := path_old_leaf tree1 node1 k p r' m hp
    rw [aget_set] at hm
    by_cases hc : m = node1 ∧ node1 < tree1.size
    · rw [if_pos hc] at hm
      injection hm with hm; subst hm
      obtain ⟨rfl, _⟩ := hc
      obtain ⟨e1, e2⟩ := path_unique tree1 table0 ts1 p _ j' j r' root m hb hbits hr hroot hp' hp1
      subst e1 e2
      exact ⟨by omega, c, hcan, hl, hslot, rfl⟩
    · rw [if_neg hc] at hm
      obtain ⟨a, b⟩ := snd1.leaf j' r' p m s hr hb hp' hm
      exact ⟨by omega, b⟩
  · intro j' r' p m off hr hb hp hm
    have hp' := path_old_leaf tree1 node1 k p r' m hp
    rw [aget_set] at hm
    by_cases hc : m = node1 ∧ node1 < tree1.size
    · rw [if_pos hc] at hm; cases hm
    · rw [if_neg hc] at hm
      exact snd1.branch j' r' p m off hr hb hp' hm

/-- **one iteration of the symbol loop never fails** and keeps the soundness invariants -/
theorem step_total (ls : List Nat) (L tb mask k : Nat) (st : St) (ctx : Ctx ls L tb mask) (hk : k < ls.length)
    (hn : ls.length ≤ 5000) (inv : Inv ls L tb k st) (ts : TS st.tree st.table) (snd : Snd ls tb k k st.tree st.table) :
    ∃ st', insertSym tb mask st k (ls.getD k 0) = some st' ∧ TS st'.tree st'.table ∧
      Snd ls tb (k + 1) (k + 1) st'.tree st'.table := by
  unfold insertSym
  by_cases h0 : ls.getD k 0 = 0
  · rw [if_pos h0]
    exact ⟨st, rfl, ts, snd_mono ls tb k k _ _ _ _ (by omega) (by omega) snd⟩
  · rw [if_neg h0]
    obtain ⟨c, hc, hcan, hfit, hcw, hrl, hlL⟩ := code_at ls L tb mask k st ctx hk h0 inv
    by_cases hs : ls.getD k 0 ≤ tb
    · simp only [hs, if_true]
      refine ⟨_, rfl, ?_⟩
      simp only
      rw [hc, hcw]
      -- the fill loop writes entries only: no slot that holds a root is touched
      have hroots : ∀ j, rootOf (fillTable st.table (ls.getD k 0 * 65536 + k) (2 ^ ls.getD k 0) st.table.size
          (reverseBits c (ls.getD k 0))) j = rootOf st.table j := by
        intro j
        obtain ⟨_, hf⟩ := fillTable_spec (ls.getD k 0 * 65536 + k) (2 ^ ls.getD k 0) (reverseBits c (ls.getD k 0))
          (Nat.two_pow_pos _) hrl st.table.size (reverseBits c (ls.getD k 0)) st.table (Nat.mod_eq_of_lt hrl)
        unfold rootOf
        rw [hf j]
        by_cases hcond : reverseBits c (ls.getD k 0) ≤ j ∧ j % 2 ^ ls.getD k 0 = reverseBits c (ls.getD k 0) ∧ j < st.table.size ∧
            j < reverseBits c (ls.getD k 0) + st.table.size * 2 ^ ls.getD k 0
        · rw [if_pos hcond]
          have h65 : 65536 ≤ ls.getD k 0 * 65536 := Nat.le_mul_of_pos_left _ (by omega)
          rw [if_neg (by omega)]
          -- the old value was not a root either
          by_cases hold : st.table[j]! ≠ 0 ∧ st.table[j]! < 65536
          · exfalso
            have hr : rootOf st.table j = some (st.table[j]! - 1) := by unfold rootOf; rw [if_pos hold]
            obtain ⟨s, cs, s1, s2, s3, s4⟩ := snd.used j _ hr
            have := pf_index ls ctx.hfit s k cs c s2 hcan (by omega) (by
              rw [← hcond.2.1, ← s4, mod_mod_pow _ _ _ hs])
            omega
          · rw [if_neg hold]
        · rw [if_neg hcond]
      exact ⟨ts_congr st.tree st.table _ hroots ts,
        snd_congr ls tb (k + 1) (k + 1) st.tree st.table _ hroots (snd_mono ls tb k k _ _ _ _ (by omega) (by omega) snd)⟩
    · simp only [hs, if_false]
      have hidxlt : reverseBits c (ls.getD k 0) % 2 ^ tb < st.table.size := by
        rw [inv.hsize]; exact Nat.mod_lt _ (Nat.two_pow_pos _)
      rw [hc, hcw, ctx.hmask]
      have hbound := inv.hbound
      by_cases htv : st.table[reverseBits c (ls.getD k 0) % 2 ^ tb]! = 0
      · simp only [htv, if_true]
        -- a fresh root
        have hnone : rootOf st.table (reverseBits c (ls.getD k 0) % 2 ^ tb) = none := by
          unfold rootOf; rw [htv]; simp
        have hro : ∀ j, rootOf (st.table.setIfInBounds (reverseBits c (ls.getD k 0) % 2 ^ tb) (st.tree.size + 1)) j =
            if j = reverseBits c (ls.getD k 0) % 2 ^ tb then some st.tree.size else rootOf st.table j := by
          intro j
          rw [rootOf_set _ _ _ hidxlt (by omega) (by omega), Nat.add_sub_cancel]
        have ts0 : TS (st.tree.push Node.empty) (st.table.setIfInBounds (reverseBits c (ls.getD k 0) % 2 ^ tb) (st.tree.size + 1)) := by
          refine { w1 := ?_, up := ?_, rnp := ?_, rd := ?_, rlt := ?_ }
          · intro i off hi
            rw [aget_push_empty] at hi
            have := ts.w1 i off hi
            rw [Array.size_push]; omega
          · intro i i' off off' b b' hi hi'
            rw [aget_push_empty] at hi hi'
            exact ts.up i i' off off' b b' hi hi'
          · intro j r i off b hr hi hb
            rw [aget_push_empty] at hi
            rw [hro] at hr
            by_cases hj : j = reverseBits c (ls.getD k 0) % 2 ^ tb
            · rw [if_pos hj] at hr; injection hr with hr
              have := ts.w1 i off hi
              omega
            · rw [if_neg hj] at hr
              exact ts.rnp j r i off b hr hi hb
          · intro j j' r hr hr'
            rw [hro] at hr hr'
            by_cases hj : j = reverseBits c (ls.getD k 0) % 2 ^ tb
            · rw [if_pos hj] at hr; injection hr with hr
              by_cases hj' : j' = reverseBits c (ls.getD k 0) % 2 ^ tb
              · rw [hj, hj']
              · rw [if_neg hj'] at hr'
                have := ts.rlt j' r hr'
                omega
            · rw [if_neg hj] at hr
              by_cases hj' : j' = reverseBits c (ls.getD k 0) % 2 ^ tb
              · rw [if_pos hj'] at hr'; injection hr' with hr'
                have := ts.rlt j r hr
                omega
              · rw [if_neg hj'] at hr'
                exact ts.rd j j' r hr hr'
          · intro j r hr
            rw [hro] at hr
            rw [Array.size_push]
            by_cases hj : j = reverseBits c (ls.getD k 0) % 2 ^ tb
            · rw [if_pos hj] at hr; injection hr with hr; omega
            · rw [if_neg hj] at hr
              have := ts.rlt j r hr
              omega
        have snd0 : Snd ls tb k (k + 1) (st.tree.push Node.empty)
            (st.table.setIfInBounds (reverseBits c (ls.getD k 0) % 2 ^ tb) (st.tree.size + 1)) := by
          have hfresh : (st.tree.push Node.empty)[st.tree.size]! = Node.empty := by
            rw [aget_push_empty, aget_oob _ _ (Nat.le_refl _)]
          refine { leaf := ?_, branch := ?_, used := ?_ }
          · intro j r p m s hr hb hp hm
            rw [hro] at hr
            by_cases hj : j = reverseBits c (ls.getD k 0) % 2 ^ tb
            · rw [if_pos hj] at hr; injection hr with hr; subst hr
              exfalso
              cases p with
              | nil => have : st.tree.size = m := hp
                       subst this; rw [hfresh] at hm; cases hm
              | cons b bs => obtain ⟨off, g1, _⟩ := hp
                             rw [hfresh] at g1; cases g1
            · rw [if_neg hj] at hr
              rw [aget_push_empty] at hm
              exact snd.leaf j r p m s hr hb ((path_push _ _ _ _).mp hp) hm
          · intro j r p m off hr hb hp hm
            rw [hro] at hr
            by_cases hj : j = reverseBits c (ls.getD k 0) % 2 ^ tb
            · rw [if_pos hj] at hr; injection hr with hr; subst hr
              exfalso
              cases p with
              | nil => have : st.tree.size = m := hp
                       subst this; rw [hfresh] at hm; cases hm
              | cons b bs => obtain ⟨off', g1, _⟩ := hp
                             rw [hfresh] at g1; cases g1
            · rw [if_neg hj] at hr
              rw [aget_push_empty] at hm
              obtain ⟨s, cs, q, a, b⟩ := snd.branch j r p m off hr hb ((path_push _ _ _ _).mp hp) hm
              exact ⟨s, cs, q, by omega, b⟩
          · intro j r hr
            rw [hro] at hr
            by_cases hj : j = reverseBits c (ls.getD k 0) % 2 ^ tb
            · exact ⟨k, c, by omega, hcan, by omega, hj.symm⟩
            · rw [if_neg hj] at hr
              obtain ⟨s, cs, a, b⟩ := snd.used j r hr
              exact ⟨s, cs, by omega, b⟩
        obtain ⟨tree1, node1, hw, hempty, ts2, snd2⟩ := long_total ls ctx.hfit tb k c _ st.tree.size _ _ hcan (by omega) rfl
          (by rw [hro, if_pos rfl]) ts0 snd0
        rw [hw]
        simp only
        rw [hempty]
        exact ⟨_, rfl, ts2, snd2⟩
      · simp only [htv, if_false]
        rcases inv.hts _ (Nat.mod_lt (reverseBits c (ls.getD k 0)) (Nat.two_pow_pos tb)) with hz | ⟨s, cs, s1, s2, s3, s4, _⟩ | ⟨root, r1, r2⟩
        · exact absurd hz htv
        · exfalso
          rw [mod_mod_pow _ _ _ s3] at s4
          have := pf_index ls ctx.hfit k s c cs hcan s2 (by omega) s4
          omega
        · rw [r1, Nat.add_sub_cancel]
          have hroot : rootOf st.table (reverseBits c (ls.getD k 0) % 2 ^ tb) = some root := by
            unfold rootOf
            rw [r1, if_pos ⟨by omega, by omega⟩, Nat.add_sub_cancel]
          obtain ⟨tree1, node1, hw, hempty, ts2, snd2⟩ := long_total ls ctx.hfit tb k c _ root _ _ hcan (by omega) rfl hroot ts
            (snd_mono ls tb k k _ _ _ _ (Nat.le_refl _) (by omega) snd)
          rw [hw]
          simp only
          rw [hempty]
          exact ⟨_, rfl, ts2, snd2⟩

/-! ### the whole loop, the whole builder -/

theorem insertAll_total (ls : List Nat) (L tb mask : Nat) (ctx : Ctx ls L tb mask) (hn : ls.length ≤ 5000) (st0 : St)
    (inv0 : Inv ls L tb 0 st0) (ts0 : TS st0.tree st0.table) (snd0 : Snd ls tb 0 0 st0.tree st0.table) :
    ∀ k, k ≤ ls.length → ∃ st, insertAll tb mask ls k st0 = some st ∧ Inv ls L tb k st ∧ TS st.tree st.table ∧
      Snd ls tb k k st.tree st.table := by
  intro k
  induction k with
  | zero => intro _; exact ⟨st0, rfl, inv0, ts0, snd0⟩
  | succ k ih =>
    intro hk
    obtain ⟨st, h1, h2, h3, h4⟩ := ih (by omega)
    obtain ⟨st', g1, g2, g3⟩ := step_total ls L tb mask k st ctx (by omega) hn h2 h3 h4
    refine ⟨st', ?_, step ls L tb mask k st st' ctx (by omega) h2 g1, g2, g3⟩
    rw [insertAll, h1]
    exact g1

theorem blockEnd_above (ls : List Nat) (L : Nat) (hall : ∀ l ∈ ls, l ≤ L) : ∀ d, blockEnd ls (L + d) = blockEnd ls L * 2 ^ d := by
  intro d
  induction d with
  | zero => simp
  | succ d ih =>
    have e : blockEnd ls (L + (d + 1)) = nextCode ls (L + d + 1) + (if L + d + 1 = 0 then 0 else blCount ls (L + d + 1)) := rfl
    rw [e, if_neg (by omega), blCount_zero_above ls L _ hall (by omega), nextCode_succ, ih, Nat.add_zero, Nat.pow_succ, Nat.mul_assoc]

theorem rootOf_replicate (n j : Nat) : rootOf (Array.replicate n 0) j = none := by
  unfold rootOf
  have : (Array.replicate n 0)[j]! = 0 := by
    rw [Array.getElem!_eq_getD, Array.getD_eq_getD_getElem?]
    by_cases h : j < n
    · simp [h]
    · simp [h]
  rw [this]; simp

/-- **Part 3: totality.**  Every valid code of the specification (lengths ≤ 15, at most 5000
    symbols) is accepted by the (model of the) builder -/
theorem build_total (ls : List Nat) (hall : ∀ l ∈ ls, l ≤ 15) (hn : ls.length ≤ 5000) (hv : validLengths ls = true) :
    (∃ t, build ls = .ok t) ∨ (∃ s, build ls = .single s) := by
  unfold validLengths at hv
  simp only [Bool.and_eq_true, Bool.or_eq_true, beq_iff_eq, decide_eq_true_eq] at hv
  obtain ⟨_, hv⟩ := hv
  rcases hv with h1 | ⟨h2, hkraft⟩
  · right
    unfold build
    simp only
    rw [if_neg (by omega), if_pos h1]
    exact ⟨_, rfl⟩
  · left
    unfold build
    simp only
    rw [if_neg (by omega), if_neg (by omega)]
    generalize hLdef : ls.foldl max 0 = L
    obtain ⟨_, hmaxall⟩ := le_foldl_max ls 0
    rw [hLdef] at hmaxall
    have hL15 : L ≤ 15 := by rw [← hLdef]; exact foldl_max_le ls 0 15 (by omega) hall
    obtain ⟨n1, n2, n3⟩ := nextCodes_spec ls L hL15
    -- completeness at 15 is completeness at the longest length
    have hend : blockEnd ls L = 2 ^ L := by
      have hall15 : ∀ l ∈ ls.toArray.toList, l ≤ 15 := fun l hl => hall l (by simpa using hl)
      have h2' : nextCode ls 16 = 2 * kraft ls 15 := by
        have := EncHuff.nc_kraft ls.toArray 15
        rw [EncHuff.nc_nextCode, EncHuff.kraftUpTo_kk, ← EncHuff.kraft_kk _ _ hall15] at this
        simpa using this
      have h1' : nextCode ls 16 = blockEnd ls 15 * 2 := rfl
      have h15 : blockEnd ls 15 = 2 ^ 15 := by omega
      have habove := blockEnd_above ls L hmaxall (15 - L)
      rw [show L + (15 - L) = 15 by omega, h15] at habove
      have hp : (2 : Nat) ^ 15 = 2 ^ L * 2 ^ (15 - L) := by rw [← Nat.pow_add]; congr 1; omega
      rw [hp] at habove
      exact (Nat.eq_of_mul_eq_mul_right (Nat.two_pow_pos _) habove).symm
    have hL1 : 1 ≤ L := by
      rcases Nat.eq_zero_or_pos L with h | h
      · subst h
        have : blockEnd ls 0 = 0 := rfl
        rw [this] at hend; simp at hend
      · exact h
    have hcur : (nextCodes ls L).2 = 2 * 2 ^ L := by
      rw [n1, nextCode_succ, hend]; omega
    rw [if_neg (by rw [hcur]; simp)]
    have ctx : Ctx ls L (min L 10) (2 ^ min L 10 - 1) :=
      { hL := hL15, hall := hmaxall, hfit := fun s c hs => code_fits ls L hend s c hs (by
          obtain ⟨s1, _, _⟩ := canonical_some ls s c hs
          exact hmaxall _ (getD_mem ls s s1)),
        hmask := by have := Nat.two_pow_pos (min L 10); omega,
        htb := Nat.min_le_right _ _,
        hlongtb := fun l hl => by
          have := hmaxall l hl
          rcases Nat.le_total L 10 with h10 | h10
          · left; rw [Nat.min_eq_left h10]; exact this
          · right; exact Nat.min_eq_right h10 }
    have inv0 : Inv ls L (min L 10) 0 { next := (nextCodes ls L).1, tree := #[], table := Array.replicate (2 ^ min L 10) 0 } := by
      refine { hnsz := n2, hnext := ?_, hsize := by simp, hw1 := ?_, hbound := by simp, hshort := ?_, hlong := ?_, hts := ?_ }
      · intro len h1 h2
        rw [n3 len h1 h2]
        have hb := blockEnd_le ls L hend len h1 h2
        have hle : nextCode ls len ≤ blockEnd ls len := by unfold blockEnd; exact Nat.le_add_right _ _
        have hp : 2 ^ len ≤ 2 ^ 15 := Nat.pow_le_pow_right (by decide) (by omega)
        have : (2 : Nat) ^ 15 = 32768 := by decide
        rw [Nat.mod_eq_of_lt (by omega)]
        simp [rank]
      · intro i off hi
        simp at hi
      · intro s c hs; omega
      · intro s c hs; omega
      · intro j hj
        left
        simp [hj]
    have ts0 : TS (#[] : Array Node) (Array.replicate (2 ^ min L 10) 0) := by
      refine { w1 := ?_, up := ?_, rnp := ?_, rd := ?_, rlt := ?_ }
      · intro i off hi; simp at hi
      · intro i i' off off' b b' hi; simp at hi
      · intro j r i off b hr; rw [rootOf_replicate] at hr; cases hr
      · intro j j' r hr; rw [rootOf_replicate] at hr; cases hr
      · intro j r hr; rw [rootOf_replicate] at hr; cases hr
    have snd0 : Snd ls (min L 10) 0 0 (#[] : Array Node) (Array.replicate (2 ^ min L 10) 0) := by
      refine { leaf := ?_, branch := ?_, used := ?_ }
      · intro j r p m s hr; rw [rootOf_replicate] at hr; cases hr
      · intro j r p m off hr; rw [rootOf_replicate] at hr; cases hr
      · intro j r hr; rw [rootOf_replicate] at hr; cases hr
    obtain ⟨st, hst, _⟩ := insertAll_total ls L (min L 10) (2 ^ min L 10 - 1) ctx hn _ inv0 ts0 snd0 ls.length (Nat.le_refl _)
    rw [hst]
    exact ⟨_, rfl⟩

end Huff
