import WebpVerif.Spec.Canvas
import Mathlib.Tactic.ByContra

namespace Anim
open Blend Canvas

theorem rowMap_size (c : Array Px) (base n : Nat) (f : Nat → Px → Px) : (rowMap c base n f).size = c.size := by
  unfold rowMap
  induction n with
  | zero => simp
  | succ n ih => rw [List.range_succ, List.foldl_append]; simp [ih]

/-- element `j` after mapping a run of `n` pixels starting at `base` -/
theorem rowMap_get (c : Array Px) (base n : Nat) (f : Nat → Px → Px) (j : Nat) :
    (rowMap c base n f)[j]? = if base ≤ j ∧ j < base + n then (c[j]?).map (f (j - base)) else c[j]? := by
  unfold rowMap
  induction n with
  | zero =>
    simp only [List.range_zero, List.foldl_nil]
    rw [if_neg (by omega)]
  | succ n ih =>
    rw [List.range_succ, List.foldl_append]
    simp only [List.foldl_cons, List.foldl_nil]
    rw [Array.getElem?_modify, ih]
    by_cases h1 : base + n = j
    · subst h1
      rw [if_pos rfl, if_neg (by omega), if_pos (by omega)]
      have : base + n - base = n := by omega
      rw [this]
    · rw [if_neg h1]
      by_cases h2 : base ≤ j ∧ j < base + n
      · rw [if_pos h2, if_pos (by omega)]
      · rw [if_neg h2, if_neg (by omega)]

theorem rectMap_size (c : Array Px) (cw : Nat) (r : Rect) (f : Nat → Nat → Px → Px) :
    (rectMap c cw r f).size = c.size := by
  unfold rectMap
  induction r.h with
  | zero => simp
  | succ n ih => rw [List.range_succ, List.foldl_append]; simp [ih, rowMap_size]

/-- 2-D → 1-D: a flat index `y*cw + x` (with `x < cw`) lies in the run of row `r` from column
    `px` of length `pw` (inside the canvas width) iff it is in that row and column range -/
theorem row_mem (cw x y r px pw : Nat) (hx : x < cw) (hp : px + pw ≤ cw) :
    (r * cw + px ≤ y * cw + x ∧ y * cw + x < r * cw + px + pw) ↔ (y = r ∧ px ≤ x ∧ x < px + pw) := by
  constructor
  · intro ⟨h1, h2⟩
    have hy : y = r := by
      rcases Nat.lt_trichotomy y r with hlt | heq | hgt
      · have : (y + 1) * cw ≤ r * cw := Nat.mul_le_mul_right cw hlt
        rw [Nat.add_mul, Nat.one_mul] at this
        omega
      · exact heq
      · have : (r + 1) * cw ≤ y * cw := Nat.mul_le_mul_right cw hgt
        rw [Nat.add_mul, Nat.one_mul] at this
        omega
    subst hy; omega
  · rintro ⟨rfl, h1, h2⟩; omega

/-- pixel `(x, y)` after mapping a rectangle that fits in the canvas width -/
theorem rectMap_get (c : Array Px) (cw : Nat) (r : Rect) (f : Nat → Nat → Px → Px)
    (hr : r.x + r.w ≤ cw) (x y : Nat) (hx : x < cw) :
    (rectMap c cw r f)[y * cw + x]? =
      if inRect r x y then (c[y * cw + x]?).map (f (x - r.x) (y - r.y)) else c[y * cw + x]? := by
  unfold rectMap
  have key : ∀ n, ((List.range n).foldl (fun c y => rowMap c ((r.y + y) * cw + r.x) r.w (fun x => f x y)) c)[y * cw + x]? =
      if r.x ≤ x ∧ x < r.x + r.w ∧ r.y ≤ y ∧ y < r.y + n then (c[y * cw + x]?).map (f (x - r.x) (y - r.y)) else c[y * cw + x]? := by
    intro n
    induction n with
    | zero =>
      simp only [List.range_zero, List.foldl_nil]
      rw [if_neg (by omega)]
    | succ n ih =>
      rw [List.range_succ, List.foldl_append]
      simp only [List.foldl_cons, List.foldl_nil]
      rw [rowMap_get, ih]
      have hm := row_mem cw x y (r.y + n) r.x r.w hx hr
      by_cases hrow : y = r.y + n ∧ r.x ≤ x ∧ x < r.x + r.w
      · have h1 : (r.y + n) * cw + r.x ≤ y * cw + x ∧ y * cw + x < (r.y + n) * cw + r.x + r.w := hm.mpr hrow
        have h2 : ¬ (r.x ≤ x ∧ x < r.x + r.w ∧ r.y ≤ y ∧ y < r.y + n) := by omega
        have h3 : r.x ≤ x ∧ x < r.x + r.w ∧ r.y ≤ y ∧ y < r.y + (n + 1) := by omega
        have e1 : y * cw + x - ((r.y + n) * cw + r.x) = x - r.x := by
          obtain ⟨rfl, _, _⟩ := hrow; omega
        have e2 : y - r.y = n := by omega
        rw [if_pos h1, if_neg h2, if_pos h3, e1, e2]
      · have h1 : ¬ ((r.y + n) * cw + r.x ≤ y * cw + x ∧ y * cw + x < (r.y + n) * cw + r.x + r.w) := fun h => hrow (hm.mp h)
        rw [if_neg h1]
        by_cases h2 : r.x ≤ x ∧ x < r.x + r.w ∧ r.y ≤ y ∧ y < r.y + n
        · rw [if_pos h2, if_pos (by omega)]
        · have h3 : ¬ (r.x ≤ x ∧ x < r.x + r.w ∧ r.y ≤ y ∧ y < r.y + (n + 1)) := by
            intro ⟨a, b, c', d⟩
            by_cases hy : y = r.y + n
            · exact hrow ⟨hy, a, b⟩
            · exact h2 ⟨a, b, c', by omega⟩
          rw [if_neg h2, if_neg h3]
  rw [key r.h]
  unfold inRect
  by_cases h : r.x ≤ x ∧ x < r.x + r.w ∧ r.y ≤ y ∧ y < r.y + r.h
  · obtain ⟨a, b, c', d⟩ := h
    simp [a, b, c', d]
  · have : (decide (r.x ≤ x) && decide (x < r.x + r.w) && decide (r.y ≤ y) && decide (y < r.y + r.h)) = false := by
      simp only [Bool.and_eq_false_iff, decide_eq_false_iff_not]
      omega
    simp [h, this]

end Anim

namespace Anim
open Blend Canvas

theorem flat_lt (cw ch x y : Nat) (hx : x < cw) (hy : y < ch) : y * cw + x < cw * ch := by
  have : (y + 1) * cw ≤ ch * cw := Nat.mul_le_mul_right cw hy
  rw [Nat.add_mul, Nat.one_mul, Nat.mul_comm ch cw] at this
  omega

theorem inside_iff (r : Rect) (cw ch : Nat) : r.inside cw ch = true ↔ r.x + r.w ≤ cw ∧ r.y + r.h ≤ ch := by
  unfold Rect.inside; simp

/-- the frame as `stepPx` wants it -/
def asFrame (frame : Array Px) (fr : Rect) (hasAlpha useBlend : Bool) : Frame :=
  { rect := fr, duration := 0, useBlend := useBlend, dispose := false, hasAlpha := hasAlpha, pixels := frame }

/-- second stage of `composite_frame`: drawing the frame on a canvas whose pixels are known -/
theorem draw_stage (c1 : Array Px) (cw ch : Nat) (frame : Array Px) (fr : Rect) (hasAlpha useBlend : Bool)
    (hfx : fr.x + fr.w ≤ cw) (hsize : c1.size = cw * ch) (base : Nat → Nat → Px)
    (hget : ∀ x y, x < cw → y < ch → c1[y * cw + x]? = some (base x y)) :
    ∃ c', (if (hasAlpha && useBlend) = true then
              some (rectMap c1 cw fr (fun x y old => blendPixel (framePx frame fr.w true x y) old))
            else some (rectMap c1 cw fr (fun x y _ => framePx frame fr.w hasAlpha x y))) = some c' ∧
      c'.size = cw * ch ∧
      ∀ x y, x < cw → y < ch → c'[y * cw + x]? = some (
        if inRect fr x y then
          (if hasAlpha && useBlend then blendPixel (framePx frame fr.w hasAlpha (x - fr.x) (y - fr.y)) (base x y)
           else framePx frame fr.w hasAlpha (x - fr.x) (y - fr.y))
        else base x y) := by
  by_cases hbl : (hasAlpha && useBlend) = true
  · rw [if_pos hbl]
    refine ⟨_, rfl, by rw [rectMap_size, hsize], ?_⟩
    intro x y hx hy
    rw [rectMap_get _ _ _ _ hfx x y hx, hget x y hx hy]
    simp only [Bool.and_eq_true] at hbl
    obtain ⟨ha, hb⟩ := hbl
    by_cases hin : inRect fr x y = true <;> simp [hin, ha, hb]
  · rw [if_neg hbl]
    refine ⟨_, rfl, by rw [rectMap_size, hsize], ?_⟩
    intro x y hx hy
    rw [rectMap_get _ _ _ _ hfx x y hx, hget x y hx hy]
    have hbl' : (hasAlpha && useBlend) = false := by simpa using hbl
    by_cases hin : inRect fr x y = true <;> simp [hin, hbl']

/-- **One compositing step, per pixel.**  For every canvas size, every frame and previous
    rectangle inside the canvas, all flag combinations and all pixel contents, `composite_frame`
    (a) does not index out of bounds (it returns a canvas), (b) keeps the canvas size, and
    (c) leaves in every pixel exactly what the specification's `stepPx` says: the previous
    rectangle — and only it — restored to the clear colour when one is given, then the frame
    drawn by overwrite or by per-pixel blend. -/
theorem compositeFrame_spec (canvas : Array Px) (cw ch : Nat) (clear : Option Px)
    (frame : Array Px) (fr : Rect) (hasAlpha useBlend : Bool) (prev : Rect)
    (hfr : fr.inside cw ch = true) (hprev : prev.inside cw ch = true)
    (hc : canvas.size = cw * ch) (hf : frame.size = fr.w * fr.h) :
    ∃ c', compositeFrame canvas cw ch clear frame fr hasAlpha useBlend prev = some c' ∧
      c'.size = cw * ch ∧
      ∀ x y, x < cw → y < ch →
        c'[y * cw + x]? = some (stepPx blendPixel (clear.getD ⟨0, 0, 0, 0⟩) clear.isSome prev
          (asFrame frame fr hasAlpha useBlend) (canvas.getD (y * cw + x) ⟨0, 0, 0, 0⟩) x y) := by
  obtain ⟨hfx, hfy⟩ := (inside_iff fr cw ch).mp hfr
  obtain ⟨hpx, hpy⟩ := (inside_iff prev cw ch).mp hprev
  have hguard : (!(fr.inside cw ch && prev.inside cw ch && canvas.size == cw * ch && frame.size == fr.w * fr.h)) = false := by
    simp [hfr, hprev, hc, hf]
  have hget : ∀ x y, x < cw → y < ch → canvas[y * cw + x]? = some (canvas.getD (y * cw + x) ⟨0, 0, 0, 0⟩) := by
    intro x y hx hy
    have hlt : y * cw + x < canvas.size := by rw [hc]; exact flat_lt cw ch x y hx hy
    simp [Array.getD, hlt]
  unfold compositeFrame
  rw [hguard]
  simp only [Bool.false_eq_true, if_false]
  by_cases hfull : (fr.x == 0 && fr.y == 0 && fr.w == cw && fr.h == ch && !useBlend) = true
  · rw [if_pos hfull]
    refine ⟨_, rfl, by rw [rectMap_size, hc], ?_⟩
    intro x y hx hy
    rw [rectMap_get _ _ _ _ hfx x y hx, hget x y hx hy]
    simp only [Bool.and_eq_true, beq_iff_eq, Bool.not_eq_eq_eq_not, Bool.not_true] at hfull
    obtain ⟨⟨⟨⟨h0, h1⟩, h2⟩, h3⟩, h4⟩ := hfull
    have hin : inRect fr x y = true := by
      unfold inRect; simp only [Bool.and_eq_true, decide_eq_true_eq]; omega
    unfold stepPx asFrame
    simp only [hin, if_true, h4, Bool.and_false, Bool.false_eq_true, if_false, Option.map_some]
  · rw [if_neg hfull]
    cases clear with
    | none =>
      obtain ⟨c', h1, h2, h3⟩ := draw_stage canvas cw ch frame fr hasAlpha useBlend hfx hc
        (fun x y => canvas.getD (y * cw + x) ⟨0, 0, 0, 0⟩) hget
      refine ⟨c', h1, h2, ?_⟩
      intro x y hx hy
      rw [h3 x y hx hy]
      unfold stepPx asFrame
      simp
    | some color =>
      have hget1 : ∀ x y, x < cw → y < ch → (rectMap canvas cw prev (fun _ _ _ => color))[y * cw + x]? =
          some (if inRect prev x y then color else canvas.getD (y * cw + x) ⟨0, 0, 0, 0⟩) := by
        intro x y hx hy
        rw [rectMap_get _ _ _ _ hpx x y hx, hget x y hx hy]
        by_cases hin : inRect prev x y = true <;> simp [hin]
      obtain ⟨c', h1, h2, h3⟩ := draw_stage (rectMap canvas cw prev (fun _ _ _ => color)) cw ch frame fr
        hasAlpha useBlend hfx (by rw [rectMap_size, hc]) _ hget1
      refine ⟨c', h1, h2, ?_⟩
      intro x y hx hy
      rw [h3 x y hx hy]
      unfold stepPx asFrame
      simp

end Anim

namespace Anim
open Blend Canvas

/-- history after `k` frames, latest first -/
def hist (f : File) (k : Nat) : List Frame := (f.frames.take k).reverse

theorem hist_succ (f : File) (k : Nat) (fr : Frame) (h : f.frames[k]? = some fr) :
    hist f (k + 1) = fr :: hist f k := by
  unfold hist
  rw [List.take_succ, h]
  simp

/-- the model state after `k` delivered frames, characterised per pixel -/
def StateAt (f : File) (k : Nat) (st : State) : Prop :=
  st.nextFrame = k ∧
  (k = 0 → st.canvas = none ∧ st.disposeNext = true ∧ st.prev = ⟨0, 0, 0, 0⟩) ∧
  (0 < k → ∃ c last, st.canvas = some c ∧ c.size = f.cw * f.ch ∧
      f.frames[k - 1]? = some last ∧ st.prev = last.rect ∧ st.disposeNext = last.dispose ∧
      ∀ x y, x < f.cw → y < f.ch → c[y * f.cw + x]? = some (canvasPx blendPixel f.bg (hist f k) x y))

theorem stateAt_default (f : File) : StateAt f 0 State.default := by
  refine ⟨rfl, fun _ => ⟨rfl, rfl, rfl⟩, fun h => by omega⟩

theorem inRect_zero (x y : Nat) : inRect ⟨0, 0, 0, 0⟩ x y = false := by
  unfold inRect; simp

def FrameOk (f : File) (fr : Frame) : Prop :=
  fr.rect.inside f.cw f.ch = true ∧ fr.rect.w ≤ 16384 ∧ fr.rect.h ≤ 16384 ∧ fr.pixels.size = fr.rect.w * fr.rect.h

/-- **One `read_frame` call** from the state after `k` frames, `k < n`: it succeeds, returns
    frame `k`'s duration, and leaves the state after `k + 1` frames, whose canvas is the
    specification's fold, pixel by pixel. -/
theorem readFrame_step (f : File) (k : Nat) (st : State) (fr : Frame)
    (hst : StateAt f k st) (hfr : f.frames[k]? = some fr) (hok : ∀ g ∈ f.frames, FrameOk f g) :
    ∃ c, readFrame f st = (.frame fr.duration (render f.hasAlpha c),
        { nextFrame := k + 1, disposeNext := fr.dispose, prev := fr.rect, canvas := some c }) ∧
      StateAt f (k + 1) { nextFrame := k + 1, disposeNext := fr.dispose, prev := fr.rect, canvas := some c } := by
  obtain ⟨hn, h0, hpos⟩ := hst
  have hklt : k < f.frames.length := by
    by_contra hge; simp [Nat.not_lt.mp hge] at hfr
  obtain ⟨hin, hw, hh, hpx⟩ := hok fr (List.mem_of_getElem? hfr)
  obtain ⟨hix, hiy⟩ := (inside_iff fr.rect f.cw f.ch).mp hin
  -- the canvas and previous rectangle the call starts from, per pixel
  have hstart : ∃ c0 : Array Px, startCanvas f st = c0 ∧
      c0.size = f.cw * f.ch ∧ st.prev.inside f.cw f.ch = true ∧
      (∀ x y, x < f.cw → y < f.ch → c0.getD (y * f.cw + x) ⟨0, 0, 0, 0⟩ = canvasPx blendPixel f.bg (hist f k) x y) ∧
      (∀ old x y, stepPx blendPixel ((clearOf f st).getD ⟨0, 0, 0, 0⟩)
          (clearOf f st).isSome st.prev fr old x y =
        stepPx blendPixel f.bg (match hist f k with | [] => false | p :: _ => p.dispose)
          (match hist f k with | [] => ⟨0, 0, 0, 0⟩ | p :: _ => p.rect) fr old x y) := by
    by_cases hk : k = 0
    · obtain ⟨hc, hd, hp⟩ := h0 hk
      subst hk
      refine ⟨Array.replicate (f.cw * f.ch) f.bg, by unfold startCanvas; rw [hc], by simp, by rw [hp]; simp [Rect.inside], ?_, ?_⟩
      · intro x y hx hy
        have hlt := flat_lt f.cw f.ch x y hx hy
        simp [hist, canvasPx, Array.getD, hlt]
      · intro old x y
        unfold clearOf
        rw [hd, hp]
        simp [hist, stepPx, inRect_zero]
    · obtain ⟨c, last, hc, hsz, hlast, hprev, hdisp, hget⟩ := hpos (by omega)
      obtain ⟨hlin, _, _, _⟩ := hok last (List.mem_of_getElem? hlast)
      have hh : hist f k = last :: hist f (k - 1) := by
        have := hist_succ f (k - 1) last hlast
        rwa [Nat.sub_add_cancel (by omega)] at this
      refine ⟨c, by unfold startCanvas; rw [hc], hsz, by rw [hprev]; exact hlin, ?_, ?_⟩
      · intro x y hx hy
        have := hget x y hx hy
        have hlt : y * f.cw + x < c.size := by rw [hsz]; exact flat_lt f.cw f.ch x y hx hy
        simp only [Array.getD, hlt, dif_pos]
        simp only [hlt, getElem?_pos, Option.some.injEq] at this
        exact this
      · intro old x y
        unfold clearOf
        rw [hh, hprev, hdisp]
        cases hd : last.dispose <;> simp [stepPx, hd]
  obtain ⟨c0, hc0, hc0size, hprevin, hc0get, hstepeq⟩ := hstart
  obtain ⟨c', hcomp, hc'size, hc'get⟩ := compositeFrame_spec c0 f.cw f.ch (clearOf f st)
    fr.pixels fr.rect fr.hasAlpha fr.useBlend st.prev hin hprevin hc0size hpx
  refine ⟨c', ?_, ?_⟩
  · unfold readFrame
    rw [hn, if_neg (by omega), hfr]
    simp only
    rw [if_neg (by simp; omega), if_neg (by simp; omega), hc0, hcomp]
  · refine ⟨rfl, fun h => by omega, fun _ => ⟨c', fr, rfl, hc'size, by simpa using hfr, rfl, rfl, ?_⟩⟩
    intro x y hx hy
    rw [hc'get x y hx hy, hist_succ f k fr hfr, hc0get x y hx hy]
    have hframe : asFrame fr.pixels fr.rect fr.hasAlpha fr.useBlend =
        { fr with duration := 0, dispose := false } := rfl
    have hsame : ∀ (bg : Px) (d : Bool) (p : Rect) (old : Px),
        stepPx blendPixel bg d p (asFrame fr.pixels fr.rect fr.hasAlpha fr.useBlend) old x y =
        stepPx blendPixel bg d p fr old x y := by
      intro bg d p old; unfold stepPx asFrame; rfl
    rw [hsame, hstepeq]
    unfold canvasPx
    cases hist f k <;> rfl

end Anim

namespace Anim
open Blend Canvas

/-- a canvas known pixel by pixel renders to the specification's buffer -/
theorem render_eq (ha : Bool) (c : Array Px) (cw ch : Nat) (hcw : 0 < cw) (hsz : c.size = cw * ch)
    (g : Nat → Nat → Px) (hget : ∀ x y, x < cw → y < ch → c[y * cw + x]? = some (g x y)) :
    render ha c = (List.range (cw * ch)).flatMap fun i =>
      (if ha then [(g (i % cw) (i / cw)).r, (g (i % cw) (i / cw)).g, (g (i % cw) (i / cw)).b, (g (i % cw) (i / cw)).a]
       else [(g (i % cw) (i / cw)).r, (g (i % cw) (i / cw)).g, (g (i % cw) (i / cw)).b]) := by
  have hl : c.toList = (List.range (cw * ch)).map fun i => g (i % cw) (i / cw) := by
    apply List.ext_getElem?
    intro i
    by_cases hi : i < cw * ch
    · have hx : i % cw < cw := Nat.mod_lt _ hcw
      have hy : i / cw < ch := by
        rw [Nat.div_lt_iff_lt_mul hcw, Nat.mul_comm]; exact hi
      have hidx : i / cw * cw + i % cw = i := by rw [Nat.mul_comm]; exact Nat.div_add_mod i cw
      have := hget (i % cw) (i / cw) hx hy
      rw [hidx] at this
      simp only [Array.getElem?_toList, this, List.getElem?_map, List.getElem?_range hi, Option.map_some]
    · have h1 : c.toList[i]? = none := by
        simp only [Array.getElem?_toList]; rw [Array.getElem?_eq_none]; omega
      have h2 : ((List.range (cw * ch)).map fun i => g (i % cw) (i / cw))[i]? = none := by
        rw [List.getElem?_eq_none]; simp; omega
      rw [h1, h2]
  unfold render
  rw [hl, List.flatMap_map]

end Anim
