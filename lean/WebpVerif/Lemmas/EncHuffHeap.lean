import WebpVerif.Lemmas.EncHuffTree

/-!
The binary heap of `build_huffman_tree` (std's `BinaryHeap`, transcribed in `Model/EncHuff.lean`)
keeps the heap order: `rebuild` establishes it, `pop` and the `PeekMut` replacement preserve it,
and the top is a minimum of the frequencies.
-/
namespace EncHuff

def fq (h : Heap) (i : Nat) : Nat := h[i]!.freq

theorem fq_swap (h : Heap) (i j k : Nat) (hi : i < h.size) (hj : j < h.size) :
    fq (h.swapIfInBounds i j) k = if k = i then fq h j else if k = j then fq h i else fq h k := by
  unfold fq
  rw [Array.swapIfInBounds_def, dif_pos hi, dif_pos hj]
  rw [Array.getElem!_eq_getD, Array.getD_eq_getD_getElem?, Array.getElem?_swap]
  by_cases h1 : k = i
  · subst h1
    by_cases h2 : j = k
    · subst h2; simp [hi]
    · rw [if_neg h2, if_pos rfl, if_pos rfl]
      simp [hj]
  · by_cases h2 : k = j
    · subst h2
      rw [if_pos rfl, if_neg h1, if_pos rfl]
      simp [hi]
    · rw [if_neg (fun e => h2 e.symm), if_neg (fun e => h1 e.symm), if_neg h1, if_neg h2,
        Array.getElem!_eq_getD, Array.getD_eq_getD_getElem?]

/-- every node from `s` on is at most its children (indices below `n`) -/
@[reducible] def HeapFrom (h : Heap) (n s : Nat) : Prop :=
  ∀ j, j < n → 1 ≤ j → s ≤ (j - 1) / 2 → fq h ((j - 1) / 2) ≤ fq h j

/-- heap order from `s` on except at the links from `pos` to its children; the parent of `pos` is
    at most the children of `pos` -/
structure DownBad (h : Heap) (n s pos : Nat) : Prop where
  link : ∀ j, j < n → 1 ≤ j → s ≤ (j - 1) / 2 → (j - 1) / 2 ≠ pos → fq h ((j - 1) / 2) ≤ fq h j
  grand : ∀ j, j < n → 1 ≤ j → (j - 1) / 2 = pos → 1 ≤ pos → s ≤ (pos - 1) / 2 → fq h ((pos - 1) / 2) ≤ fq h j

theorem siftDown_heap (n s : Nat) : ∀ (fuel pos : Nat) (h : Heap), h.size = n → s ≤ pos → n ≤ pos + fuel →
    DownBad h n s pos → HeapFrom (siftDownRange h pos n fuel) n s ∧ (siftDownRange h pos n fuel).size = n := by
  intro fuel
  induction fuel with
  | zero =>
    intro pos h hsz _ hf db
    refine ⟨fun j hj h1 hs => ?_, hsz⟩
    exact db.link j hj h1 hs (by omega)
  | succ fuel ih =>
    intro pos h hsz hsp hf db
    rw [siftDownRange]
    simp only
    by_cases h2 : 2 * pos + 1 + 2 ≤ n
    · rw [if_pos h2]
      -- the child with the smaller frequency
      generalize hc : (if le h[2 * pos + 1]! h[2 * pos + 1 + 1]! then 2 * pos + 1 + 1 else 2 * pos + 1) = c
      have hcc : (c = 2 * pos + 1 ∨ c = 2 * pos + 2) ∧ fq h c ≤ fq h (2 * pos + 1) ∧ fq h c ≤ fq h (2 * pos + 2) := by
        by_cases hle : le h[2 * pos + 1]! h[2 * pos + 1 + 1]! = true
        · rw [if_pos hle] at hc
          have : fq h (2 * pos + 2) ≤ fq h (2 * pos + 1) := by simpa [le, fq] using hle
          subst hc
          exact ⟨Or.inr rfl, this, Nat.le_refl _⟩
        · rw [if_neg hle] at hc
          have : ¬ fq h (2 * pos + 2) ≤ fq h (2 * pos + 1) := by simpa [le, fq] using hle
          subst hc
          exact ⟨Or.inl rfl, Nat.le_refl _, by omega⟩
      obtain ⟨hcs, hc1, hc2⟩ := hcc
      by_cases hstop : le h[c]! h[pos]! = true
      · rw [if_pos hstop]
        have hst : fq h pos ≤ fq h c := by simpa [le, fq] using hstop
        refine ⟨fun j hj h1 hs => ?_, hsz⟩
        by_cases hp : (j - 1) / 2 = pos
        · rw [hp]
          have : j = 2 * pos + 1 ∨ j = 2 * pos + 2 := by omega
          rcases this with rfl | rfl <;> omega
        · exact db.link j hj h1 hs hp
      · rw [if_neg hstop]
        have hst : fq h c < fq h pos := by
          have : ¬ fq h pos ≤ fq h c := by simpa [le, fq] using hstop
          omega
        have hcn : c < n := by omega
        have hpn : pos < n := by omega
        have hsw := fq_swap h pos c
        obtain ⟨i1, i2⟩ := ih c (h.swapIfInBounds pos c) (by rw [Array.size_swapIfInBounds]; exact hsz) (by omega) (by omega) (by
          refine { link := ?_, grand := ?_ }
          · intro j hj h1 hs hp
            rw [hsw _ (by omega) (by omega), hsw _ (by omega) (by omega)]
            by_cases hpp : (j - 1) / 2 = pos
            · -- j is a child of pos
              rw [if_pos hpp]
              have hj' : j = 2 * pos + 1 ∨ j = 2 * pos + 2 := by omega
              by_cases hjc : j = c
              · rw [if_neg (by omega), if_pos hjc]; omega
              · rw [if_neg (by omega), if_neg hjc]
                rcases hj' with rfl | rfl <;> rcases hcs with rfl | rfl <;> omega
            · rw [if_neg hpp, if_neg hp]
              by_cases hjp : j = pos
              · rw [if_pos hjp]
                have := db.grand c hcn (by omega) (by omega) (by omega) (by omega)
                rw [hjp]; exact this
              · rw [if_neg hjp, if_neg (by omega)]
                exact db.link j hj h1 hs hpp
          · intro j hj h1 hp _ _
            rw [hsw _ (by omega) (by omega), hsw _ (by omega) (by omega)]
            have hcp : (c - 1) / 2 = pos := by omega
            rw [hcp, if_pos rfl, if_neg (by omega), if_neg (by omega)]
            have := db.link j hj h1 (by omega) (by omega)
            rw [hp] at this
            exact this)
        exact ⟨i1, i2⟩
    · rw [if_neg h2]
      by_cases h1c : 2 * pos + 1 + 1 = n ∧ lt h[pos]! h[2 * pos + 1]! = true
      · rw [if_pos h1c]
        have hlt : fq h (2 * pos + 1) < fq h pos := by simpa [lt, fq] using h1c.2
        have hsw := fq_swap h pos (2 * pos + 1)
        refine ⟨fun j hj h1 hs => ?_, by rw [Array.size_swapIfInBounds]; exact hsz⟩
        rw [hsw _ (by omega) (by omega), hsw _ (by omega) (by omega)]
        by_cases hpp : (j - 1) / 2 = pos
        · have : j = 2 * pos + 1 := by omega
          rw [if_pos hpp, if_neg (by omega), if_pos this]; omega
        · rw [if_neg hpp, if_neg (by omega)]
          by_cases hjp : j = pos
          · rw [if_pos hjp]
            have := db.grand (2 * pos + 1) (by omega) (by omega) (by omega) (by omega) (by omega)
            rw [hjp]; exact this
          · rw [if_neg hjp, if_neg (by omega)]
            exact db.link j hj h1 hs hpp
      · rw [if_neg h1c]
        refine ⟨fun j hj h1 hs => ?_, hsz⟩
        by_cases hpp : (j - 1) / 2 = pos
        · have hj' : j = 2 * pos + 1 := by omega
          have hnl : ¬ fq h (2 * pos + 1) < fq h pos := by
            intro hh
            apply h1c
            exact ⟨by omega, by simpa [lt, fq] using hh⟩
          rw [hpp, hj']; omega
        · exact db.link j hj h1 hs hpp

/-! ### `sift_down_to_bottom` = descend to a leaf, then sift up -/

/-- heap order except at the links that touch `pos`; the parent of `pos` is at most its children -/
structure BadAt (h : Heap) (n pos : Nat) : Prop where
  link : ∀ j, j < n → 1 ≤ j → j ≠ pos → (j - 1) / 2 ≠ pos → fq h ((j - 1) / 2) ≤ fq h j
  grand : ∀ j, j < n → 1 ≤ j → (j - 1) / 2 = pos → 1 ≤ pos → fq h ((pos - 1) / 2) ≤ fq h j

theorem descend_spec (n : Nat) : ∀ (fuel pos : Nat) (h : Heap), h.size = n → pos < n → n ≤ pos + fuel → BadAt h n pos →
    BadAt (descend h pos n fuel).1 n (descend h pos n fuel).2 ∧ (descend h pos n fuel).1.size = n ∧
    (descend h pos n fuel).2 < n ∧ n ≤ 2 * (descend h pos n fuel).2 + 1 := by
  intro fuel
  induction fuel with
  | zero => intro pos h hsz hp hf bad; omega
  | succ fuel ih =>
    intro pos h hsz hp hf bad
    rw [descend]
    simp only
    by_cases h2 : 2 * pos + 1 + 2 ≤ n
    · rw [if_pos h2]
      generalize hc : (if le h[2 * pos + 1]! h[2 * pos + 1 + 1]! then 2 * pos + 1 + 1 else 2 * pos + 1) = c
      have hcc : (c = 2 * pos + 1 ∨ c = 2 * pos + 2) ∧ fq h c ≤ fq h (2 * pos + 1) ∧ fq h c ≤ fq h (2 * pos + 2) := by
        by_cases hle : le h[2 * pos + 1]! h[2 * pos + 1 + 1]! = true
        · rw [if_pos hle] at hc
          have : fq h (2 * pos + 2) ≤ fq h (2 * pos + 1) := by simpa [le, fq] using hle
          subst hc
          exact ⟨Or.inr rfl, this, Nat.le_refl _⟩
        · rw [if_neg hle] at hc
          have : ¬ fq h (2 * pos + 2) ≤ fq h (2 * pos + 1) := by simpa [le, fq] using hle
          subst hc
          exact ⟨Or.inl rfl, Nat.le_refl _, by omega⟩
      obtain ⟨hcs, hc1, hc2⟩ := hcc
      have hsw := fq_swap h pos c
      apply ih c (h.swapIfInBounds pos c) (by rw [Array.size_swapIfInBounds]; exact hsz) (by omega) (by omega)
      refine { link := ?_, grand := ?_ }
      · intro j hj h1 hjc hpc
        rw [hsw _ (by omega) (by omega), hsw _ (by omega) (by omega)]
        by_cases hpp : (j - 1) / 2 = pos
        · -- the other child of pos
          rw [if_pos hpp, if_neg (by omega), if_neg hjc]
          have hj' : j = 2 * pos + 1 ∨ j = 2 * pos + 2 := by omega
          rcases hj' with rfl | rfl <;> rcases hcs with rfl | rfl <;> omega
        · rw [if_neg hpp, if_neg hpc]
          by_cases hjp : j = pos
          · rw [if_pos hjp]
            have := bad.grand c (by omega) (by omega) (by omega) (by omega)
            rw [hjp]; exact this
          · rw [if_neg hjp, if_neg hjc]
            exact bad.link j hj h1 hjp hpp
      · intro j hj h1 hp' _
        rw [hsw _ (by omega) (by omega), hsw _ (by omega) (by omega)]
        have hcp : (c - 1) / 2 = pos := by omega
        rw [hcp, if_pos rfl, if_neg (by omega), if_neg (by omega)]
        have := bad.link j hj h1 (by omega) (by omega)
        rw [hp'] at this
        exact this
    · rw [if_neg h2]
      by_cases h1c : 2 * pos + 1 + 1 = n
      · rw [if_pos h1c]
        simp only
        have hsw := fq_swap h pos (2 * pos + 1)
        refine ⟨?_, by rw [Array.size_swapIfInBounds]; exact hsz, by omega, by omega⟩
        refine { link := ?_, grand := fun j hj h1 hp' _ => by omega }
        intro j hj h1 hjc hpc
        rw [hsw _ (by omega) (by omega), hsw _ (by omega) (by omega)]
        have hpp : (j - 1) / 2 ≠ pos := by omega
        rw [if_neg hpp, if_neg hpc]
        by_cases hjp : j = pos
        · rw [if_pos hjp]
          have := bad.grand (2 * pos + 1) (by omega) (by omega) (by omega) (by omega)
          rw [hjp]; exact this
        · rw [if_neg hjp, if_neg hjc]
          exact bad.link j hj h1 hjp hpp
      · rw [if_neg h1c]
        exact ⟨bad, hsz, hp, by omega⟩

/-- heap order except at the link from `pos` to its parent; the parent of `pos` is at most the
    children of `pos` -/
structure UpBad (h : Heap) (n pos : Nat) : Prop where
  link : ∀ j, j < n → 1 ≤ j → j ≠ pos → fq h ((j - 1) / 2) ≤ fq h j
  grand : ∀ j, j < n → 1 ≤ j → (j - 1) / 2 = pos → 1 ≤ pos → fq h ((pos - 1) / 2) ≤ fq h j

theorem siftUp_spec (n : Nat) : ∀ (fuel pos : Nat) (h : Heap), h.size = n → pos < n → pos ≤ fuel → UpBad h n pos →
    HeapFrom (siftUp h 0 pos fuel) n 0 ∧ (siftUp h 0 pos fuel).size = n := by
  intro fuel
  induction fuel with
  | zero =>
    intro pos h hsz hp hf ub
    refine ⟨fun j hj h1 _ => ub.link j hj h1 (by omega), hsz⟩
  | succ fuel ih =>
    intro pos h hsz hp hf ub
    rw [siftUp]
    by_cases hgt : pos > 0
    · rw [if_pos hgt]
      simp only
      by_cases hstop : le h[pos]! h[(pos - 1) / 2]! = true
      · rw [if_pos hstop]
        have hst : fq h ((pos - 1) / 2) ≤ fq h pos := by simpa [le, fq] using hstop
        refine ⟨fun j hj h1 _ => ?_, hsz⟩
        by_cases hjp : j = pos
        · rw [hjp]; exact hst
        · exact ub.link j hj h1 hjp
      · rw [if_neg hstop]
        have hst : fq h pos < fq h ((pos - 1) / 2) := by
          have : ¬ fq h ((pos - 1) / 2) ≤ fq h pos := by simpa [le, fq] using hstop
          omega
        have hsw := fq_swap h pos ((pos - 1) / 2)
        apply ih ((pos - 1) / 2) (h.swapIfInBounds pos ((pos - 1) / 2)) (by rw [Array.size_swapIfInBounds]; exact hsz)
          (by omega) (by omega)
        refine { link := ?_, grand := ?_ }
        · intro j hj h1 hjp
          rw [hsw _ (by omega) (by omega), hsw _ (by omega) (by omega)]
          by_cases hj1 : j = pos
          · -- pos now holds the old parent value; its parent holds the old pos value
            rw [if_pos hj1, hj1, if_neg (by omega), if_pos rfl]; omega
          · rw [if_neg hj1, if_neg hjp]
            by_cases hpp : (j - 1) / 2 = pos
            · -- a child of pos: above it now the old parent value
              rw [if_pos hpp]
              exact ub.grand j hj h1 hpp (by omega)
            · rw [if_neg hpp]
              by_cases hpq : (j - 1) / 2 = (pos - 1) / 2
              · -- the sibling of pos: above it now the old pos value
                rw [if_pos hpq]
                have := ub.link j hj h1 hj1
                rw [hpq] at this
                omega
              · rw [if_neg hpq]
                exact ub.link j hj h1 hj1
        · intro j hj h1 hp' hq
          rw [hsw _ (by omega) (by omega), hsw _ (by omega) (by omega)]
          -- j is pos or its sibling; the grandparent is untouched
          have hgp : ((pos - 1) / 2 - 1) / 2 ≠ pos ∧ ((pos - 1) / 2 - 1) / 2 ≠ (pos - 1) / 2 := by omega
          rw [if_neg hgp.1, if_neg hgp.2]
          have hpl := ub.link ((pos - 1) / 2) (by omega) (by omega) (by omega)
          by_cases hj1 : j = pos
          · rw [if_pos hj1]; exact hpl
          · rw [if_neg hj1, if_neg (by omega)]
            have := ub.link j hj h1 hj1
            rw [hp'] at this
            omega
    · rw [if_neg hgt]
      have : pos = 0 := by omega
      refine ⟨fun j hj h1 _ => ub.link j hj h1 (by omega), hsz⟩

/-! ### the heap operations -/

@[reducible] def MinHeap (h : Heap) : Prop := HeapFrom h h.size 0

theorem root_min (h : Heap) (mh : MinHeap h) : ∀ j, j < h.size → fq h 0 ≤ fq h j := by
  intro j
  induction j using Nat.strong_induction_on with
  | _ j ih =>
    intro hj
    by_cases h0 : j = 0
    · subst h0; exact Nat.le_refl _
    · have h1 := mh j hj (by omega) (Nat.zero_le _)
      have h2 := ih ((j - 1) / 2) (by omega) (by omega)
      omega

theorem fq_set0 (h : Heap) (it : Item) (hs : 0 < h.size) (k : Nat) :
    fq (h.set! 0 it) k = if k = 0 then it.freq else fq h k := by
  unfold fq
  rw [Array.set!_eq_setIfInBounds, Array.getElem!_eq_getD, Array.getD_eq_getD_getElem?, Array.getElem?_setIfInBounds]
  by_cases hk : k = 0
  · subst hk; simp [hs]
  · rw [if_neg (fun e => hk e.symm), if_neg hk, Array.getElem!_eq_getD, Array.getD_eq_getD_getElem?]

theorem siftDownToBottom_heap (h : Heap) (hs : 0 < h.size) (bad : BadAt h h.size 0) :
    MinHeap (siftDownToBottom h) ∧ (siftDownToBottom h).size = h.size := by
  unfold siftDownToBottom
  obtain ⟨d1, d2, d3, d4⟩ := descend_spec h.size h.size 0 h rfl hs (by omega) bad
  generalize descend h 0 h.size h.size = r at d1 d2 d3 d4
  obtain ⟨h', p'⟩ := r
  simp only at d1 d2 d3 d4 ⊢
  have ub : UpBad h' h.size p' :=
    { link := fun j hj h1 hjp => d1.link j hj h1 hjp (by omega),
      grand := fun j hj h1 hp' _ => by omega }
  obtain ⟨u1, u2⟩ := siftUp_spec h.size h.size p' h' d2 d3 (by omega) ub
  exact ⟨by unfold MinHeap; rw [u2]; exact u1, u2⟩

theorem replaceTop_heap (h : Heap) (it : Item) (hs : 0 < h.size) (mh : MinHeap h) :
    MinHeap (replaceTop h it) ∧ (replaceTop h it).size = h.size := by
  unfold replaceTop
  simp only
  have hsz : (h.set! 0 it).size = h.size := by rw [Array.set!_eq_setIfInBounds, Array.size_setIfInBounds]
  have db : DownBad (h.set! 0 it) h.size 0 0 :=
    { link := fun j hj h1 _ hp => by
        rw [fq_set0 h it hs, fq_set0 h it hs, if_neg hp, if_neg (by omega)]
        exact mh j hj h1 (Nat.zero_le _),
      grand := fun j hj h1 hp h0 => by omega }
  obtain ⟨i1, i2⟩ := siftDown_heap h.size 0 (h.set! 0 it).size 0 (h.set! 0 it) hsz (Nat.le_refl _) (by omega) db
  rw [hsz] at i1 i2 ⊢
  exact ⟨by unfold MinHeap; rw [i2]; exact i1, i2⟩

theorem rebuild_heap (h : Heap) : MinHeap (rebuild h) ∧ (rebuild h).size = h.size := by
  unfold rebuild
  -- fold over n = size/2 - 1 … 0
  have key : ∀ (m : Nat) (g : Heap), g.size = h.size → HeapFrom g h.size m →
      HeapFrom ((List.range m).reverse.foldl (fun h' n => siftDownRange h' n h'.size h'.size) g) h.size 0 ∧
      ((List.range m).reverse.foldl (fun h' n => siftDownRange h' n h'.size h'.size) g).size = h.size := by
    intro m
    induction m with
    | zero => intro g hg hf; exact ⟨hf, hg⟩
    | succ m ih =>
      intro g hg hf
      rw [List.range_succ, List.reverse_append, List.reverse_singleton, List.singleton_append, List.foldl_cons]
      have db : DownBad g h.size m m :=
        { link := fun j hj h1 hs hp => hf j hj h1 (by omega),
          grand := fun j hj h1 hp h0 hs => by omega }
      obtain ⟨i1, i2⟩ := siftDown_heap h.size m h.size m g hg (Nat.le_refl _) (by omega) db
      rw [hg]
      exact ih _ i2 i1
  obtain ⟨k1, k2⟩ := key (h.size / 2) h rfl (fun j hj h1 hs => by omega)
  exact ⟨by unfold MinHeap; rw [k2]; exact k1, k2⟩

theorem fq_pop (h : Heap) (k : Nat) (hk : k < h.size - 1) : fq h.pop k = fq h k := by
  unfold fq
  rw [Array.getElem!_eq_getD, Array.getD_eq_getD_getElem?, Array.getElem?_pop, if_pos hk,
    Array.getElem!_eq_getD, Array.getD_eq_getD_getElem?]

/-- `pop` returns an item of minimal frequency and leaves a heap -/
theorem pop_heap (h : Heap) (a : Item) (h' : Heap) (mh : MinHeap h) (hp : pop h = some (a, h')) :
    MinHeap h' ∧ (∀ j, j < h.size → a.freq ≤ fq h j) := by
  unfold pop at hp
  by_cases h0 : h.size = 0
  · rw [if_pos h0] at hp; cases hp
  · rw [if_neg h0] at hp
    simp only at hp
    have hpsz : h.pop.size = h.size - 1 := Array.size_pop
    by_cases hr : h.pop.size = 0
    · rw [if_pos hr] at hp
      obtain ⟨rfl, rfl⟩ := Prod.mk.inj (Option.some.inj hp)
      refine ⟨fun j hj => by omega, fun j hj => ?_⟩
      have : j = 0 := by omega
      subst this
      have : h.size - 1 = 0 := by omega
      rw [this]; exact Nat.le_refl _
    · rw [if_neg hr] at hp
      obtain ⟨rfl, rfl⟩ := Prod.mk.inj (Option.some.inj hp)
      have hs' : 0 < h.pop.size := by omega
      have hsz : (h.pop.set! 0 h[h.size - 1]!).size = h.pop.size := by
        rw [Array.set!_eq_setIfInBounds, Array.size_setIfInBounds]
      have bad : BadAt (h.pop.set! 0 h[h.size - 1]!) (h.pop.set! 0 h[h.size - 1]!).size 0 :=
        { link := fun j hj h1 hj0 hp0 => by
            rw [hsz, hpsz] at hj
            rw [fq_set0 _ _ hs', fq_set0 _ _ hs', if_neg hp0, if_neg hj0, fq_pop h _ (by omega), fq_pop h _ hj]
            exact mh j (by omega) h1 (Nat.zero_le _),
          grand := fun j hj h1 hp h0 => by omega }
      obtain ⟨m1, _⟩ := siftDownToBottom_heap _ (by rw [hsz]; exact hs') bad
      refine ⟨m1, fun j hj => ?_⟩
      have : h.pop[0]!.freq = fq h 0 := by
        have := fq_pop h 0 (by omega)
        unfold fq at this ⊢
        exact this
      rw [this]
      exact root_min h mh j hj

end EncHuff
