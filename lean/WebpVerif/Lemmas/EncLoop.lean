import WebpVerif.Lemmas.LLoop

/-!
The encoder's token stream (a pixel, then the length of the run of identical pixels after it),
read as the operations the decoder's symbols decode to (a literal, then a backward reference
with distance 1), is decoded by the pixel loop of `decode_image_data` to exactly the expanded
pixel sequence.  Links `Enc.tokenize` (C04) with `LLoop.decode` (C01).
-/
namespace EncLoop
open LLoop

/-- tokens `(pixel, run)` as decoder operations -/
def opsOf : List (Nat × Nat) → List Op
  | [] => []
  | (v, run) :: rest => .lit v :: (if run = 0 then opsOf rest else .back run 1 :: opsOf rest)

/-- the pixel sequence the tokens stand for -/
def expandV : List (Nat × Nat) → List Nat
  | [] => []
  | (v, run) :: rest => v :: (List.replicate run v ++ expandV rest)

/-- the configuration the encoder produces: one group, no meta image, no colour cache -/
def cfgEnc (w h : Nat) : Cfg :=
  { width := w, height := h, bits := 0, mask := 0, xsize := 0, image := #[], single := #[none], cacheBits := 0 }

theorem insert_nocache (c : Cfg) (h0 : c.cacheBits = 0) (cache : Array Nat) (v : Nat) : LLoop.insert c cache v = cache := by
  unfold LLoop.insert; rw [if_pos h0]

theorem specCopy_nocache (c : Cfg) (h0 : c.cacheBits = 0) (d cache : Array Nat) (index dist : Nat) :
    ∀ len, (specCopy c d cache index dist len).2 = cache := by
  intro len
  induction len with
  | zero => rfl
  | succ len ih =>
    show LLoop.insert c (specCopy c d cache index dist len).2 _ = cache
    rw [insert_nocache c h0, ih]

theorem getD_cons_run (v run : Nat) (l : List Nat) (k : Nat) :
    (v :: (List.replicate run v ++ l)).getD k 0 = if k ≤ run then v else l.getD (k - 1 - run) 0 := by
  rw [List.getD_eq_getElem?_getD]
  cases k with
  | zero => simp
  | succ k =>
    rw [List.getElem?_cons_succ]
    by_cases hk : k < run
    · rw [List.getElem?_append_left (by rw [List.length_replicate]; exact hk), if_pos (by omega)]
      simp [List.getElem?_replicate, hk]
    · rw [List.getElem?_append_right (by rw [List.length_replicate]; omega), if_neg (by omega), List.length_replicate,
        List.getD_eq_getElem?_getD]
      congr 2

/-- the specification decoder on the operations of a token list: the pixels before `index` are
    kept, the rest is the expansion of the tokens -/
theorem specRun_tokens (c : Cfg) (h0 : c.cacheBits = 0) (cache : Array Nat) :
    ∀ (toks : List (Nat × Nat)) (d : Array Nat) (index : Nat), d.size = c.width * c.height →
      index + (expandV toks).length = c.width * c.height →
      ∃ r, specRun c (opsOf toks) d index cache = .ok r ∧ r.size = c.width * c.height ∧
        ∀ p, p < c.width * c.height → r[p]! = if p < index then d[p]! else (expandV toks).getD (p - index) 0 := by
  intro toks
  induction toks with
  | nil =>
    intro d index hd hlen
    simp only [expandV, List.length_nil, Nat.add_zero] at hlen
    refine ⟨d, ?_, hd, fun p hp => by rw [if_pos (by omega)]⟩
    rw [opsOf, specRun, if_neg (by omega)]
  | cons t rest ih =>
    obtain ⟨v, run⟩ := t
    intro d index hd hlen
    simp only [expandV, List.length_cons, List.length_append, List.length_replicate] at hlen
    have hlt : index < c.width * c.height := by omega
    rw [opsOf, specRun_cons c _ _ d index cache hlt]
    simp only
    rw [insert_nocache c h0]
    have hd1 : (d.setIfInBounds index v).size = c.width * c.height := by rw [Array.size_setIfInBounds, hd]
    by_cases hrun : run = 0
    · subst hrun
      rw [if_pos rfl]
      obtain ⟨r, e1, e2, e3⟩ := ih (d.setIfInBounds index v) (index + 1) hd1 (by omega)
      refine ⟨r, e1, e2, fun p hp => ?_⟩
      rw [e3 p hp, expandV, getD_cons_run]
      by_cases hp1 : p < index
      · have c1 : p < index + 1 := by omega
        rw [if_pos c1, if_pos hp1, get_set_ne _ _ _ _ (by omega)]
      · rw [if_neg hp1]
        by_cases hp2 : p = index
        · subst hp2
          have c1 : p < p + 1 := by omega
          have c2 : p - p ≤ 0 := by omega
          rw [if_pos c1, if_pos c2, get_set_self _ _ _ (by omega)]
        · have c1 : ¬ p < index + 1 := by omega
          have c2 : ¬ p - index ≤ 0 := by omega
          rw [if_neg c1, if_neg c2]
          have : p - (index + 1) = p - index - 1 - 0 := by omega
          rw [this]
    · rw [if_neg hrun]
      have hlt1 : index + 1 < c.width * c.height := by omega
      rw [specRun_cons c _ _ _ (index + 1) cache hlt1]
      simp only
      rw [if_neg (by omega), specCopy_nocache c h0, specCopy_data]
      obtain ⟨s1, s2⟩ := slowCopy_spec (d.setIfInBounds index v) (index + 1) 1 (Nat.le_refl _) (by omega) run (by omega)
      obtain ⟨r, e1, e2, e3⟩ := ih (slowCopy (d.setIfInBounds index v) (index + 1) 1 run) (index + 1 + run) (by rw [s1, hd1])
        (by omega)
      refine ⟨r, e1, e2, fun p hp => ?_⟩
      rw [e3 p hp, expandV, getD_cons_run, s2 p]
      by_cases hp1 : p < index
      · have c1 : p < index + 1 + run := by omega
        have c2 : ¬ (index + 1 ≤ p ∧ p < index + 1 + run) := by omega
        rw [if_pos c1, if_pos hp1, if_neg c2, get_set_ne _ _ _ _ (by omega)]
      · rw [if_neg hp1]
        by_cases hp2 : p = index
        · subst hp2
          have c1 : p < p + 1 + run := by omega
          have c2 : ¬ (p + 1 ≤ p ∧ p < p + 1 + run) := by omega
          have c3 : p - p ≤ run := by omega
          rw [if_pos c1, if_pos c3, if_neg c2, get_set_self _ _ _ (by omega)]
        · by_cases hp3 : p < index + 1 + run
          · have c2 : index + 1 ≤ p ∧ p < index + 1 + run := ⟨by omega, hp3⟩
            have c3 : p - index ≤ run := by omega
            rw [if_pos hp3, if_pos c2, if_pos c3]
            unfold target
            have c4 : ¬ p < index + 1 := by omega
            rw [if_neg c4, Nat.mod_one]
            have : index + 1 - 1 + 0 = index := by omega
            rw [this, get_set_self _ _ _ (by omega)]
          · have c3 : ¬ p - index ≤ run := by omega
            rw [if_neg hp3, if_neg c3]
            have : p - (index + 1 + run) = p - index - 1 - run := by omega
            rw [this]

/-- every operation list whose backward references have length and distance ≥ 1 is consistent
    with a configuration without single-symbol groups -/
def WfOp : Op → Prop
  | .back len dist => 1 ≤ len ∧ 1 ≤ dist
  | _ => True

theorem cons_of_wf (c : Cfg) (hb : c.bits = 0) (hs : c.single = #[none]) :
    ∀ fuel index nbs0 (ops : List Op), (∀ op ∈ ops, WfOp op) → cons c fuel index nbs0 ops = true := by
  intro fuel
  induction fuel with
  | zero => intro _ _ _ _; rfl
  | succ fuel ih =>
    intro index nbs0 ops hwf
    have hsingle : ∀ x y, (c.single[huffIndex c x y]?).join = none := by
      intro x y
      unfold huffIndex; rw [if_pos hb, hs]; rfl
    have hops : ∀ nbs, consOps c (cons c fuel) index nbs ops = true := by
      intro nbs
      cases ops with
      | nil => rfl
      | cons op rest =>
        have hrest : ∀ o ∈ rest, WfOp o := fun o ho => hwf o (List.mem_cons_of_mem _ ho)
        cases op with
        | lit v => exact ih _ _ _ hrest
        | cache k => exact ih _ _ _ hrest
        | back len dist =>
          have hw := hwf (.back len dist) (List.mem_cons_self)
          simp only [WfOp] at hw
          unfold consOps
          simp only [hw.1, hw.2, decide_true, Bool.true_and]
          split
          · rfl
          · exact ih _ _ _ hrest
    rw [cons]
    simp only
    split
    · split
      · rw [hsingle]; exact hops _
      · exact hops _
    · rfl

theorem opsOf_wf : ∀ (toks : List (Nat × Nat)), ∀ op ∈ opsOf toks, WfOp op := by
  intro toks
  induction toks with
  | nil => intro op h; simp [opsOf] at h
  | cons t rest ih =>
    obtain ⟨v, run⟩ := t
    intro op h
    rw [opsOf] at h
    rcases List.mem_cons.mp h with rfl | h
    · trivial
    · by_cases hrun : run = 0
      · rw [if_pos hrun] at h; exact ih op h
      · rw [if_neg hrun] at h
        rcases List.mem_cons.mp h with rfl | h
        · exact ⟨by omega, Nat.le_refl _⟩
        · exact ih op h

/-- **The pixel loop of the decoder, run on the encoder's tokens, returns the expanded pixels** -
    whatever the buffer held before. -/
theorem decode_tokens (w h : Nat) (hw : 0 < w) (toks : List (Nat × Nat)) (init : Array Nat)
    (hinit : init.size = w * h) (hlen : (expandV toks).length = w * h) :
    decode (cfgEnc w h) init (opsOf toks) = .ok (expandV toks).toArray := by
  rw [decode_refines (cfgEnc w h) (Nat.zero_le _) hw init _ hinit (cons_of_wf _ rfl rfl _ _ _ _ (opsOf_wf toks))]
  unfold specDecode
  obtain ⟨r, e1, e2, e3⟩ := specRun_tokens (cfgEnc w h) rfl (Array.replicate (if (cfgEnc w h).cacheBits = 0 then 0 else 2 ^ (cfgEnc w h).cacheBits) 0)
    toks init 0 hinit (by rw [Nat.zero_add]; exact hlen)
  rw [e1]
  congr 1
  apply arr_ext
  · rw [e2, List.size_toArray, hlen]; rfl
  · intro p hp
    rw [e2] at hp
    rw [e3 p hp, if_neg (Nat.not_lt_zero _), Nat.sub_zero]
    have hp' : p < (expandV toks).length := by rw [hlen]; exact hp
    rw [List.getD_eq_getElem?_getD, List.getElem?_eq_getElem hp']
    simp [hp']

end EncLoop
