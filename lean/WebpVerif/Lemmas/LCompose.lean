import WebpVerif.Lemmas.LPred
namespace LTrProof
open LTr LK

/-- the state of the buffer when `apply_predictor_transform` returns -/
theorem applyPredictor_final (a d : Array Nat) (w h bits : Nat) (O : Nat → Nat) (hw : 0 < w) (hh : 0 < h) (hs : a.size = 4 * (w * h))
    (hb : Bytes a) (hsol : Sol a d w bits (w * h) O) (hmode : ∀ k, d.getD (4 * k + 1) 0 < 14) :
    Inv a (w * h) O (D3 w h 1) (applyPredictor w h bits d a) := by
  have p0 := phase0 a d w h bits O hw hh hs hb hsol
  have p1 := phase1 a d w h bits O hw hh hs hb hsol _ p0
  have p2 := phase2 a d w h bits O hw hh hs hb hsol _ p1
  have p2' : Inv a (w * h) O (D3 w 1 1) _ := Inv_congr p2 (fun q hq => by
    show (q / w = 0 ∨ (q % w = 0 ∧ q / w < h)) ↔ (q / w < 1 ∨ q % w = 0 ∨ (q / w = 1 ∧ q % w < 1))
    have : q / w < h := by rw [Nat.div_lt_iff_lt_mul hw, Nat.mul_comm]; exact hq
    generalize q / w = qd at *
    generalize q % w = qm at *
    omega)
  exact rows_inv a d w h bits O hw hh hs hb hsol hmode _ p2'

theorem size_applyPredictor (a d : Array Nat) (w h bits : Nat) (hw : 0 < w) (hh : 0 < h) (hs : a.size = 4 * (w * h))
    (hb : Bytes a) (hd : Bytes d) (hd4 : d.size % 4 = 0) (hmode : ∀ k, d.getD (4 * k + 1) 0 < 14) :
    (applyPredictor w h bits d a).size = a.size :=
  (applyPredictor_final a d w h bits _ hw hh hs hb (osol_sol a d w h bits hw hs hd hd4) hmode).1

theorem bytes_applyPredictor (a d : Array Nat) (w h bits : Nat) (hw : 0 < w) (hh : 0 < h) (hs : a.size = 4 * (w * h))
    (hb : Bytes a) (hd : Bytes d) (hd4 : d.size % 4 = 0) (hmode : ∀ k, d.getD (4 * k + 1) 0 < 14) :
    Bytes (applyPredictor w h bits d a) := by
  obtain ⟨hsz, hdone, _⟩ := applyPredictor_final a d w h bits _ hw hh hs hb (osol_sol a d w h bits hw hs hd hd4) hmode
  intro j
  by_cases hj : j < 4 * (w * h)
  · have hq : j / 4 < w * h := by omega
    have := hdone (j / 4) hq (by
      show (j / 4) / w < h ∨ _
      left; rw [Nat.div_lt_iff_lt_mul hw, Nat.mul_comm]; exact hq)
    obtain ⟨i0, i1, i2, i3⟩ : (applyPredictor w h bits d a).getD (4 * (j / 4)) 0 = VP8L.ch _ 2 ∧ (applyPredictor w h bits d a).getD (4 * (j / 4) + 1) 0 = VP8L.ch _ 1 ∧
        (applyPredictor w h bits d a).getD (4 * (j / 4) + 2) 0 = VP8L.ch _ 0 ∧ (applyPredictor w h bits d a).getD (4 * (j / 4) + 3) 0 = VP8L.ch _ 3 := by
      unfold px bytesOf at this
      simp only [List.cons.injEq, and_true] at this
      exact this
    have hc : j = 4 * (j / 4) ∨ j = 4 * (j / 4) + 1 ∨ j = 4 * (j / 4) + 2 ∨ j = 4 * (j / 4) + 3 := by omega
    rcases hc with e | e | e | e <;> rw [e] <;> first | (rw [i0]; exact ch_lt _ _) | (rw [i1]; exact ch_lt _ _) | (rw [i2]; exact ch_lt _ _) | (rw [i3]; exact ch_lt _ _)
  · have : ¬ j < (applyPredictor w h bits d a).size := by rw [hsz, hs]; exact hj
    simp [Array.getD, this]

theorem bytes_applyColor (w bits : Nat) (d a : Array Nat) (hb : Bytes a) : Bytes (applyColor w bits d a) := by
  intro j
  by_cases hj : j < a.size
  · unfold applyColor
    rw [getD_ofFn _ _ _ hj]
    simp only
    split
    · unfold colorAt; simp only; split
      · omega
      · split
        · omega
        · (have := hb j; simpa [Array.getD, hj] using this)
    · (have := hb j; simpa [Array.getD, hj] using this)
  · have : ¬ j < (applyColor w bits d a).size := by rw [size_applyColor]; exact hj
    simp [Array.getD, this]

theorem bytes_applySubGreen (a : Array Nat) (hb : Bytes a) : Bytes (applySubGreen a) := by
  intro j
  by_cases hj : j < a.size
  · rw [getD_applySubGreen _ _ hj]
    unfold subGreenAt addGreen
    split
    · omega
    · (have := hb j; simpa [Array.getD, hj] using this)
  · have : ¬ j < (applySubGreen a).size := by rw [size_applySubGreen]; exact hj
    simp [Array.getD, this]


/-! ### any sequence of the three transforms -/

inductive TB where
  | predictor (bits : Nat) (d : Array Nat)
  | color (bits : Nat) (d : Array Nat)
  | subGreen

/-- the drivers applied one after the other on the same buffer, as `decode_frame` does (in the
    order in which the transforms are inverted) -/
def applyTB (w h : Nat) : List TB → Array Nat → Array Nat
  | [], a => a
  | .predictor bits d :: ts, a => applyTB w h ts (applyPredictor w h bits d a)
  | .color bits d :: ts, a => applyTB w h ts (applyColor w bits d a)
  | .subGreen :: ts, a => applyTB w h ts (applySubGreen a)

def specT : TB → VP8LP.T
  | .predictor bits d => .predictor bits (pixels d).toArray
  | .color bits d => .color bits (pixels d).toArray
  | .subGreen => .subtractGreen

def GoodT : TB → Prop
  | .predictor _ d => Bytes d ∧ d.size % 4 = 0 ∧ ∀ k, d.getD (4 * k + 1) 0 < 14
  | .color _ d => Bytes d ∧ d.size % 4 = 0
  | .subGreen => True

theorem drivers_compose (w h : Nat) (hw : 0 < w) (hh : 0 < h) :
    ∀ (ts : List TB) (a : Array Nat), (∀ t, t ∈ ts → GoodT t) → Bytes a → a.size = 4 * (w * h) →
      pixels (applyTB w h ts a) = VP8LP.applyT w h (ts.map specT) w (pixels a) := by
  intro ts
  induction ts with
  | nil => intro a _ _ _; rfl
  | cons t ts ih =>
    intro a hg hb hs
    have hgt := hg t (List.mem_cons_self)
    have hg' : ∀ t', t' ∈ ts → GoodT t' := fun t' h' => hg t' (List.mem_cons_of_mem _ h')
    cases t with
    | predictor bits d =>
      obtain ⟨hd, hd4, hmode⟩ := hgt
      show pixels (applyTB w h ts (applyPredictor w h bits d a)) =
        VP8LP.applyT w h (ts.map specT) w (VP8LP.invPredictor bits (pixels d).toArray w (pixels a) 0 [])
      rw [← predictor_is_spec a d w h bits hw hh hs hb hd hd4 hmode]
      exact ih _ hg' (bytes_applyPredictor a d w h bits hw hh hs hb hd hd4 hmode)
        ((size_applyPredictor a d w h bits hw hh hs hb hd hd4 hmode).trans hs)
    | color bits d =>
      obtain ⟨hd, hd4⟩ := hgt
      show pixels (applyTB w h ts (applyColor w bits d a)) =
        VP8LP.applyT w h (ts.map specT) w (VP8LP.invColor bits (pixels d).toArray w (pixels a) 0)
      rw [← color_is_spec w h bits d a hb hd hd4 (by rw [hs, Nat.mul_assoc]) hw]
      exact ih _ hg' (bytes_applyColor w bits d a hb) ((size_applyColor w bits d a).trans hs)
    | subGreen =>
      show pixels (applyTB w h ts (applySubGreen a)) = VP8LP.applyT w h (ts.map specT) w ((pixels a).map VP8LP.invSubGreenPx)
      rw [← subGreen_is_spec a hb (by omega)]
      exact ih _ hg' (bytes_applySubGreen a hb) ((size_applySubGreen a).trans hs)

end LTrProof
