import WebpVerif.Model.LosslessStream
import WebpVerif.Lemmas.CodeRead

/-!
The stream structure of the lossless specification decodes every stream alike with the
specification's entropy layer (`ReadCode` + canonical symbol decoder) and with the crate's
(`read_huffman_code` + `HuffmanTree`, models `CodeRead` / `Huff`).  The proof is a congruence: code
readers that agree on every well-formed request give equal images, because all bits handed on
are bits of the stream.
-/
namespace LStreamProof
open VP8LP Prefix LStream CodeReadProof

/-- two symbol decoders agree on every bit string, and what they leave is again a bit string -/
def DecAgree (d1 d2 : Dec) : Prop := ∀ bs, Bits01 bs → d1 bs = d2 bs ∧ ∀ s r, d2 bs = some (s, r) → Bits01 r

def GAgree (g1 g2 : Array Dec) : Prop := ∀ k, DecAgree (g1.getD k noDec) (g2.getD k noDec)
def GsAgree (G1 G2 : Array (Array Dec)) : Prop := ∀ k, GAgree (G1.getD k #[]) (G2.getD k #[])

theorem noDec_agree : DecAgree noDec noDec := fun _ _ => ⟨rfl, fun s r h => by cases h⟩

theorem gagree_empty : GAgree #[] #[] := fun k => by
  have e : (#[] : Array Dec).getD k noDec = noDec := by simp [Array.getD]
  rw [e]; exact noDec_agree

theorem getD_push {α : Type} (a : Array α) (x d : α) (k : Nat) :
    (a.push x).getD k d = if k < a.size then a.getD k d else if k = a.size then x else d := by
  simp only [Array.getD_eq_getD_getElem?, Array.getElem?_push]
  by_cases h1 : k < a.size
  · rw [if_pos h1, if_neg (by omega)]
  · rw [if_neg h1]
    by_cases h2 : k = a.size
    · rw [if_pos h2, if_pos h2]; rfl
    · rw [if_neg h2, if_neg h2, Array.getElem?_eq_none (by omega)]; rfl

theorem gagree_push (g1 g2 : Array Dec) (d1 d2 : Dec) (hs : g1.size = g2.size) (h : GAgree g1 g2) (hd : DecAgree d1 d2) :
    GAgree (g1.push d1) (g2.push d2) := by
  intro k
  rw [getD_push, getD_push, hs]
  by_cases h1 : k < g2.size
  · rw [if_pos h1, if_pos h1]; exact h k
  · rw [if_neg h1, if_neg h1]
    by_cases h2 : k = g2.size
    · rw [if_pos h2, if_pos h2]; exact hd
    · rw [if_neg h2, if_neg h2]; exact noDec_agree

theorem gsagree_push (G1 G2 : Array (Array Dec)) (g1 g2 : Array Dec) (hs : G1.size = G2.size) (h : GsAgree G1 G2) (hg : GAgree g1 g2) :
    GsAgree (G1.push g1) (G2.push g2) := by
  intro k
  rw [getD_push, getD_push, hs]
  by_cases h1 : k < G2.size
  · rw [if_pos h1, if_pos h1]; exact h k
  · rw [if_neg h1, if_neg h1]
    by_cases h2 : k = G2.size
    · rw [if_pos h2, if_pos h2]; exact hg
    · rw [if_neg h2, if_neg h2]; exact gagree_empty

/-- code readers that agree on every alphabet of the format -/
def RCAgree (rc1 rc2 : RC) : Prop := ∀ a bits, 2 ≤ a → a ≤ 5000 → Bits01 bits →
  match rc1 a bits, rc2 a bits with
  | none, none => True
  | some (d1, r1), some (d2, r2) => r1 = r2 ∧ Bits01 r2 ∧ DecAgree d1 d2
  | _, _ => False

/-- outcome of two runs that must agree: both fail, or both succeed with related results -/
def Both {α β : Type} (R : α → β → Prop) (x : Option (α × List Nat)) (y : Option (β × List Nat)) : Prop :=
  match x, y with
  | none, none => True
  | some (a, r1), some (b, r2) => r1 = r2 ∧ Bits01 r2 ∧ R a b
  | _, _ => False

theorem readGroupR_agree (rc1 rc2 : RC) (h : RCAgree rc1 rc2) : ∀ (alph : List Nat) (acc1 acc2 : Array Dec) (bits : List Nat),
    (∀ a ∈ alph, 2 ≤ a ∧ a ≤ 5000) → acc1.size = acc2.size → GAgree acc1 acc2 → Bits01 bits →
    Both (fun g1 g2 => g1.size = g2.size ∧ GAgree g1 g2) (readGroupR rc1 alph acc1 bits) (readGroupR rc2 alph acc2 bits) := by
  intro alph
  induction alph with
  | nil => intro acc1 acc2 bits _ hs hg hb; exact ⟨rfl, hb, hs, hg⟩
  | cons a alph ih =>
    intro acc1 acc2 bits ha hs hg hb
    unfold readGroupR
    have := h a bits (ha a List.mem_cons_self).1 (ha a List.mem_cons_self).2 hb
    cases h1 : rc1 a bits with
    | none =>
      cases h2 : rc2 a bits with
      | none => trivial
      | some r2 => rw [h1, h2] at this; exact this.elim
    | some r1 =>
      cases h2 : rc2 a bits with
      | none => rw [h1, h2] at this; exact this.elim
      | some r2 =>
        obtain ⟨d1, b1⟩ := r1
        obtain ⟨d2, b2⟩ := r2
        rw [h1, h2] at this
        obtain ⟨e, hb2, hd⟩ := this
        subst e
        exact ih _ _ _ (fun a' ha' => ha a' (List.mem_cons_of_mem _ ha')) (by simp [hs]) (gagree_push _ _ _ _ hs hg hd) hb2

theorem alphabets_ok (cacheBits : Nat) (hc : cacheBits ≤ 11) : ∀ a ∈ alphabets cacheBits, 2 ≤ a ∧ a ≤ 5000 := by
  intro a ha
  unfold alphabets at ha
  have h2 : 2 ^ cacheBits ≤ 2 ^ 11 := Nat.pow_le_pow_right (by decide) hc
  have e : (2 : Nat) ^ 11 = 2048 := by decide
  simp only [List.mem_cons, List.not_mem_nil, or_false] at ha
  rcases ha with rfl | rfl | rfl | rfl | rfl
  · have hp := Nat.two_pow_pos cacheBits
    split <;> omega
  all_goals omega

theorem readGroupsR_agree (rc1 rc2 : RC) (h : RCAgree rc1 rc2) (cacheBits : Nat) (hc : cacheBits ≤ 11) :
    ∀ (k : Nat) (acc1 acc2 : Array (Array Dec)) (bits : List Nat), acc1.size = acc2.size → GsAgree acc1 acc2 → Bits01 bits →
    Both (fun G1 G2 => GsAgree G1 G2) (readGroupsR rc1 cacheBits k acc1 bits) (readGroupsR rc2 cacheBits k acc2 bits) := by
  intro k
  induction k with
  | zero => intro acc1 acc2 bits _ hg hb; exact ⟨rfl, hb, hg⟩
  | succ k ih =>
    intro acc1 acc2 bits hs hg hb
    unfold readGroupsR
    have := readGroupR_agree rc1 rc2 h (alphabets cacheBits) #[] #[] bits (alphabets_ok cacheBits hc) rfl gagree_empty hb
    cases h1 : readGroupR rc1 (alphabets cacheBits) #[] bits with
    | none =>
      cases h2 : readGroupR rc2 (alphabets cacheBits) #[] bits with
      | none => trivial
      | some r2 => rw [h1, h2] at this; exact this.elim
    | some r1 =>
      cases h2 : readGroupR rc2 (alphabets cacheBits) #[] bits with
      | none => rw [h1, h2] at this; exact this.elim
      | some r2 =>
        obtain ⟨g1, b1⟩ := r1
        obtain ⟨g2, b2⟩ := r2
        rw [h1, h2] at this
        obtain ⟨e, hb2, _, hgg⟩ := this
        subst e
        exact ih _ _ _ (by simp [hs]) (gsagree_push _ _ _ _ hs hg hgg) hb2


/-! ### the pixel loop -/

theorem prefixValue_rest (sym : Nat) (bits : List Nat) (v : Nat) (rest : List Nat) (h : prefixValue sym bits = some (v, rest))
    (hb : Bits01 bits) : Bits01 rest := by
  unfold prefixValue at h
  split at h
  · injection h with h; injection h with _ h2; rw [← h2]; exact hb
  · cases hr : readBitsL ((sym - 2) / 2) bits with
    | none => rw [hr] at h; cases h
    | some r =>
      obtain ⟨x, b⟩ := r
      rw [hr] at h
      injection h with h; injection h with _ h2
      rw [← h2]
      exact readBitsL_rest _ bits x b hr hb

theorem stepG_agree (g1 g2 : Array Dec) (hg : GAgree g1 g2) (xsize n cacheBits i : Nat) (rev : List Nat) (cache : Array Nat)
    (bits : List Nat) (hb : Bits01 bits) :
    stepG g1 xsize n cacheBits i rev cache bits = stepG g2 xsize n cacheBits i rev cache bits ∧
    ∀ i' rev' cache' bits', stepG g2 xsize n cacheBits i rev cache bits = some (i', rev', cache', bits') → Bits01 bits' := by
  unfold stepG
  rw [(hg 0 bits hb).1]
  cases h0 : (g2.getD 0 noDec) bits with
  | none => exact ⟨by first | rfl | trivial, fun _ _ _ _ h => by cases h⟩
  | some r0 =>
    obtain ⟨s, b0⟩ := r0
    have hb0 := (hg 0 bits hb).2 s b0 h0
    simp only
    by_cases hs : s < 256
    · rw [if_pos hs, if_pos hs, (hg 1 b0 hb0).1]
      cases h1 : (g2.getD 1 noDec) b0 with
      | none => exact ⟨by first | rfl | trivial, fun _ _ _ _ h => by cases h⟩
      | some r1 =>
        obtain ⟨r, b1⟩ := r1
        have hb1 := (hg 1 b0 hb0).2 r b1 h1
        simp only
        rw [(hg 2 b1 hb1).1]
        cases h2 : (g2.getD 2 noDec) b1 with
        | none => exact ⟨by first | rfl | trivial, fun _ _ _ _ h => by cases h⟩
        | some r2 =>
          obtain ⟨bl, b2⟩ := r2
          have hb2 := (hg 2 b1 hb1).2 bl b2 h2
          simp only
          rw [(hg 3 b2 hb2).1]
          cases h3 : (g2.getD 3 noDec) b2 with
          | none => exact ⟨by first | rfl | trivial, fun _ _ _ _ h => by cases h⟩
          | some r3 =>
            obtain ⟨a, b3⟩ := r3
            have hb3 := (hg 3 b2 hb2).2 a b3 h3
            refine ⟨by first | rfl | trivial, ?_⟩
            intro i' rev' cache' bits' h
            simp only at h
            injection h with h
            injection h with _ h; injection h with _ h; injection h with _ h
            rw [← h]; exact hb3
    · rw [if_neg hs, if_neg hs]
      by_cases hs2 : s < 256 + 24
      · rw [if_pos hs2, if_pos hs2]
        cases hp : prefixValue (s - 256) b0 with
        | none => exact ⟨by first | rfl | trivial, fun _ _ _ _ h => by cases h⟩
        | some rp =>
          obtain ⟨len, bp⟩ := rp
          have hbp := prefixValue_rest _ b0 len bp hp hb0
          simp only
          rw [(hg 4 bp hbp).1]
          cases h4 : (g2.getD 4 noDec) bp with
          | none => exact ⟨by first | rfl | trivial, fun _ _ _ _ h => by cases h⟩
          | some r4 =>
            obtain ⟨ds, b4⟩ := r4
            have hb4 := (hg 4 bp hbp).2 ds b4 h4
            simp only
            cases hq : prefixValue ds b4 with
            | none => exact ⟨by first | rfl | trivial, fun _ _ _ _ h => by cases h⟩
            | some rq =>
              obtain ⟨dcode, bq⟩ := rq
              have hbq := prefixValue_rest _ b4 dcode bq hq hb4
              refine ⟨by first | rfl | trivial, ?_⟩
              intro i' rev' cache' bits' h
              simp only at h
              split at h
              · cases h
              · injection h with h
                injection h with _ h; injection h with _ h; injection h with _ h
                rw [← h]; exact hbq
      · rw [if_neg hs2, if_neg hs2]
        refine ⟨by first | rfl | trivial, ?_⟩
        intro i' rev' cache' bits' h
        split at h
        · cases h
        · split at h
          · cases h
          · injection h with h
            injection h with _ h; injection h with _ h; injection h with _ h
            rw [← h]; exact hb0


/-- images that differ only in their (agreeing) groups -/
structure ImgAgree (c1 c2 : Img) : Prop where
  xsize : c1.xsize = c2.xsize
  n : c1.n = c2.n
  cacheBits : c1.cacheBits = c2.cacheBits
  prefixBits : c1.prefixBits = c2.prefixBits
  entropy : c1.entropy = c2.entropy
  groups : GsAgree c1.groups c2.groups

theorem group_agree (c1 c2 : Img) (h : ImgAgree c1 c2) (i : Nat) : GAgree (c1.group i) (c2.group i) := by
  unfold Img.group
  rw [h.prefixBits, h.xsize, h.entropy]
  split
  · exact h.groups 0
  · exact h.groups _

theorem step_agree (c1 c2 : Img) (h : ImgAgree c1 c2) (i : Nat) (rev : List Nat) (cache : Array Nat) (bits : List Nat) (hb : Bits01 bits) :
    step c1 i rev cache bits = step c2 i rev cache bits ∧
    ∀ i' rev' cache' bits', step c2 i rev cache bits = some (i', rev', cache', bits') → Bits01 bits' := by
  unfold step
  rw [h.xsize, h.n, h.cacheBits]
  exact stepG_agree _ _ (group_agree c1 c2 h i) _ _ _ i rev cache bits hb

theorem loop_agree (c1 c2 : Img) (h : ImgAgree c1 c2) : ∀ (fuel i : Nat) (rev : List Nat) (cache : Array Nat) (bits : List Nat),
    Bits01 bits →
    loop c1 fuel i rev cache bits = loop c2 fuel i rev cache bits ∧
    ∀ rev' bits', loop c2 fuel i rev cache bits = some (rev', bits') → Bits01 bits' := by
  intro fuel
  induction fuel with
  | zero =>
    intro i rev cache bits hb
    unfold loop
    rw [h.n]
    refine ⟨rfl, ?_⟩
    intro rev' bits' hl
    split at hl
    · split at hl
      · injection hl with hl; injection hl with _ h2; rw [← h2]; exact hb
      · cases hl
    · cases hl
  | succ fuel ih =>
    intro i rev cache bits hb
    unfold loop
    rw [h.n]
    by_cases hi : i ≥ c2.n
    · rw [if_pos hi, if_pos hi]
      refine ⟨rfl, ?_⟩
      intro rev' bits' hl
      split at hl
      · injection hl with hl; injection hl with _ h2; rw [← h2]; exact hb
      · cases hl
    · rw [if_neg hi, if_neg hi]
      simp only
      obtain ⟨e, hrest⟩ := step_agree c1 c2 h i rev cache bits hb
      rw [e]
      cases hs : step c2 i rev cache bits with
      | none => exact ⟨rfl, fun _ _ hl => by cases hl⟩
      | some r =>
        obtain ⟨i', rev', cache', bits'⟩ := r
        exact ih i' rev' cache' bits' (hrest i' rev' cache' bits' hs)

theorem readCacheBits_rest (bits : List Nat) (cb : Nat) (rest : List Nat) (h : readCacheBits bits = some (cb, rest)) (hb : Bits01 bits) :
    Bits01 rest ∧ cb ≤ 11 := by
  unfold readCacheBits at h
  cases h1 : readBitsL 1 bits with
  | none => rw [h1] at h; cases h
  | some r1 =>
    obtain ⟨hc, b1⟩ := r1
    have hb1 := readBitsL_rest 1 bits hc b1 h1 hb
    rw [h1] at h
    simp only at h
    split at h
    · cases h4 : readBitsL 4 b1 with
      | none => rw [h4] at h; cases h
      | some r4 =>
        obtain ⟨v, b4⟩ := r4
        rw [h4] at h
        simp only at h
        split at h
        · cases h
        · rename_i hv
          injection h with h; injection h with e1 e2
          subst e1 e2
          exact ⟨readBitsL_rest 4 b1 v b4 h4 hb1, by omega⟩
    · injection h with h; injection h with e1 e2
      subst e1 e2
      exact ⟨hb1, by decide⟩

/-- equal outcome and a bit string left -/
def Same {α : Type} (x y : Option (α × List Nat)) : Prop := x = y ∧ ∀ a r, y = some (a, r) → Bits01 r

theorem readPixelsR_agree (rc1 rc2 : RC) (h : RCAgree rc1 rc2) (xsize ysize cacheBits prefixBits : Nat) (hc : cacheBits ≤ 11)
    (entropy : Array Nat) (numGroups : Nat) (bits : List Nat) (hb : Bits01 bits) :
    Same (readPixelsR rc1 xsize ysize cacheBits prefixBits entropy numGroups bits)
      (readPixelsR rc2 xsize ysize cacheBits prefixBits entropy numGroups bits) := by
  unfold readPixelsR
  have hg := readGroupsR_agree rc1 rc2 h cacheBits hc numGroups #[] #[] bits rfl (fun k => by
    have e : (#[] : Array (Array Dec)).getD k #[] = #[] := by simp [Array.getD]
    rw [e]; exact gagree_empty) hb
  cases h1 : readGroupsR rc1 cacheBits numGroups #[] bits with
  | none =>
    cases h2 : readGroupsR rc2 cacheBits numGroups #[] bits with
    | none => exact ⟨rfl, fun _ _ hh => by cases hh⟩
    | some r2 => rw [h1, h2] at hg; exact hg.elim
  | some r1 =>
    cases h2 : readGroupsR rc2 cacheBits numGroups #[] bits with
    | none => rw [h1, h2] at hg; exact hg.elim
    | some r2 =>
      obtain ⟨G1, b1⟩ := r1
      obtain ⟨G2, b2⟩ := r2
      rw [h1, h2] at hg
      obtain ⟨e, hb2, hG⟩ := hg
      subst e
      simp only
      obtain ⟨el, hrest⟩ := loop_agree
        { xsize := xsize, n := xsize * ysize, cacheBits := cacheBits, prefixBits := prefixBits, entropy := entropy, groups := G1 }
        { xsize := xsize, n := xsize * ysize, cacheBits := cacheBits, prefixBits := prefixBits, entropy := entropy, groups := G2 }
        ⟨rfl, rfl, rfl, rfl, rfl, hG⟩ (xsize * ysize) 0 [] (Array.replicate (if cacheBits = 0 then 0 else 2 ^ cacheBits) 0) b1 hb2
      rw [el]
      refine ⟨rfl, ?_⟩
      intro a r hh
      cases hl : loop { xsize := xsize, n := xsize * ysize, cacheBits := cacheBits, prefixBits := prefixBits, entropy := entropy, groups := G2 }
          (xsize * ysize) 0 [] (Array.replicate (if cacheBits = 0 then 0 else 2 ^ cacheBits) 0) b1 with
      | none => rw [hl] at hh; cases hh
      | some rr =>
        obtain ⟨rev', bits'⟩ := rr
        rw [hl] at hh
        injection hh with hh; injection hh with _ e2
        rw [← e2]
        exact hrest rev' bits' hl

theorem readSubR_agree (rc1 rc2 : RC) (h : RCAgree rc1 rc2) (xsize ysize : Nat) (bits : List Nat) (hb : Bits01 bits) :
    Same (readSubR rc1 xsize ysize bits) (readSubR rc2 xsize ysize bits) := by
  unfold readSubR
  cases hc : readCacheBits bits with
  | none => exact ⟨rfl, fun _ _ hh => by cases hh⟩
  | some r =>
    obtain ⟨cb, b1⟩ := r
    obtain ⟨hb1, hcb⟩ := readCacheBits_rest bits cb b1 hc hb
    exact readPixelsR_agree rc1 rc2 h xsize ysize cb 0 hcb #[] 1 b1 hb1


theorem same_none {α : Type} : Same (none : Option (α × List Nat)) none := ⟨rfl, fun _ _ hh => by cases hh⟩

theorem readMainR_agree (rc1 rc2 : RC) (h : RCAgree rc1 rc2) (xsize ysize : Nat) (bits : List Nat) (hb : Bits01 bits) :
    Same (readMainR rc1 xsize ysize bits) (readMainR rc2 xsize ysize bits) := by
  unfold readMainR
  cases hc : readCacheBits bits with
  | none => exact same_none
  | some r =>
    obtain ⟨cb, b1⟩ := r
    obtain ⟨hb1, hcb⟩ := readCacheBits_rest bits cb b1 hc hb
    simp only
    cases hm : readBitsL 1 b1 with
    | none => exact same_none
    | some rm =>
      obtain ⟨hasMeta, b2⟩ := rm
      have hb2 := readBitsL_rest 1 b1 hasMeta b2 hm hb1
      simp only
      by_cases hmeta : hasMeta = 1
      · rw [if_pos hmeta, if_pos hmeta]
        cases hp : readBitsL 3 b2 with
        | none => exact same_none
        | some rp =>
          obtain ⟨pb, b3⟩ := rp
          have hb3 := readBitsL_rest 3 b2 pb b3 hp hb2
          simp only
          obtain ⟨es, hs⟩ := readSubR_agree rc1 rc2 h (VP8L.subSize xsize (pb + 2)) (VP8L.subSize ysize (pb + 2)) b3 hb3
          rw [es]
          cases hsub : readSubR rc2 (VP8L.subSize xsize (pb + 2)) (VP8L.subSize ysize (pb + 2)) b3 with
          | none => exact same_none
          | some rs =>
            obtain ⟨img, b4⟩ := rs
            exact readPixelsR_agree rc1 rc2 h xsize ysize cb (pb + 2) hcb _ _ b4 (hs img b4 hsub)
      · rw [if_neg hmeta, if_neg hmeta]
        exact readPixelsR_agree rc1 rc2 h xsize ysize cb 0 hcb #[] 1 b2 hb2

theorem readTransformsR_agree (rc1 rc2 : RC) (h : RCAgree rc1 rc2) (hh : Nat) : ∀ (fuel xsize : Nat) (seen : List Nat) (ts : List T)
    (bits : List Nat), Bits01 bits →
    readTransformsR rc1 hh fuel xsize seen ts bits = readTransformsR rc2 hh fuel xsize seen ts bits ∧
    ∀ x t r, readTransformsR rc2 hh fuel xsize seen ts bits = some (x, t, r) → Bits01 r := by
  intro fuel
  induction fuel with
  | zero => intro xsize seen ts bits _; exact ⟨rfl, fun _ _ _ hx => by cases hx⟩
  | succ fuel ih =>
    intro xsize seen ts bits hb
    unfold readTransformsR
    cases h1 : readBitsL 1 bits with
    | none => exact ⟨rfl, fun _ _ _ hx => by cases hx⟩
    | some r1 =>
      obtain ⟨present, b1⟩ := r1
      have hb1 := readBitsL_rest 1 bits present b1 h1 hb
      simp only
      by_cases hp : present = 0
      · rw [if_pos hp, if_pos hp]
        refine ⟨rfl, ?_⟩
        intro x t r hx
        injection hx with hx; injection hx with _ hx; injection hx with _ hx
        rw [← hx]; exact hb1
      · rw [if_neg hp, if_neg hp]
        cases h2 : readBitsL 2 b1 with
        | none => exact ⟨rfl, fun _ _ _ hx => by cases hx⟩
        | some r2 =>
          obtain ⟨ty, b2⟩ := r2
          have hb2 := readBitsL_rest 2 b1 ty b2 h2 hb1
          simp only
          by_cases hseen : seen.contains ty = true
          · rw [if_pos hseen, if_pos hseen]; exact ⟨rfl, fun _ _ _ hx => by cases hx⟩
          · rw [if_neg hseen, if_neg hseen]
            by_cases h01 : ty = 0 ∨ ty = 1
            · rw [if_pos h01, if_pos h01]
              cases h3 : readBitsL 3 b2 with
              | none => exact ⟨rfl, fun _ _ _ hx => by cases hx⟩
              | some r3 =>
                obtain ⟨sb, b3⟩ := r3
                have hb3 := readBitsL_rest 3 b2 sb b3 h3 hb2
                simp only
                obtain ⟨es, hs⟩ := readSubR_agree rc1 rc2 h (VP8L.subSize xsize (sb + 2)) (VP8L.subSize hh (sb + 2)) b3 hb3
                rw [es]
                cases hsub : readSubR rc2 (VP8L.subSize xsize (sb + 2)) (VP8L.subSize hh (sb + 2)) b3 with
                | none => exact ⟨rfl, fun _ _ _ hx => by cases hx⟩
                | some rs =>
                  obtain ⟨img, b4⟩ := rs
                  exact ih _ _ _ b4 (hs img b4 hsub)
            · rw [if_neg h01, if_neg h01]
              by_cases h2' : ty = 2
              · rw [if_pos h2', if_pos h2']
                exact ih _ _ _ b2 hb2
              · rw [if_neg h2', if_neg h2']
                cases h8 : readBitsL 8 b2 with
                | none => exact ⟨rfl, fun _ _ _ hx => by cases hx⟩
                | some r8 =>
                  obtain ⟨n1, b3⟩ := r8
                  have hb3 := readBitsL_rest 8 b2 n1 b3 h8 hb2
                  simp only
                  obtain ⟨es, hs⟩ := readSubR_agree rc1 rc2 h (n1 + 1) 1 b3 hb3
                  rw [es]
                  cases hsub : readSubR rc2 (n1 + 1) 1 b3 with
                  | none => exact ⟨rfl, fun _ _ _ hx => by cases hx⟩
                  | some rs =>
                    obtain ⟨tab, b4⟩ := rs
                    exact ih _ _ _ b4 (hs tab b4 hsub)

/-- **congruence**: code readers that agree on every request decode every stream alike -/
theorem decodeBitsR_agree (rc1 rc2 : RC) (h : RCAgree rc1 rc2) (bits : List Nat) (hb : Bits01 bits) :
    decodeBitsR rc1 bits = decodeBitsR rc2 bits := by
  unfold decodeBitsR
  cases h8 : readBitsL 8 bits with
  | none => rfl
  | some r8 =>
    obtain ⟨sig, b1⟩ := r8
    have hb1 := readBitsL_rest 8 bits sig b1 h8 hb
    simp only
    by_cases hsig : sig ≠ 0x2f
    · rw [if_pos hsig, if_pos hsig]
    · rw [if_neg hsig, if_neg hsig]
      cases hw : readBitsL 14 b1 with
      | none => rfl
      | some rw' =>
        obtain ⟨w1, b2⟩ := rw'
        have hb2 := readBitsL_rest 14 b1 w1 b2 hw hb1
        simp only
        cases hh : readBitsL 14 b2 with
        | none => rfl
        | some rh =>
          obtain ⟨h1, b3⟩ := rh
          have hb3 := readBitsL_rest 14 b2 h1 b3 hh hb2
          simp only
          cases ha : readBitsL 1 b3 with
          | none => rfl
          | some ra =>
            obtain ⟨al, b4⟩ := ra
            have hb4 := readBitsL_rest 1 b3 al b4 ha hb3
            simp only
            cases hv : readBitsL 3 b4 with
            | none => rfl
            | some rv =>
              obtain ⟨ver, b5⟩ := rv
              have hb5 := readBitsL_rest 3 b4 ver b5 hv hb4
              simp only
              by_cases hver : ver ≠ 0
              · rw [if_pos hver, if_pos hver]
              · rw [if_neg hver, if_neg hver]
                obtain ⟨et, ht⟩ := readTransformsR_agree rc1 rc2 h (h1 + 1) 5 (w1 + 1) [] [] b5 hb5
                rw [et]
                cases htr : readTransformsR rc2 (h1 + 1) 5 (w1 + 1) [] [] b5 with
                | none => rfl
                | some rt =>
                  obtain ⟨xsize, ts, b6⟩ := rt
                  simp only
                  rw [(readMainR_agree rc1 rc2 h xsize (h1 + 1) b6 (ht xsize ts b6 htr)).1]


/-! ### the two instances -/

/-- what `ReadCode` leaves is a bit string -/
theorem readCodeL_rest (a : Nat) (bits lens rest : List Nat) (h : readCodeL a bits = some (lens, rest)) (hb : Bits01 bits) : Bits01 rest := by
  unfold readCodeL at h
  cases h1 : readBitsL 1 bits with
  | none => rw [h1] at h; cases h
  | some r1 =>
    obtain ⟨simple, b1⟩ := r1
    have hb1 := readBitsL_rest 1 bits simple b1 h1 hb
    rw [h1] at h
    simp only at h
    by_cases hs : simple = 1
    · rw [if_pos hs] at h
      cases h2 : readBitsL 1 b1 with
      | none => rw [h2] at h; cases h
      | some r2 =>
        obtain ⟨n1, b2⟩ := r2
        have hb2 := readBitsL_rest 1 b1 n1 b2 h2 hb1
        rw [h2] at h
        simp only at h
        cases h3 : readBitsL 1 b2 with
        | none => rw [h3] at h; cases h
        | some r3 =>
          obtain ⟨f8, b3⟩ := r3
          have hb3 := readBitsL_rest 1 b2 f8 b3 h3 hb2
          rw [h3] at h
          simp only at h
          cases h4 : readBitsL (if f8 = 1 then 8 else 1) b3 with
          | none => rw [h4] at h; cases h
          | some r4 =>
            obtain ⟨s0, b4⟩ := r4
            have hb4 := readBitsL_rest _ b3 s0 b4 h4 hb3
            rw [h4] at h
            simp only at h
            split at h
            · cases h
            · split at h
              · injection h with h; injection h with _ e; rw [← e]; exact hb4
              · cases h5 : readBitsL 8 b4 with
                | none => rw [h5] at h; cases h
                | some r5 =>
                  obtain ⟨s1, b5⟩ := r5
                  rw [h5] at h
                  simp only at h
                  split at h
                  · cases h
                  · injection h with h; injection h with _ e; rw [← e]
                    exact readBitsL_rest 8 b4 s1 b5 h5 hb4
    · rw [if_neg hs] at h
      cases h2 : readBitsL 4 b1 with
      | none => rw [h2] at h; cases h
      | some r2 =>
        obtain ⟨n4, b2⟩ := r2
        have hb2 := readBitsL_rest 4 b1 n4 b2 h2 hb1
        rw [h2] at h
        simp only at h
        cases h3 : readClLens (List.take (4 + n4) clOrder) (List.replicate 19 0) b2 with
        | none => rw [h3] at h; cases h
        | some r3 =>
          obtain ⟨cl, b3⟩ := r3
          obtain ⟨hb3, _, _⟩ := readClLens_rest _ _ _ _ _ h3 hb2
          rw [h3] at h
          simp only at h
          split at h
          · cases h
          · cases h4 : readBitsL 1 b3 with
            | none => rw [h4] at h; cases h
            | some r4 =>
              obtain ⟨useMax, b4⟩ := r4
              have hb4 := readBitsL_rest 1 b3 useMax b4 h4 hb3
              rw [h4] at h
              simp only at h
              -- the bits after the `max_symbol` field
              have hmax : ∀ (m : Nat) (bm : List Nat),
                  (if useMax = 1 then
                    match readBitsL 3 b4 with
                    | none => none
                    | some (n3, bits) =>
                      match readBitsL (2 + 2 * n3) bits with
                      | none => none
                      | some (ms, bits) => if 2 + ms > a then none else some (2 + ms, bits)
                   else some (a, b4)) = some (m, bm) → Bits01 bm := by
                intro m bm hm
                split at hm
                · cases h5 : readBitsL 3 b4 with
                  | none => rw [h5] at hm; cases hm
                  | some r5 =>
                    obtain ⟨n3, b5⟩ := r5
                    have hb5 := readBitsL_rest 3 b4 n3 b5 h5 hb4
                    rw [h5] at hm
                    simp only at hm
                    cases h6 : readBitsL (2 + 2 * n3) b5 with
                    | none => rw [h6] at hm; cases hm
                    | some r6 =>
                      obtain ⟨ms, b6⟩ := r6
                      rw [h6] at hm
                      simp only at hm
                      split at hm
                      · cases hm
                      · injection hm with hm; injection hm with _ e; rw [← e]
                        exact readBitsL_rest _ b5 ms b6 h6 hb5
                · injection hm with hm; injection hm with _ e; rw [← e]; exact hb4
              generalize hgm : (if useMax = 1 then
                    match readBitsL 3 b4 with
                    | none => none
                    | some (n3, bits) =>
                      match readBitsL (2 + 2 * n3) bits with
                      | none => none
                      | some (ms, bits) => if 2 + ms > a then none else some (2 + ms, bits)
                   else some (a, b4)) = rm at h hmax
              cases rm with
              | none => cases h
              | some mm =>
                obtain ⟨m, bm⟩ := mm
                have hbm := hmax m bm rfl
                simp only at h
                cases h7 : readLens a cl m 8 (a + 1) [] bm with
                | none => rw [h7] at h; cases h
                | some r7 =>
                  obtain ⟨ls, b7⟩ := r7
                  rw [h7] at h
                  simp only at h
                  split at h
                  · injection h with h; injection h with _ e; rw [← e]
                    exact (readLens_props a cl (a + 1) m 8 [] bm ls b7 h7 hbm (by intro l hl; cases hl) (by decide) (by simp)).2.2
                  · cases h

theorem readSym_rest (t : Huff.Built) (bs : List Nat) (s : Nat) (r : List Nat) (h : Huff.readSym t bs = some (s, r)) (hb : Bits01 bs) :
    Bits01 r := by
  unfold Huff.readSym at h
  cases t with
  | err => cases h
  | single z => injection h with h; injection h with _ e; rw [← e]; exact hb
  | ok ht =>
    simp only at h
    cases hl : Huff.look ht (Huff.peek16 bs) with
    | none => rw [hl] at h; cases h
    | some p =>
      obtain ⟨s', n⟩ := p
      rw [hl] at h
      simp only at h
      split at h
      · cases h
      · injection h with h; injection h with _ e; rw [← e]; exact bits01_drop bs n hb

/-- **the crate's code reader and `HuffmanTree` agree with the specification's entropy layer** on
    every alphabet of the format and every bit string (from `read_code_is_spec`) -/
theorem rc_agree : RCAgree crateRC specRC := by
  intro a bits h2 h5000 hb
  have hag := read_code_is_spec a h2 h5000 bits hb
  unfold crateRC specRC
  cases h1 : CodeRead.readCode a bits with
  | none =>
    cases h2' : readCodeL a bits with
    | none => trivial
    | some r2 => rw [h1, h2'] at hag; exact hag.elim
  | some r1 =>
    cases h2' : readCodeL a bits with
    | none => rw [h1, h2'] at hag; exact hag.elim
    | some r2 =>
      obtain ⟨t, r⟩ := r1
      obtain ⟨lens, r'⟩ := r2
      rw [h1, h2'] at hag
      obtain ⟨e, hT⟩ := hag
      subst e
      refine ⟨rfl, readCodeL_rest a bits lens r h2' hb, ?_⟩
      intro bs hbs
      refine ⟨hT bs hbs, ?_⟩
      intro s rest hd
      exact (decodeSymbol_sound lens bs s rest hd hbs).2


/-! ### with the specification's own entropy layer the parametrised stream is `VP8LP.decodeBits` -/

theorem readGroupR_spec : ∀ (alph : List Nat) (acc : Array Dec) (bits : List Nat),
    readGroupR specRC alph acc bits = readGroup specDec alph acc bits := by
  intro alph
  induction alph with
  | nil => intro _ _; rfl
  | cons a alph ih =>
    intro acc bits
    unfold readGroupR readGroup specRC
    cases readCodeL a bits with
    | none => rfl
    | some r => exact ih _ _

theorem readGroupsR_spec (cacheBits : Nat) : ∀ (k : Nat) (acc : Array (Array Dec)) (bits : List Nat),
    readGroupsR specRC cacheBits k acc bits = readGroups specDec cacheBits k acc bits := by
  intro k
  induction k with
  | zero => intro _ _; rfl
  | succ k ih =>
    intro acc bits
    unfold readGroupsR readGroups
    rw [readGroupR_spec]
    cases readGroup specDec (alphabets cacheBits) #[] bits with
    | none => rfl
    | some r => exact ih _ _

theorem readPixelsR_spec (xsize ysize cacheBits prefixBits : Nat) (entropy : Array Nat) (numGroups : Nat) (bits : List Nat) :
    readPixelsR specRC xsize ysize cacheBits prefixBits entropy numGroups bits =
      readPixels specDec xsize ysize cacheBits prefixBits entropy numGroups bits := by
  unfold readPixelsR readPixels
  rw [readGroupsR_spec]
  rfl

theorem readSubR_spec (xsize ysize : Nat) (bits : List Nat) : readSubR specRC xsize ysize bits = readSub specDec xsize ysize bits := by
  unfold readSubR readSub
  cases readCacheBits bits with
  | none => rfl
  | some r => exact readPixelsR_spec _ _ _ _ _ _ _

theorem readMainR_spec (xsize ysize : Nat) (bits : List Nat) : readMainR specRC xsize ysize bits = readMain specDec xsize ysize bits := by
  unfold readMainR readMain
  simp only [readSubR_spec, readPixelsR_spec]
  rfl

theorem readTransformsR_spec (hh : Nat) : ∀ (fuel xsize : Nat) (seen : List Nat) (ts : List T) (bits : List Nat),
    readTransformsR specRC hh fuel xsize seen ts bits = readTransforms specDec hh fuel xsize seen ts bits := by
  intro fuel
  induction fuel with
  | zero => intro _ _ _ _; rfl
  | succ fuel ih =>
    intro xsize seen ts bits
    unfold readTransformsR readTransforms
    simp only [readSubR_spec, ih]
    rfl

theorem spec_instance (bits : List Nat) : decodeBitsR specRC bits = decodeBits specDec bits := by
  unfold decodeBitsR decodeBits
  simp only [readTransformsR_spec, readMainR_spec]
  rfl

theorem bitsOfBytes_01 (bytes : List Nat) : Bits01 (bitsOfBytes bytes) := by
  intro b hb
  unfold bitsOfBytes at hb
  obtain ⟨x, _, hx⟩ := List.mem_flatMap.mp hb
  obtain ⟨k, _, rfl⟩ := List.mem_map.mp hx
  exact Nat.mod_lt _ (by decide)

/-- **the crate's entropy layer inside the specification's stream structure decodes every byte
    string exactly like the specification** -/
theorem decodeCrate_is_spec (bytes : List Nat) : decodeCrate bytes = VP8LP.decode bytes := by
  unfold decodeCrate VP8LP.decode
  rw [decodeBitsR_agree crateRC specRC rc_agree _ (bitsOfBytes_01 bytes), spec_instance]

end LStreamProof
