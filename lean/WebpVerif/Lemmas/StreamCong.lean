import WebpVerif.Model.LosslessStream
import WebpVerif.Lemmas.CodeRead

/-!
The stream structure of the lossless specification decodes every stream alike with the
specification's entropy layer (`ReadCode` + canonical symbol decoder) and with the crate's
(`read_huffman_code` + `HuffmanTree`, models `CodeRead` / `Huff`).  The proof is a congruence: code
readers that agree on every well-formed request give equal images, because all bits handed on
are bits of the stream.
-/
namespace LStreamProof
open VP8LP Prefix LStream CodeReadProof

/-- two symbol decoders agree on every bit string, and what they leave is again a bit string -/
def DecAgree (d1 d2 : Dec) : Prop := ∀ bs, Bits01 bs → d1 bs = d2 bs ∧ ∀ s r, d2 bs = some (s, r) → Bits01 r

def GAgree (g1 g2 : Array Dec) : Prop := ∀ k, DecAgree (g1.getD k noDec) (g2.getD k noDec)
def GsAgree (G1 G2 : Array (Array Dec)) : Prop := ∀ k, GAgree (G1.getD k #[]) (G2.getD k #[])

theorem noDec_agree : DecAgree noDec noDec := fun _ _ => ⟨rfl, fun s r h => by cases h⟩

theorem gagree_empty : GAgree #[] #[] := fun k => by
  have e : (#[] : Array Dec).getD k noDec = noDec := by simp [Array.getD]
  rw [e]; exact noDec_agree

theorem getD_push {α : Type} (a : Array α) (x d : α) (k : Nat) :
    (a.push x).getD k d = if k < a.size then a.getD k d else if k = a.size then x else d := by
  simp only [Array.getD_eq_getD_getElem?, Array.getElem?_push]
  by_cases h1 : k < a.size
  · rw [if_pos h1, if_neg (by omega)]
  · rw [if_neg h1]
    by_cases h2 : k = a.size
    · rw [if_pos h2, if_pos h2]; rfl
    · rw [if_neg h2, if_neg h2, Array.getElem?_eq_none (by omega)]; rfl

theorem gagree_push (g1 g2 : Array Dec) (d1 d2 : Dec) (hs : g1.size = g2.size) (h : GAgree g1 g2) (hd : DecAgree d1 d2) :
    GAgree (g1.push d1) (g2.push d2) := by
  intro k
  rw [getD_push, getD_push, hs]
  by_cases h1 : k < g2.size
  · rw [if_pos h1, if_pos h1]; exact h k
  · rw [if_neg h1, if_neg h1]
    by_cases h2 : k = g2.size
    · rw [if_pos h2, if_pos h2]; exact hd
    · rw [if_neg h2, if_neg h2]; exact noDec_agree

theorem gsagree_push (G1 G2 : Array (Array Dec)) (g1 g2 : Array Dec) (hs : G1.size = G2.size) (h : GsAgree G1 G2) (hg : GAgree g1 g2) :
    GsAgree (G1.push g1) (G2.push g2) := by
  intro k
  rw [getD_push, getD_push, hs]
  by_cases h1 : k < G2.size
  · rw [if_pos h1, if_pos h1]; exact h k
  · rw [if_neg h1, if_neg h1]
    by_cases h2 : k = G2.size
    · rw [if_pos h2, if_pos h2]; exact hg
    · rw [if_neg h2, if_neg h2]; exact gagree_empty

/-- code readers that agree on every alphabet of the format -/
def RCAgree (rc1 rc2 : RC) : Prop := ∀ a bits, 2 ≤ a → a ≤ 5000 → Bits01 bits →
  match rc1 a bits, rc2 a bits with
  | none, none => True
  | some (d1, r1), some (d2, r2) => r1 = r2 ∧ Bits01 r2 ∧ DecAgree d1 d2
  | _, _ => False

/-- outcome of two runs that must agree: both fail, or both succeed with related results -/
def Both {α β : Type} (R : α → β → Prop) (x : Option (α × List Nat)) (y : Option (β × List Nat)) : Prop :=
  match x, y with
  | none, none => True
  | some (a, r1), some (b, r2) => r1 = r2 ∧ Bits01 r2 ∧ R a b
  | _, _ => False

theorem readGroupR_agree (rc1 rc2 : RC) (h : RCAgree rc1 rc2) : ∀ (alph : List Nat) (acc1 acc2 : Array Dec) (bits : List Nat),
    (∀ a ∈ alph, 2 ≤ a ∧ a ≤ 5000) → acc1.size = acc2.size → GAgree acc1 acc2 → Bits01 bits →
    Both (fun g1 g2 => g1.size = g2.size ∧ GAgree g1 g2) (readGroupR rc1 alph acc1 bits) (readGroupR rc2 alph acc2 bits) := by
  intro alph
  induction alph with
  | nil => intro acc1 acc2 bits _ hs hg hb; exact ⟨rfl, hb, hs, hg⟩
  | cons a alph ih =>
    intro acc1 acc2 bits ha hs hg hb
    unfold readGroupR
    have := h a bits (ha a List.mem_cons_self).1 (ha a List.mem_cons_self).2 hb
    cases h1 : rc1 a bits with
    | none =>
      cases h2 : rc2 a bits with
      | none => trivial
      | some r2 => rw [h1, h2] at this; exact this.elim
    | some r1 =>
      cases h2 : rc2 a bits with
      | none => rw [h1, h2] at this; exact this.elim
      | some r2 =>
        obtain ⟨d1, b1⟩ := r1
        obtain ⟨d2, b2⟩ := r2
        rw [h1, h2] at this
        obtain ⟨e, hb2, hd⟩ := this
        subst e
        exact ih _ _ _ (fun a' ha' => ha a' (List.mem_cons_of_mem _ ha')) (by simp [hs]) (gagree_push _ _ _ _ hs hg hd) hb2

theorem alphabets_ok (cacheBits : Nat) (hc : cacheBits ≤ 11) : ∀ a ∈ alphabets cacheBits, 2 ≤ a ∧ a ≤ 5000 := by
  intro a ha
  unfold alphabets at ha
  have h2 : 2 ^ cacheBits ≤ 2 ^ 11 := Nat.pow_le_pow_right (by decide) hc
  have e : (2 : Nat) ^ 11 = 2048 := by decide
  simp only [List.mem_cons, List.not_mem_nil, or_false] at ha
  rcases ha with rfl | rfl | rfl | rfl | rfl
  · have hp := Nat.two_pow_pos cacheBits
    split <;> omega
  all_goals omega

theorem readGroupsR_agree (rc1 rc2 : RC) (h : RCAgree rc1 rc2) (cacheBits : Nat) (hc : cacheBits ≤ 11) :
    ∀ (k : Nat) (acc1 acc2 : Array (Array Dec)) (bits : List Nat), acc1.size = acc2.size → GsAgree acc1 acc2 → Bits01 bits →
    Both (fun G1 G2 => GsAgree G1 G2) (readGroupsR rc1 cacheBits k acc1 bits) (readGroupsR rc2 cacheBits k acc2 bits) := by
  intro k
  induction k with
  | zero => intro acc1 acc2 bits _ hg hb; exact ⟨rfl, hb, hg⟩
  | succ k ih =>
    intro acc1 acc2 bits hs hg hb
    unfold readGroupsR
    have := readGroupR_agree rc1 rc2 h (alphabets cacheBits) #[] #[] bits (alphabets_ok cacheBits hc) rfl gagree_empty hb
    cases h1 : readGroupR rc1 (alphabets cacheBits) #[] bits with
    | none =>
      cases h2 : readGroupR rc2 (alphabets cacheBits) #[] bits with
      | none => trivial
      | some r2 => rw [h1, h2] at this; exact this.elim
    | some r1 =>
      cases h2 : readGroupR rc2 (alphabets cacheBits) #[] bits with
      | none => rw [h1, h2] at this; exact this.elim
      | some r2 =>
        obtain ⟨g1, b1⟩ := r1
        obtain ⟨g2, b2⟩ := r2
        rw [h1, h2] at this
        obtain ⟨e, hb2, _, hgg⟩ := this
        subst e
        exact ih _ _ _ (by simp [hs]) (gsagree_push _ _ _ _ hs hg hgg) hb2


/-! ### the pixel loop -/

theorem prefixValue_rest (sym : Nat) (bits : List Nat) (v : Nat) (rest : List Nat) (h : prefixValue sym bits = some (v, rest))
    (hb : Bits01 bits) : Bits01 rest := by
  unfold prefixValue at h
  split at h
  · injection h with h; injection h with _ h2; rw [← h2]; exact hb
  · cases hr : readBitsL ((sym - 2) / 2) bits with
    | none => rw [hr] at h; cases h
    | some r =>
      obtain ⟨x, b⟩ := r
      rw [hr] at h
      injection h with h; injection h with _ h2
      rw [← h2]
      exact readBitsL_rest _ bits x b hr hb

theorem stepG_agree (g1 g2 : Array Dec) (hg : GAgree g1 g2) (xsize n cacheBits i : Nat) (rev : List Nat) (cache : Array Nat)
    (bits : List Nat) (hb : Bits01 bits) :
    stepG g1 xsize n cacheBits i rev cache bits = stepG g2 xsize n cacheBits i rev cache bits ∧
    ∀ i' rev' cache' bits', stepG g2 xsize n cacheBits i rev cache bits = some (i', rev', cache', bits') → Bits01 bits' := by
  unfold stepG
  rw [(hg 0 bits hb).1]
  cases h0 : (g2.getD 0 noDec) bits with
  | none => exact ⟨by first | rfl | trivial, fun _ _ _ _ h => by cases h⟩
  | some r0 =>
    obtain ⟨s, b0⟩ := r0
    have hb0 := (hg 0 bits hb).2 s b0 h0
    simp only
    by_cases hs : s < 256
    · rw [if_pos hs, if_pos hs, (hg 1 b0 hb0).1]
      cases h1 : (g2.getD 1 noDec) b0 with
      | none => exact ⟨by first | rfl | trivial, fun _ _ _ _ h => by cases h⟩
      | some r1 =>
        obtain ⟨r, b1⟩ := r1
        have hb1 := (hg 1 b0 hb0).2 r b1 h1
        simp only
        rw [(hg 2 b1 hb1).1]
        cases h2 : (g2.getD 2 noDec) b1 with
        | none => exact ⟨by first | rfl | trivial, fun _ _ _ _ h => by cases h⟩
        | some r2 =>
          obtain ⟨bl, b2⟩ := r2
          have hb2 := (hg 2 b1 hb1).2 bl b2 h2
          simp only
          rw [(hg 3 b2 hb2).1]
          cases h3 : (g2.getD 3 noDec) b2 with
          | none => exact ⟨by first | rfl | trivial, fun _ _ _ _ h => by cases h⟩
          | some r3 =>
            obtain ⟨a, b3⟩ := r3
            have hb3 := (hg 3 b2 hb2).2 a b3 h3
            refine ⟨by first | rfl | trivial, ?_⟩
            intro i' rev' cache' bits' h
            simp only at h
            injection h with h
            injection h with _ h; injection h with _ h; injection h with _ h
            rw [← h]; exact hb3
    · rw [if_neg hs, if_neg hs]
      by_cases hs2 : s < 256 + 24
      · rw [if_pos hs2, if_pos hs2]
        cases hp : prefixValue (s - 256) b0 with
        | none => exact ⟨by first | rfl | trivial, fun _ _ _ _ h => by cases h⟩
        | some rp =>
          obtain ⟨len, bp⟩ := rp
          have hbp := prefixValue_rest _ b0 len bp hp hb0
          simp only
          rw [(hg 4 bp hbp).1]
          cases h4 : (g2.getD 4 noDec) bp with
          | none => exact ⟨by first | rfl | trivial, fun _ _ _ _ h => by cases h⟩
          | some r4 =>
            obtain ⟨ds, b4⟩ := r4
            have hb4 := (hg 4 bp hbp).2 ds b4 h4
            simp only
            cases hq : prefixValue ds b4 with
            | none => exact ⟨by first | rfl | trivial, fun _ _ _ _ h => by cases h⟩
            | some rq =>
              obtain ⟨dcode, bq⟩ := rq
              have hbq := prefixValue_rest _ b4 dcode bq hq hb4
              refine ⟨by first | rfl | trivial, ?_⟩
              intro i' rev' cache' bits' h
              simp only at h
              split at h
              · cases h
              · injection h with h
                injection h with _ h; injection h with _ h; injection h with _ h
                rw [← h]; exact hbq
      · rw [if_neg hs2, if_neg hs2]
        refine ⟨by first | rfl | trivial, ?_⟩
        intro i' rev' cache' bits' h
        split at h
        · cases h
        · split at h
          · cases h
          · injection h with h
            injection h with _ h; injection h with _ h; injection h with _ h
            rw [← h]; exact hb0

end LStreamProof
