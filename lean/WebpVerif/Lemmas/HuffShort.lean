import WebpVerif.Lemmas.HuffTotal

/-!
`read_symbol` against the specification on bit strings of ANY length, including the last few
bits of the data where fewer bits are left than the longest code word: the reader peeks a
zero-padded word and fails in `consume` exactly when the specification runs out of bits.
-/
namespace Huff
open Prefix

theorem lsbVal_zeros (n : Nat) : lsbVal (List.replicate n 0) = 0 := by
  induction n with
  | zero => rfl
  | succ n ih => simp [List.replicate_succ, lsbVal, ih]

theorem peek16_pad (bits : List Nat) (n : Nat) : peek16 (bits ++ List.replicate n 0) = peek16 bits := by
  unfold peek16
  rw [List.take_append, lsbVal_append, List.take_replicate, lsbVal_zeros, Nat.mul_zero, Nat.add_zero]

theorem msbBits_msbVal : ∀ (a : List Nat), (∀ b ∈ a, b < 2) → msbBits (msbVal 0 a) a.length = a := by
  intro a
  induction a using List.reverseRecOn with
  | nil => intro _; rfl
  | append_singleton q x ih =>
    intro h
    have hx : x < 2 := h x (by simp)
    have hq := ih (fun b hb => h b (by simp [hb]))
    rw [msbVal_snoc, List.length_append, List.length_singleton, msbBits_snoc]
    have e1 : (2 * msbVal 0 q + x) / 2 = msbVal 0 q := by omega
    have e2 : (2 * msbVal 0 q + x) % 2 = x := by omega
    rw [e1, e2, hq]

theorem msbBits_take (c l k : Nat) (hk : k ≤ l) : (msbBits c l).take k = msbBits (c / 2 ^ (l - k)) k := by
  have := msbBits_split c (l - k) k
  rw [show k + (l - k) = l by omega] at this
  rw [this, List.take_left' (msbBits_length _ _)]

/-- **Part 1, every length**: a `Good` structure reads what the specification reads on every bit
    string -/
theorem readSym_good_all (t : HT) (ls : List Nat) (hgood : Good t ls) (hall : ∀ l ∈ ls, l ≤ 15)
    (hfit : ∀ s c, canonicalCode ls s = some c → c < 2 ^ ls.getD s 0)
    (L : Nat) (hL1 : 1 ≤ L) (hL : L ≤ 15)
    (hend : blockEnd ls L = 2 ^ L) (bits : List Nat) (hb : ∀ b ∈ bits, b < 2) :
    readSym (.ok t) bits = decodeSym ls 15 0 0 bits := by
  -- the zero-padded stream
  have hbp : ∀ b ∈ bits ++ List.replicate 15 0, b < 2 := by
    intro b hb'
    rcases List.mem_append.mp hb' with h | h
    · exact hb b h
    · rw [List.mem_replicate] at h; omega
  obtain ⟨s, restp, hdec⟩ := decodeSym_total ls L hL1 hend 15 0 0 (bits ++ List.replicate 15 0) (by omega)
    (by rw [List.length_append, List.length_replicate]; omega) hbp (by decide) (Nat.le_of_eq rfl)
  obtain ⟨taken, e1, e2, e3⟩ := decodeSym_sound ls 15 0 0 _ s restp hdec
  rw [Nat.zero_add] at e2
  replace e3 : canonicalCode ls s = some (msbVal 0 taken) := e3
  have hs := canonical_some ls s _ e3
  have hl15 : taken.length ≤ 15 := by
    rw [← e2, List.getD_eq_getElem?_getD, List.getElem?_eq_getElem hs.1]
    exact hall _ (List.getElem_mem _)
  have htb : ∀ b ∈ taken, b < 2 := fun b hb' => hbp b (by rw [e1]; exact List.mem_append_left _ hb')
  have hm : Matches ls s (peek16 bits) := by
    refine ⟨_, e3, ?_⟩
    rw [← peek16_pad bits 15, e2, e1, peek16_mod taken restp (by omega) htb]
    exact (reverse_msbVal taken htb).symm
  have hlook := hgood s (peek16 bits) (peek16_lt bits hb) hm
  unfold readSym
  simp only [hlook]
  have htk : taken = msbBits (msbVal 0 taken) taken.length := (msbBits_msbVal taken htb).symm
  by_cases hlen : bits.length < ls.getD s 0
  · rw [if_pos hlen]
    -- the specification runs out of bits too
    cases hd : decodeSym ls 15 0 0 bits with
    | none => rfl
    | some r =>
      exfalso
      obtain ⟨s', r'⟩ := r
      obtain ⟨taken', f1, f2, f3⟩ := decodeSym_sound ls 15 0 0 bits s' r' hd
      rw [Nat.zero_add] at f2
      replace f3 : canonicalCode ls s' = some (msbVal 0 taken') := f3
      have hlt : taken'.length < taken.length := by
        have : taken'.length ≤ bits.length := by rw [f1, List.length_append]; omega
        omega
      -- taken' is the beginning of taken
      have hpre : taken' = taken.take taken'.length := by
        have h1 : (bits ++ List.replicate 15 0).take taken'.length = taken' := by
          rw [f1, List.append_assoc, List.take_left' rfl]
        have h2 : (bits ++ List.replicate 15 0).take taken'.length = taken.take taken'.length := by
          rw [e1, List.take_append_of_le_length (by omega)]
        exact h1.symm.trans h2
      have htb' : ∀ b ∈ taken', b < 2 := fun b hb' => hb b (by rw [f1]; exact List.mem_append_left _ hb')
      have hc' : msbVal 0 taken' = msbVal 0 taken / 2 ^ (taken.length - taken'.length) := by
        have hlt2 : msbVal 0 taken / 2 ^ (taken.length - taken'.length) < 2 ^ taken'.length := by
          apply Nat.div_lt_of_lt_mul
          rw [← Nat.pow_add, show taken.length - taken'.length + taken'.length = taken.length by omega, ← e2]
          exact hfit s _ e3
        conv_lhs => rw [hpre, htk, msbBits_take _ _ _ (by omega)]
        exact msbVal_msbBits _ _ hlt2
      have := prefix_free ls s' s _ _ f3 e3 (by omega) (by rw [e2, f2]; exact hc')
      rw [this] at f2
      omega
  · rw [if_neg hlen]
    -- enough bits: the word of `s` is the beginning of the stream itself
    have htake : taken = bits.take taken.length := by
      have h1 : (bits ++ List.replicate 15 0).take taken.length = taken := by rw [e1, List.take_left' rfl]
      exact h1.symm.trans (List.take_append_of_le_length (by omega))
    have hbits : bits = msbBits (msbVal 0 taken) (ls.getD s 0) ++ bits.drop (ls.getD s 0) := by
      rw [e2, ← htk]
      conv_lhs => rw [← List.take_append_drop taken.length bits, ← htake]
    have := decodeSym_canonical ls s _ 15 e3 (hfit s _ e3) (by omega) (bits.drop (ls.getD s 0))
    rw [← hbits] at this
    rw [this]

/-- `build_ok_spec` without the length restriction -/
theorem build_ok_spec_all (ls : List Nat) (hall : ∀ l ∈ ls, l ≤ 15) (hn : ls.length ≤ 5000) (t : HT) (ht : build ls = .ok t) :
    ∀ bits : List Nat, (∀ b ∈ bits, b < 2) → readSym (build ls) bits = decodeSymbol ls bits := by
  obtain ⟨hgood, hnum, L, hL1, hL15, hmax, hend⟩ := build_good ls hall hn t ht
  intro bits hb
  rw [ht]
  unfold decodeSymbol
  rw [if_neg (by omega)]
  exact readSym_good_all t ls hgood hall (fun s c hs => code_fits ls L hend s c hs (by
      obtain ⟨s1, _, _⟩ := canonical_some ls s c hs
      exact hmax _ (getD_mem ls s s1))) L hL1 hL15 hend bits hb

end Huff
