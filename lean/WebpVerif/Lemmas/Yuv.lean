import WebpVerif.Model.Yuv
import WebpVerif.Spec.Yuv
import Mathlib.Tactic.NormNum
import Mathlib.Tactic.IntervalCases

namespace Yuv

theorem clip_eq (v : Int) : (clip v : Int) = YuvSpec.clip8 v := by
  unfold clip YuvSpec.clip8 YuvSpec.yuvMask2 Gen.Libwebp.YUV_FIX2
  rw [Int.shiftRight_eq_div_pow]
  norm_num
  split <;> omega

theorem mulhi_eq (v c : Nat) : mulhi v c = YuvSpec.multHi v c := by
  unfold mulhi YuvSpec.multHi
  rw [Nat.shiftRight_eq_div_pow]
  simp

theorem r_eq (y v : Nat) : (r y v : Int) = YuvSpec.toR y v := by
  unfold r YuvSpec.toR
  rw [clip_eq, mulhi_eq, mulhi_eq]
  simp only [Gen.Libwebp.kYScale, Gen.Libwebp.kVToR, Gen.Libwebp.kRCst]
  congr 1

theorem g_eq (y u v : Nat) : (g y u v : Int) = YuvSpec.toG y u v := by
  unfold g YuvSpec.toG
  rw [clip_eq, mulhi_eq, mulhi_eq, mulhi_eq]
  simp only [Gen.Libwebp.kYScale, Gen.Libwebp.kUToG, Gen.Libwebp.kVToG, Gen.Libwebp.kGCst]

theorem b_eq (y u : Nat) : (b y u : Int) = YuvSpec.toB y u := by
  unfold b YuvSpec.toB
  rw [clip_eq, mulhi_eq, mulhi_eq]
  simp only [Gen.Libwebp.kYScale, Gen.Libwebp.kUToB, Gen.Libwebp.kBCst]
  congr 1

end Yuv

namespace Yuv

theorem fillRgbRow_length (ys us vs out : List Nat) : (fillRgbRow ys us vs out).length = out.length := by
  fun_induction fillRgbRow ys us vs out <;> simp_all

theorem fillRgbaRow_length (ys us vs out : List Nat) : (fillRgbaRow ys us vs out).length = out.length := by
  fun_induction fillRgbaRow ys us vs out <;> simp_all

/-- every pixel `x` of a row written by `fill_rgb_row` is the kernel applied to luma `x` and
    chroma `x / 2`: first of a pair, second of a pair and the odd tail alike -/
theorem fillRgbRow_get (ys us vs out : List Nat)
    (hlen : out.length = 3 * ys.length)
    (hu : (ys.length + 1) / 2 ≤ us.length) (hv : (ys.length + 1) / 2 ≤ vs.length)
    (x c : Nat) (hx : x < ys.length) (hc : c < 3) :
    (fillRgbRow ys us vs out)[3 * x + c]? =
      some (rgb c (ys.getD x 0) (us.getD (x / 2) 0) (vs.getD (x / 2) 0)) := by
  fun_induction fillRgbRow ys us vs out generalizing x with
  | case1 y0 y1 ys u us v vs o0 o1 o2 o3 o4 o5 out ih =>
    simp only [List.length_cons] at hlen hu hv hx
    match x with
    | 0 => interval_cases c <;> simp [rgb]
    | 1 => interval_cases c <;> simp [rgb]
    | x + 2 =>
      have h1 : 3 * (x + 2) + c = (3 * x + c) + 6 := by omega
      have h2 : (x + 2) / 2 = x / 2 + 1 := by omega
      rw [h1, h2]
      simp only [List.getElem?_cons_succ, List.getD_cons_succ]
      exact ih (by omega) (by omega) (by omega) x (by omega)
  | case2 y u us v vs o0 o1 o2 out =>
    simp only [List.length_cons, List.length_nil] at hx
    have : x = 0 := by omega
    subst this
    interval_cases c <;> simp [rgb]
  | case3 ys us vs out h1 h2 =>
    exfalso
    -- with the length hypotheses one of the first two patterns always applies
    match ys, us, vs, out, hlen, hu, hv, hx with
    | [y], u :: us, v :: vs, o0 :: o1 :: o2 :: out, _, _, _, _ => exact h2 _ _ _ _ _ _ _ _ _ rfl rfl rfl rfl
    | y0 :: y1 :: ys, u :: us, v :: vs, o0 :: o1 :: o2 :: o3 :: o4 :: o5 :: out, _, _, _, _ =>
      exact h1 _ _ _ _ _ _ _ _ _ _ _ _ _ _ rfl rfl rfl rfl
    | [y], [], _, _, _, hu, _, _ => simp at hu
    | [y], _ :: _, [], _, _, _, hv, _ => simp at hv
    | [y], _ :: _, _ :: _, [], hlen, _, _, _ => simp at hlen
    | [y], _ :: _, _ :: _, [_], hlen, _, _, _ => simp at hlen
    | [y], _ :: _, _ :: _, [_, _], hlen, _, _, _ => simp at hlen
    | _ :: _ :: _, [], _, _, _, hu, _, _ => first | (simp at hu; done) | (simp at hu; omega)
    | _ :: _ :: _, _ :: _, [], _, _, _, hv, _ => first | (simp at hv; done) | (simp at hv; omega)
    | _ :: _ :: _, _ :: _, _ :: _, [], hlen, _, _, _ => simp at hlen
    | _ :: _ :: _, _ :: _, _ :: _, [_], hlen, _, _, _ => first | (simp at hlen; done) | (simp at hlen; omega)
    | _ :: _ :: _, _ :: _, _ :: _, [_, _], hlen, _, _, _ => first | (simp at hlen; done) | (simp at hlen; omega)
    | _ :: _ :: _, _ :: _, _ :: _, [_, _, _], hlen, _, _, _ => first | (simp at hlen; done) | (simp at hlen; omega)
    | _ :: _ :: _, _ :: _, _ :: _, [_, _, _, _], hlen, _, _, _ => first | (simp at hlen; done) | (simp at hlen; omega)
    | _ :: _ :: _, _ :: _, _ :: _, [_, _, _, _, _], hlen, _, _, _ => first | (simp at hlen; done) | (simp at hlen; omega)

end Yuv

namespace Yuv

/-- RGBA writer: colour bytes as for RGB, the alpha byte of every pixel keeps its old value -/
theorem fillRgbaRow_get (ys us vs out : List Nat)
    (hlen : out.length = 4 * ys.length)
    (hu : (ys.length + 1) / 2 ≤ us.length) (hv : (ys.length + 1) / 2 ≤ vs.length)
    (x c : Nat) (hx : x < ys.length) (hc : c < 4) :
    (fillRgbaRow ys us vs out)[4 * x + c]? =
      if c = 3 then out[4 * x + 3]?
      else some (rgb c (ys.getD x 0) (us.getD (x / 2) 0) (vs.getD (x / 2) 0)) := by
  fun_induction fillRgbaRow ys us vs out generalizing x with
  | case1 y0 y1 ys u us v vs o0 o1 o2 a0 o4 o5 o6 a1 out ih =>
    simp only [List.length_cons] at hlen hu hv hx
    match x with
    | 0 => interval_cases c <;> simp [rgb]
    | 1 => interval_cases c <;> simp [rgb]
    | x + 2 =>
      have h1 : 4 * (x + 2) + c = (4 * x + c) + 8 := by omega
      have h3 : 4 * (x + 2) + 3 = (4 * x + 3) + 8 := by omega
      have h2 : (x + 2) / 2 = x / 2 + 1 := by omega
      rw [h1, h2, h3]
      simp only [List.getElem?_cons_succ, List.getD_cons_succ]
      exact ih (by omega) (by omega) (by omega) x (by omega)
  | case2 y u us v vs o0 o1 o2 out =>
    simp only [List.length_cons, List.length_nil] at hx hlen
    have : x = 0 := by omega
    subst this
    interval_cases c <;> simp [rgb]
  | case3 ys us vs out h1 h2 =>
    exfalso
    match ys, us, vs, out, hlen, hu, hv, hx with
    | [y], u :: us, v :: vs, o0 :: o1 :: o2 :: out, _, _, _, _ => exact h2 _ _ _ _ _ _ _ _ _ rfl rfl rfl rfl
    | y0 :: y1 :: ys, u :: us, v :: vs, o0 :: o1 :: o2 :: o3 :: o4 :: o5 :: o6 :: o7 :: out, _, _, _, _ =>
      exact h1 _ _ _ _ _ _ _ _ _ _ _ _ _ _ _ _ rfl rfl rfl rfl
    | [y], [], _, _, _, hu, _, _ => simp at hu
    | [y], _ :: _, [], _, _, _, hv, _ => simp at hv
    | [y], _ :: _, _ :: _, [], hlen, _, _, _ => simp at hlen
    | [y], _ :: _, _ :: _, [_], hlen, _, _, _ => simp at hlen
    | [y], _ :: _, _ :: _, [_, _], hlen, _, _, _ => simp at hlen
    | _ :: _ :: _, [], _, _, _, hu, _, _ => first | (simp at hu; done) | (simp at hu; omega)
    | _ :: _ :: _, _ :: _, [], _, _, _, hv, _ => first | (simp at hv; done) | (simp at hv; omega)
    | _ :: _ :: _, _ :: _, _ :: _, [], hlen, _, _, _ => simp at hlen
    | _ :: _ :: _, _ :: _, _ :: _, [_], hlen, _, _, _ => first | (simp at hlen; done) | (simp at hlen; omega)
    | _ :: _ :: _, _ :: _, _ :: _, [_, _], hlen, _, _, _ => first | (simp at hlen; done) | (simp at hlen; omega)
    | _ :: _ :: _, _ :: _, _ :: _, [_, _, _], hlen, _, _, _ => first | (simp at hlen; done) | (simp at hlen; omega)
    | _ :: _ :: _, _ :: _, _ :: _, [_, _, _, _], hlen, _, _, _ => first | (simp at hlen; done) | (simp at hlen; omega)
    | _ :: _ :: _, _ :: _, _ :: _, [_, _, _, _, _], hlen, _, _, _ => first | (simp at hlen; done) | (simp at hlen; omega)
    | _ :: _ :: _, _ :: _, _ :: _, [_, _, _, _, _, _], hlen, _, _, _ => first | (simp at hlen; done) | (simp at hlen; omega)
    | _ :: _ :: _, _ :: _, _ :: _, [_, _, _, _, _, _, _], hlen, _, _, _ => first | (simp at hlen; done) | (simp at hlen; omega)

/-- row `j` of the frame writers is the row writer applied to luma row `y0 + j`, the chroma
    planes from `cw·((y0+j)/2)` on, and the `j`-th `bpp·w`-byte slice of the buffer -/
theorem fillRows_get (rowFn : List Nat → List Nat → List Nat → List Nat → List Nat)
    (hrow : ∀ ys us vs o, (rowFn ys us vs o).length = o.length)
    (bpp w cw : Nat) (ybuf ubuf vbuf : List Nat) (n y0 : Nat) (buf : List Nat)
    (hbuf : buf.length = bpp * w * n) (j : Nat) (hj : j < n) (k : Nat) (hk : k < bpp * w) :
    (fillRows rowFn bpp w cw ybuf ubuf vbuf n y0 buf)[j * (bpp * w) + k]? =
      (rowFn ((ybuf.drop ((y0 + j) * w)).take w) (ubuf.drop (cw * ((y0 + j) / 2)))
        (vbuf.drop (cw * ((y0 + j) / 2))) ((buf.drop (j * (bpp * w))).take (bpp * w)))[k]? := by
  induction n generalizing y0 buf j with
  | zero => omega
  | succ n ih =>
    unfold fillRows
    have hmul : bpp * w * (n + 1) = bpp * w * n + bpp * w := by rw [Nat.mul_succ]
    have htake : (buf.take (bpp * w)).length = bpp * w := by
      rw [List.length_take]; omega
    match j with
    | 0 =>
      simp only [Nat.zero_mul, Nat.zero_add, Nat.add_zero, List.drop_zero]
      rw [List.getElem?_append_left]
      rw [hrow, htake]; exact hk
    | j + 1 =>
      have hidx : (j + 1) * (bpp * w) + k = (bpp * w) + (j * (bpp * w) + k) := by
        rw [Nat.succ_mul]; omega
      rw [hidx, List.getElem?_append_right (by rw [hrow, htake]; omega)]
      rw [hrow, htake, Nat.add_sub_cancel_left]
      rw [ih (y0 + 1) (buf.drop (bpp * w)) (by rw [List.length_drop]; omega) j (by omega)]
      have e1 : y0 + 1 + j = y0 + (j + 1) := by omega
      have e2 : (j + 1) * (bpp * w) = bpp * w + j * (bpp * w) := by rw [Nat.succ_mul]; omega
      rw [e1, List.drop_drop, e2]

theorem getD_drop_take (l : List Nat) (a w x : Nat) (hx : x < w) :
    ((l.drop a).take w).getD x 0 = l.getD (a + x) 0 := by
  simp [List.getD_eq_getElem?_getD, List.getElem?_take, hx]

theorem getD_drop (l : List Nat) (a x : Nat) : (l.drop a).getD x 0 = l.getD (a + x) 0 := by
  simp [List.getD_eq_getElem?_getD]

end Yuv
