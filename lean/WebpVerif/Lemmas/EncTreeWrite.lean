import WebpVerif.Lemmas.EncTree
import WebpVerif.Lemmas.BitWriter

/-!
Part 4 of the code-length parse-back: `Enc.writeHuffmanTree` writes exactly the fields
`EncTree.treeFields` (or `singleFields`), and the bytes `BitWriter` delivers for a field list are,
read LSB first, the fields' bits followed by zero padding.
-/
namespace EncTree
open Prefix Enc EncHuff BitWriterProof

/-- a sequence of `write_bits` calls -/
def writeAll (w : BW) (ws : List (Nat × Nat)) : BW := ws.foldl (fun w x => w.write x.1 x.2) w

theorem writeAll_append (w : BW) (a b : List (Nat × Nat)) : writeAll w (a ++ b) = writeAll (writeAll w a) b :=
  List.foldl_append ..

theorem writeAll_cons (w : BW) (v n : Nat) (ws : List (Nat × Nat)) : writeAll w ((v, n) :: ws) = writeAll (w.write v n) ws := rfl

theorem writeAll_nil (w : BW) : writeAll w [] = w := rfl

/-- the fields of `write_single_entry_huffman_tree(symbol)` -/
def singleFields (symbol : Nat) : List (Nat × Nat) :=
  (1, 2) :: (if symbol ≤ 1 then [(0, 1), (symbol, 1)] else [(1, 1), (symbol, 8)])

theorem writeSingle_fields (w : BW) (symbol : Nat) : writeSingle w symbol = writeAll w (singleFields symbol) := by
  unfold writeSingle singleFields
  by_cases h : symbol ≤ 1
  · rw [if_pos h, if_pos h, writeAll_cons, writeAll_cons, writeAll_cons, writeAll_nil]
  · rw [if_neg h, if_neg h, writeAll_cons, writeAll_cons, writeAll_cons, writeAll_nil]

/-- the `.built` arm of `Enc.writeHuffmanTree` with the code-length code as a parameter -/
def builtArm (w : BW) (n : Nat) (lengths : Array Nat) (t : Bool × Array Nat × Array Nat) : BW :=
  let w := (w.write 0 1).write (19 - 4) 4
  let w := codeLengthOrder.foldl (fun w i =>
    if i > 15 ∨ (clFreqOf lengths.toList).getD i 0 = 0 then w.write 0 3
    else if t.1 then w.write 1 3
    else w.write t.2.1[i]! 3) w
  let w := if n = 256 then ((w.write 1 1).write 3 3).write 254 8 else w.write 0 1
  if t.1 then w else lengths.foldl (fun w len => w.write t.2.2[len]! t.2.1[len]!) w

def treeFieldsT (n : Nat) (lengths : List Nat) (t : Bool × Array Nat × Array Nat) : List (Nat × Nat) :=
  [(0, 1), (15, 4)] ++ Enc.codeLengthOrder.map (fun i => (gField (clFreqOf lengths) t.1 t.2.1 i, 3)) ++
  (if n = 256 then [(1, 1), (3, 3), (254, 8)] else [(0, 1)]) ++
  (if t.1 then [] else lengths.map fun len => (t.2.2[len]!, t.2.1[len]!))

theorem builtArm_fields (w : BW) (n : Nat) (lengths : Array Nat) (t : Bool × Array Nat × Array Nat) :
    builtArm w n lengths t = writeAll w (treeFieldsT n lengths.toList t) := by
  have hfold : ∀ (w : BW),
      codeLengthOrder.foldl (fun w i =>
        if i > 15 ∨ (clFreqOf lengths.toList).getD i 0 = 0 then w.write 0 3
        else if t.1 then w.write 1 3 else w.write t.2.1[i]! 3) w =
      writeAll w (codeLengthOrder.map fun i => (gField (clFreqOf lengths.toList) t.1 t.2.1 i, 3)) := by
    intro w
    unfold writeAll
    rw [List.foldl_map]
    congr 1
    funext w i
    unfold gField
    split
    · rfl
    · split <;> rfl
  have hsyms : ∀ (w : BW),
      lengths.foldl (fun w len => w.write t.2.2[len]! t.2.1[len]!) w =
      writeAll w (lengths.toList.map fun len => (t.2.2[len]!, t.2.1[len]!)) := by
    intro w
    unfold writeAll
    rw [List.foldl_map, ← Array.foldl_toList]
  unfold builtArm treeFieldsT
  simp only
  rw [hfold, writeAll_append, writeAll_append, writeAll_append, writeAll_cons, writeAll_cons, writeAll_nil]
  have h256 : (if n = 256 then (((writeAll ((w.write 0 1).write (19 - 4) 4)
        (codeLengthOrder.map fun i => (gField (clFreqOf lengths.toList) t.1 t.2.1 i, 3))).write 1 1).write 3 3).write 254 8
      else (writeAll ((w.write 0 1).write (19 - 4) 4)
        (codeLengthOrder.map fun i => (gField (clFreqOf lengths.toList) t.1 t.2.1 i, 3))).write 0 1) =
      writeAll (writeAll ((w.write 0 1).write 15 4)
        (codeLengthOrder.map fun i => (gField (clFreqOf lengths.toList) t.1 t.2.1 i, 3)))
        (if n = 256 then [(1, 1), (3, 3), (254, 8)] else [(0, 1)]) := by
    by_cases h : n = 256
    · rw [if_pos h, if_pos h, writeAll_cons, writeAll_cons, writeAll_cons, writeAll_nil]
    · rw [if_neg h, if_neg h, writeAll_cons, writeAll_nil]
  rw [h256]
  by_cases h1 : t.1 = true
  · rw [if_pos h1, if_pos h1, writeAll_nil]
  · rw [if_neg h1, if_neg h1, hsyms]

/-- **`write_huffman_tree` writes `treeFields`** when the histogram has two or more used symbols -/
theorem write_tree_fields (w : BW) (freqs : List Nat) (lengths codes : Array Nat)
    (hb : build freqs 15 = .built lengths codes) :
    writeHuffmanTree w freqs = (writeAll w (treeFields freqs.length lengths.toList), lengths, codes) := by
  have h1 : writeHuffmanTree w freqs = (builtArm w freqs.length lengths (clOf lengths.toList), lengths, codes) := by
    unfold writeHuffmanTree
    rw [hb]
    rfl
  rw [h1, builtArm_fields]
  rfl

/-! ### the fields are well formed (each value fits its width) -/

theorem reverseBits_lt (c n : Nat) : reverseBits c n < 2 ^ n := by
  have h := Huff.reverse_mod n 0 c
  rw [Nat.add_zero] at h
  have : reverseBits c n % 2 ^ n < 2 ^ n := Nat.mod_lt _ (Nat.two_pow_pos _)
  have e : reverseBits c n % 2 ^ n = reverseBits c n := by rw [h, Nat.pow_zero, Nat.div_one]
  omega

theorem head_valid : Valid [(0, 1), (15, 4)] := by
  intro x hx
  simp only [List.mem_cons, List.not_mem_nil, or_false] at hx
  rcases hx with rfl | rfl <;> decide

theorem max_valid (n : Nat) : Valid (if n = 256 then [(1, 1), (3, 3), (254, 8)] else [(0, 1)]) := by
  intro x hx
  split at hx
  · simp only [List.mem_cons, List.not_mem_nil, or_false] at hx
    rcases hx with rfl | rfl | rfl <;> decide
  · simp only [List.mem_cons, List.not_mem_nil, or_false] at hx
    subst hx; decide

theorem valid_append (a b : List (Nat × Nat)) (ha : Valid a) (hb : Valid b) : Valid (a ++ b) := by
  intro x hx
  rcases List.mem_append.mp hx with h | h
  · exact ha x h
  · exact hb x h

/-- **Every field `write_huffman_tree` writes fits its width** (so none corrupts its neighbours in
    the 64-bit buffer) -/
theorem treeFields_valid (n : Nat) (lengths : List Nat) (hn1 : lengths.length ≤ 5000) (h15 : ∀ l ∈ lengths, l ≤ 15) :
    Valid (treeFields n lengths) := by
  have hflen : (clFreqOf lengths).length = 16 := by simp [clFreqOf]
  by_cases h1 : ((clFreqOf lengths).filter (· > 0)).length ≤ 1
  · have hcl : clOf lengths = (true, Array.replicate 16 0, Array.replicate 16 0) := by
      unfold clOf build; rw [if_pos h1]
    unfold treeFields
    rw [hcl]
    simp only [if_true, List.append_nil]
    refine valid_append _ _ (valid_append _ _ head_valid ?_) (max_valid n)
    intro x hx
    obtain ⟨i, _, rfl⟩ := List.mem_map.mp hx
    refine ⟨by show 3 ≤ 64; omega, ?_⟩
    show gField _ _ _ _ < 2 ^ 3
    unfold gField
    split
    · decide
    · simp
  · have h2 : 2 ≤ ((clFreqOf lengths).filter (· > 0)).length := by omega
    have hfb : ∀ x ∈ clFreqOf lengths, x ≤ 5000 := by
      intro x hx
      unfold clFreqOf at hx
      obtain ⟨l, _, rfl⟩ := List.mem_map.mp hx
      exact Nat.le_trans (List.length_filter_le _ _) (by omega)
    have hsum : (clFreqOf lengths).sum < 2 ^ 32 := by
      have := sum_le_bound 5000 (clFreqOf lengths) hfb
      rw [hflen] at this
      omega
    obtain ⟨clLen, clCode, hb, hsz, hrange, hkraft, hcanon⟩ :=
      build_full_all (clFreqOf lengths) 7 (by decide) (by decide) h2 hsum (by rw [hflen]; decide)
    rw [hflen] at hsz hrange hcanon
    have hcl : clOf lengths = (false, clLen, clCode) := by unfold clOf; rw [hb]
    have h7 : ∀ i, i < 16 → clLen[i]! ≤ 7 := by
      intro i hi
      have := hrange i hi
      by_cases hz : (clFreqOf lengths)[i]! = 0
      · rw [this.1 hz]; omega
      · exact (this.2 (by omega)).2
    unfold treeFields
    rw [hcl]
    simp only [Bool.false_eq_true, if_false]
    refine valid_append _ _ (valid_append _ _ (valid_append _ _ head_valid ?_) (max_valid n)) ?_
    · intro x hx
      obtain ⟨i, _, rfl⟩ := List.mem_map.mp hx
      refine ⟨by show 3 ≤ 64; omega, ?_⟩
      show gField _ _ _ _ < 2 ^ 3
      unfold gField
      split
      · decide
      · rename_i hc
        have hi : i < 16 := by omega
        have := h7 i hi
        simp only [Bool.false_eq_true, if_false]
        omega
    · intro x hx
      obtain ⟨len, hlen, rfl⟩ := List.mem_map.mp hx
      have hl15 := h15 len hlen
      have hpos := count_pos_of_mem lengths len hlen hl15
      have hpos' : (clFreqOf lengths)[len]! > 0 := by
        rw [List.getElem!_eq_getElem?_getD, ← List.getD_eq_getElem?_getD]; exact hpos
      have hr := (hrange len (by omega)).2 hpos'
      have hc := hcanon len (by omega) (by omega)
      refine ⟨by show clLen[len]! ≤ 64; omega, ?_⟩
      show clCode[len]! < 2 ^ clLen[len]!
      cases hcc : canonicalCode clLen.toList len with
      | none => rw [hcc] at hc; cases hc
      | some c =>
        rw [hcc, Option.map_some] at hc
        rw [Option.some.inj hc]
        exact reverseBits_lt _ _

theorem singleFields_valid (symbol : Nat) (h : symbol < 256) : Valid (singleFields symbol) := by
  intro x hx
  unfold singleFields at hx
  rw [List.mem_cons] at hx
  rcases hx with rfl | hx
  · decide
  · split at hx
    · simp only [List.mem_cons, List.not_mem_nil, or_false] at hx
      rcases hx with rfl | rfl
      · decide
      · exact ⟨by show 1 ≤ 64; omega, by show symbol < 2 ^ 1; omega⟩
    · simp only [List.mem_cons, List.not_mem_nil, or_false] at hx
      rcases hx with rfl | rfl
      · decide
      · exact ⟨by show 8 ≤ 64; omega, by show symbol < 2 ^ 8; omega⟩

/-! ### the bytes `BitWriter` delivers, as bits -/

/-- the bits of a byte string, LSB first within each byte (the order `BitReader` consumes them) -/
def bytesBits (bs : List Nat) : List Nat := bs.flatMap fun b => lsbBits b 8

theorem bitsVal_append : ∀ (a b : List Nat), bitsVal (a ++ b) = bitsVal a + 2 ^ a.length * bitsVal b := by
  intro a
  induction a with
  | nil => intro b; simp [bitsVal]
  | cons x a ih =>
    intro b
    rw [List.cons_append, bitsVal, bitsVal, ih, List.length_cons, Nat.pow_succ]
    ring

theorem bitsVal_zeros (k : Nat) : bitsVal (List.replicate k 0) = 0 := by
  induction k with
  | zero => rfl
  | succ k ih => rw [List.replicate_succ, bitsVal, ih]

theorem lsbBits_lt (v n : Nat) : ∀ b ∈ lsbBits v n, b < 2 := by
  intro b hb
  unfold lsbBits at hb
  obtain ⟨k, _, rfl⟩ := List.mem_map.mp hb
  exact Nat.mod_lt _ (by decide)

theorem lsbBits_length (v n : Nat) : (lsbBits v n).length = n := by simp [lsbBits]

/-- bit lists of one length with one value are one list -/
theorem bits_unique : ∀ (a b : List Nat), a.length = b.length → (∀ x ∈ a, x < 2) → (∀ x ∈ b, x < 2) →
    bitsVal a = bitsVal b → a = b := by
  intro a
  induction a with
  | nil => intro b h _ _ _; cases b with
    | nil => rfl
    | cons _ _ => simp at h
  | cons x a ih =>
    intro b h ha hb hv
    cases b with
    | nil => simp at h
    | cons y b =>
      rw [bitsVal, bitsVal] at hv
      have hx := ha x List.mem_cons_self
      have hy := hb y List.mem_cons_self
      have e1 : x = y := by omega
      have e2 : bitsVal a = bitsVal b := by omega
      rw [e1, ih b (by simpa using h) (fun z hz => ha z (List.mem_cons_of_mem _ hz))
        (fun z hz => hb z (List.mem_cons_of_mem _ hz)) e2]

theorem fieldBits_lt (ws : List (Nat × Nat)) : ∀ b ∈ fieldBits ws, b < 2 := by
  intro b hb
  unfold fieldBits at hb
  obtain ⟨x, _, hx⟩ := List.mem_flatMap.mp hb
  exact lsbBits_lt _ _ b hx

/-- the fields' bits carry the stream value and the stream length -/
theorem fieldBits_stream (ws : List (Nat × Nat)) (hv : Valid ws) :
    bitsVal (fieldBits ws) = (streamOf ws).1 ∧ (fieldBits ws).length = (streamOf ws).2 := by
  unfold streamOf
  induction ws using List.reverseRecOn with
  | nil => exact ⟨rfl, rfl⟩
  | append_singleton ws x ih =>
    obtain ⟨i1, i2⟩ := ih (fun y hy => hv y (by simp [hy]))
    have hx := (hv x (by simp)).2
    rw [List.foldl_append, fieldBits_append]
    simp only [List.foldl_cons, List.foldl_nil, streamStep]
    have e : fieldBits [x] = lsbBits x.1 x.2 := by simp [fieldBits]
    rw [e, bitsVal_append, List.length_append, lsbBits_length, bitsVal_lsbBits, Nat.mod_eq_of_lt hx, i1, i2]
    exact ⟨by ring, rfl⟩

theorem bytesBits_val : ∀ (bs : List Nat), (∀ b ∈ bs, b < 256) →
    bitsVal (bytesBits bs) = leVal bs ∧ (bytesBits bs).length = 8 * bs.length := by
  intro bs
  induction bs with
  | nil => intro _; exact ⟨rfl, rfl⟩
  | cons b bs ih =>
    intro h
    obtain ⟨i1, i2⟩ := ih (fun y hy => h y (List.mem_cons_of_mem _ hy))
    have hb := h b List.mem_cons_self
    have e : bytesBits (b :: bs) = lsbBits b 8 ++ bytesBits bs := by simp [bytesBits]
    rw [e, bitsVal_append, List.length_append, lsbBits_length, bitsVal_lsbBits, Nat.mod_eq_of_lt (by omega), i1, i2,
      leVal_cons, List.length_cons]
    exact ⟨by norm_num, by omega⟩

theorem bytesBits_lt (bs : List Nat) : ∀ b ∈ bytesBits bs, b < 2 := by
  intro b hb
  unfold bytesBits at hb
  obtain ⟨x, _, hx⟩ := List.mem_flatMap.mp hb
  exact lsbBits_lt _ _ b hx

/-! the delivered bytes are bytes -/

def OutOk (w : BW) : Prop := ∀ b ∈ w.out.toList, b < 256

theorem le8_lt (v : Nat) : ∀ b ∈ le8 v, b < 256 := by
  intro b hb
  unfold le8 at hb
  obtain ⟨k, _, rfl⟩ := List.mem_map.mp hb
  exact Nat.mod_lt _ (by decide)

theorem write_outOk (w : BW) (bits n : Nat) (h : OutOk w) : OutOk (w.write bits n) := by
  unfold BW.write
  simp only
  split
  · intro b hb
    simp only [foldl_push_toList] at hb
    rcases List.mem_append.mp hb with hb | hb
    · exact h b hb
    · exact le8_lt _ b hb
  · exact h

theorem writeAll_outOk (ws : List (Nat × Nat)) : ∀ (w : BW), OutOk w → OutOk (writeAll w ws) := by
  induction ws with
  | nil => intro w h; exact h
  | cons x ws ih => intro w h; exact ih _ (write_outOk w x.1 x.2 h)

theorem flush_bytes (w : BW) (h : OutOk w) : ∀ b ∈ w.flush.toList, b < 256 := by
  unfold BW.flush
  intro b hb
  simp only [foldl_push_toList] at hb
  rcases List.mem_append.mp hb with hb | hb
  · split at hb
    · exact write_outOk w _ _ h b hb
    · exact h b hb
  · exact le8_lt _ b (List.mem_of_mem_take hb)

/-- **The delivered bytes, read LSB first, are the fields' bits followed by zero padding to the
    next byte boundary** -/
theorem output_bits (ws : List (Nat × Nat)) (hv : Valid ws) :
    bytesBits (output ws).toList = fieldBits ws ++ List.replicate (8 * (((streamOf ws).2 + 7) / 8) - (streamOf ws).2) 0 := by
  obtain ⟨o1, o2⟩ := output_spec ws hv
  obtain ⟨f1, f2⟩ := fieldBits_stream ws hv
  have hbytes : ∀ b ∈ (output ws).toList, b < 256 :=
    flush_bytes _ (writeAll_outOk ws BW.empty (by intro b hb; simp [BW.empty] at hb))
  obtain ⟨b1, b2⟩ := bytesBits_val _ hbytes
  apply bits_unique
  · rw [b2, List.length_append, List.length_replicate, f2, Array.length_toList, o2]; omega
  · exact bytesBits_lt _
  · intro x hx
    rcases List.mem_append.mp hx with h | h
    · exact fieldBits_lt _ x h
    · rw [List.mem_replicate] at h; omega
  · rw [b1, o1, bitsVal_append, bitsVal_zeros, f1]; simp

/-! ### the whole statement: a tree written anywhere in a stream is read back there -/

theorem getElem!_toList (a : Array Nat) (i : Nat) (h : i < a.toList.length) : a.toList[i] = a[i]! := by
  rw [Array.getElem!_eq_getD, Array.getD_eq_getD_getElem?, ← Array.getElem?_toList, List.getElem?_eq_getElem h]; rfl

/-- what `build_huffman_tree(…, 15)` returns is a valid length vector in the specification's sense -/
theorem built_valid (freqs : List Nat) (hn : freqs.length ≤ 5000) (hsum : freqs.sum < 2 ^ 32)
    (h2 : 2 ≤ (freqs.filter (· > 0)).length) :
    ∃ lengths codes, build freqs 15 = .built lengths codes ∧ lengths.size = freqs.length ∧
      (∀ l ∈ lengths.toList, l ≤ 15) ∧ validLengths lengths.toList = true := by
  obtain ⟨lengths, codes, hb, hsz, hrange, hkraft, _⟩ :=
    build_full_all freqs 15 (by decide) (by decide) h2 hsum (by have : (5000 : Nat) ≤ 2 ^ 15 := by decide
                                                                omega)
  have hall15 : ∀ l ∈ lengths.toList, l ≤ 15 := by
    intro l hl
    obtain ⟨i, hi, rfl⟩ := List.mem_iff_getElem.mp hl
    rw [getElem!_toList _ _ hi]
    have hi' : i < freqs.length := by simpa [hsz] using hi
    have := hrange i hi'
    by_cases hz : freqs[i]! = 0
    · rw [this.1 hz]; omega
    · exact (this.2 (by omega)).2
  have hused : (lengths.toList.filter (· ≠ 0)).length = (freqs.filter (· > 0)).length := by
    apply used_corr _ _ (by simp [hsz])
    intro i h1 h2'
    rw [getElem!_toList _ _ h1]
    have e2 : freqs[i]! = freqs[i] := by
      rw [List.getElem!_eq_getElem?_getD, List.getElem?_eq_getElem h2']; rfl
    have := hrange i h2'
    rw [e2] at this
    constructor
    · intro hne
      by_cases hz : freqs[i] = 0
      · exact absurd (this.1 hz) hne
      · omega
    · intro hpos
      have := (this.2 hpos).1
      omega
  refine ⟨lengths, codes, hb, hsz, hall15, ?_⟩
  unfold validLengths
  have a1 : lengths.toList.all (· ≤ 15) = true := by rw [List.all_eq_true]; intro l hl; simpa using hall15 l hl
  have a2 : ((lengths.toList.filter (· ≠ 0)).length == 1) = false := by rw [beq_eq_false_iff_ne]; omega
  have a3 : decide ((lengths.toList.filter (· ≠ 0)).length ≥ 2) = true := decide_eq_true (by omega)
  rw [a1, a2, a3, hkraft]; rfl

/-- **A prefix code written anywhere in a stream is read back there.**  `pre` are the fields
    written before `write_huffman_tree(freqs)`, `post` the fields written after it. -/
theorem tree_in_stream (pre post : List (Nat × Nat)) (freqs : List Nat) (hpre : Valid pre) (hpost : Valid post)
    (hn : freqs.length ≤ 5000) (hsum : freqs.sum < 2 ^ 32) (h2 : 2 ≤ (freqs.filter (· > 0)).length) :
    ∃ lengths codes treeBits pad,
      writeHuffmanTree (writeAll BW.empty pre) freqs = (writeAll (writeAll BW.empty pre) (treeFields freqs.length lengths.toList), lengths, codes) ∧
      bytesBits (writeAll (writeHuffmanTree (writeAll BW.empty pre) freqs).1 post).flush.toList =
        fieldBits pre ++ (treeBits ++ (fieldBits post ++ List.replicate pad 0)) ∧
      pad < 8 ∧
      readCodeL freqs.length (treeBits ++ (fieldBits post ++ List.replicate pad 0)) =
        some (lengths.toList, fieldBits post ++ List.replicate pad 0) := by
  obtain ⟨lengths, codes, hb, hsz, hall15, hv⟩ := built_valid freqs hn hsum h2
  have hlen : lengths.toList.length = freqs.length := by simpa using hsz
  have hpos : 1 ≤ freqs.length := by
    have := List.length_filter_le (· > 0) freqs
    omega
  have hw := write_tree_fields (writeAll BW.empty pre) freqs lengths codes hb
  have hT : Valid (treeFields freqs.length lengths.toList) := treeFields_valid _ _ (by omega) hall15
  have hall : Valid (pre ++ (treeFields freqs.length lengths.toList ++ post)) :=
    valid_append _ _ hpre (valid_append _ _ hT hpost)
  refine ⟨lengths, codes, fieldBits (treeFields freqs.length lengths.toList),
    8 * (((streamOf (pre ++ (treeFields freqs.length lengths.toList ++ post))).2 + 7) / 8) -
      (streamOf (pre ++ (treeFields freqs.length lengths.toList ++ post))).2, hw, ?_, ?_,
    parse_back freqs.length lengths.toList hlen hpos hn hall15 hv _⟩
  · rw [hw]
    simp only
    have e : (writeAll (writeAll (writeAll BW.empty pre) (treeFields freqs.length lengths.toList)) post).flush =
        output (pre ++ (treeFields freqs.length lengths.toList ++ post)) := by
      unfold output
      rw [← writeAll_append, ← writeAll_append]
      rfl
    rw [e, output_bits _ hall, fieldBits_append, fieldBits_append]
    simp only [List.append_assoc]
  · omega

end EncTree
