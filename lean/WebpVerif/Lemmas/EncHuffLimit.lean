import WebpVerif.Lemmas.EncHuffTree

/-!
Phase 3 of `build_huffman_tree`: length limiting.  Part 1: what clipping a tree's leaf depths to
the limit does to the Kraft sum (the loop's starting point).
-/
namespace EncHuff

/-- clipped weight of a list of leaf depths: `Σ 2^(L − min(depth, L))` -/
def clipW (L : Nat) (ds : List (Nat × Nat)) : Nat := (ds.map fun p => 2 ^ (L - min p.2 L)).sum
/-- number of leaves at or below the limit level -/
def clipC (L : Nat) (ds : List (Nat × Nat)) : Nat := (ds.filter fun p => L ≤ p.2).length

theorem clipW_append (L : Nat) (a b : List (Nat × Nat)) : clipW L (a ++ b) = clipW L a + clipW L b := by
  simp [clipW]
theorem clipC_append (L : Nat) (a b : List (Nat × Nat)) : clipC L (a ++ b) = clipC L a + clipC L b := by
  simp [clipC]

theorem depths_ge (t : Tree) : ∀ d, ∀ p ∈ depths t d, d ≤ p.2 := by
  induction t with
  | leaf s => intro d p hp; simp [depths] at hp; subst hp; exact Nat.le_refl _
  | node l r ihl ihr =>
    intro d p hp
    simp only [depths, List.mem_append] at hp
    rcases hp with hp | hp
    · have := ihl (d + 1) p hp; omega
    · have := ihr (d + 1) p hp; omega

theorem depths_length (t : Tree) : ∀ d, (depths t d).length = (leaves t).length := by
  intro d; rw [← depths_fst t d, List.length_map]

/-- below the limit level every leaf weighs 1 and counts -/
theorem clip_deep (L : Nat) (t : Tree) : ∀ d, L ≤ d →
    clipW L (depths t d) = (leaves t).length ∧ clipC L (depths t d) = (leaves t).length := by
  intro d hd
  have hge := depths_ge t d
  constructor
  · unfold clipW
    have : (depths t d).map (fun p => 2 ^ (L - min p.2 L)) = (depths t d).map (fun _ => 1) := by
      apply List.map_congr_left
      intro p hp
      have := hge p hp
      rw [Nat.min_eq_right (by omega), Nat.sub_self]; rfl
    rw [this]; simp [depths_length]
  · unfold clipC
    rw [List.filter_eq_self.mpr (fun p hp => by have := hge p hp; simpa using (by omega : L ≤ p.2)), depths_length]

/-- **Clipping a subtree rooted above the limit level**: the clipped weight is at least the
    node's code space; it exceeds it iff some leaf lies deeper than the limit, and then by at most
    (number of leaves at the limit level) − 1 -/
theorem clip_tree (L : Nat) (t : Tree) : ∀ d, d ≤ L →
    2 ^ (L - d) ≤ clipW L (depths t d) ∧
    ((∃ p ∈ depths t d, L < p.2) → 2 ^ (L - d) < clipW L (depths t d)) ∧
    (2 ^ (L - d) < clipW L (depths t d) → clipW L (depths t d) - 2 ^ (L - d) + 1 ≤ clipC L (depths t d)) := by
  induction t with
  | leaf s =>
    intro d hd
    simp only [depths, clipW, clipC, List.map_cons, List.map_nil, List.sum_cons, List.sum_nil, Nat.add_zero]
    rw [Nat.min_eq_left hd]
    refine ⟨Nat.le_refl _, ?_, fun h => absurd h (Nat.lt_irrefl _)⟩
    rintro ⟨p, hp, hlt⟩
    simp at hp; subst hp; simp only at hlt; omega
  | node l r ihl ihr =>
    intro d hd
    simp only [depths]
    rw [clipW_append, clipC_append]
    by_cases hdl : d = L
    · -- the node sits exactly at the limit level: all its leaves are clipped
      subst hdl
      obtain ⟨wl, cl⟩ := clip_deep d l (d + 1) (by omega)
      obtain ⟨wr, cr⟩ := clip_deep d r (d + 1) (by omega)
      have pl := leaves_pos l
      have pr := leaves_pos r
      rw [wl, wr, cl, cr, Nat.sub_self]
      exact ⟨by simp; omega, fun _ => by simp; omega, fun _ => by simp; omega⟩
    · obtain ⟨l1, l2, l3⟩ := ihl (d + 1) (by omega)
      obtain ⟨r1, r2, r3⟩ := ihr (d + 1) (by omega)
      have hpow : 2 ^ (L - d) = 2 ^ (L - (d + 1)) + 2 ^ (L - (d + 1)) := by
        rw [show L - d = (L - (d + 1)) + 1 by omega, Nat.pow_succ]; omega
      refine ⟨by omega, ?_, ?_⟩
      · rintro ⟨p, hp, hlt⟩
        rcases List.mem_append.mp hp with hp | hp
        · have := l2 ⟨p, hp, hlt⟩; omega
        · have := r2 ⟨p, hp, hlt⟩; omega
      · intro hgt
        by_cases hl : 2 ^ (L - (d + 1)) < clipW L (depths l (d + 1))
        · have := l3 hl
          by_cases hr : 2 ^ (L - (d + 1)) < clipW L (depths r (d + 1))
          · have := r3 hr; omega
          · omega
        · have hr : 2 ^ (L - (d + 1)) < clipW L (depths r (d + 1)) := by omega
          have := r3 hr; omega

/-! ### Part 2: sums over the lengths array = sums over the tree's leaves -/

theorem sum_map_zero_filter (l : List Nat) (f : Nat → Nat) (P : Nat → Bool) (h : ∀ i ∈ l, P i = false → f i = 0) :
    (l.map f).sum = ((l.filter P).map f).sum := by
  induction l with
  | nil => rfl
  | cons x l ih =>
    have ih' := ih (fun i hi => h i (List.mem_cons_of_mem _ hi))
    by_cases hx : P x = true
    · simp only [List.map_cons, List.sum_cons, List.filter_cons, hx, if_true, ih']
    · have : P x = false := by simpa using hx
      simp only [List.map_cons, List.sum_cons, List.filter_cons, this, Bool.false_eq_true, if_false, ih',
        h x (List.mem_cons_self ..) this, Nat.zero_add]

/-- a sum over all symbols of a function of the length that vanishes at 0 is the same sum over
    the leaves of the tree -/
theorem sum_over_used (freqs : List Nat) (l r : Tree) (lengths : Array Nat)
    (hp : (leaves (.node l r)).Perm (usedIdx freqs)) (hl : LengthsOf freqs (.node l r) lengths)
    (g : Nat → Nat) (hg0 : g 0 = 0) :
    (lengths.toList.map g).sum = ((depths (.node l r) 0).map fun p => g p.2).sum := by
  rw [toList_range, List.map_map, hl.size]
  rw [sum_map_zero_filter (List.range freqs.length) (g ∘ fun i => lengths[i]!) (fun i => decide (freqs[i]! > 0))
    (fun i hi hf => by
      simp only [Function.comp]
      rw [hl.unused i (fun hm => (of_decide_eq_false hf) ((mem_usedIdx freqs i).mp hm).2), hg0])]
  rw [← usedIdx_eq]
  have hperm : ((depths (.node l r) 0).map Prod.fst).Perm (usedIdx freqs) := by rw [depths_fst]; exact hp
  rw [← (hperm.map _).sum_nat, List.map_map]
  congr 1
  apply List.map_congr_left
  intro p hpm
  simp only [Function.comp]
  rw [hl.used p hpm]

/-! ### Part 3: the level counts -/

theorem get_modify (a : Array Nat) (i j : Nat) (f : Nat → Nat) :
    (a.modify i f)[j]! = if j = i ∧ i < a.size then f a[j]! else a[j]! := by
  rw [Array.getElem!_eq_getD, Array.getD_eq_getD_getElem?, Array.getElem?_modify]
  by_cases h : i = j
  · subst h
    by_cases h2 : i < a.size
    · rw [if_pos rfl, if_pos ⟨rfl, h2⟩, Array.getElem?_eq_getElem h2, getElem!_pos a i h2]; rfl
    · rw [if_pos rfl, if_neg (fun hh => h2 hh.2), Array.getElem?_eq_none (by omega)]
      rw [Array.getElem!_eq_getD, Array.getD_eq_getD_getElem?, Array.getElem?_eq_none (by omega)]; rfl
  · rw [if_neg h, if_neg (fun hh => h hh.1.symm), Array.getElem!_eq_getD, Array.getD_eq_getD_getElem?]

theorem countLengths_spec (lengths : Array Nat) (limit : Nat) (hl : limit ≤ 15) :
    (countLengths lengths limit).size = 16 ∧
    ∀ k, (countLengths lengths limit)[k]! = ((lengths.toList.map fun l => min l limit).count k) := by
  unfold countLengths
  rw [← Array.foldl_toList]
  generalize lengths.toList = ls
  have : ∀ (ls : List Nat) (c : Array Nat), c.size = 16 →
      (ls.foldl (fun c l => c.modify (min l limit) (· + 1)) c).size = 16 ∧
      ∀ k, (ls.foldl (fun c l => c.modify (min l limit) (· + 1)) c)[k]! = c[k]! + (ls.map fun l => min l limit).count k := by
    intro ls
    induction ls with
    | nil => intro c hc; exact ⟨hc, fun k => by simp⟩
    | cons x ls ih =>
      intro c hc
      rw [List.foldl_cons]
      obtain ⟨i1, i2⟩ := ih (c.modify (min x limit) (· + 1)) (by rw [Array.size_modify]; exact hc)
      refine ⟨i1, fun k => ?_⟩
      rw [i2 k, get_modify, hc, List.map_cons, List.count_cons]
      by_cases hk : k = min x limit
      · have : min x limit < 16 := by omega
        rw [if_pos ⟨hk, this⟩]
        simp only [hk, beq_self_eq_true, if_true]; omega
      · rw [if_neg (fun h => hk h.1)]
        have : (min x limit == k) = false := by simp; omega
        simp only [this, Bool.false_eq_true, if_false, Nat.add_zero]
  obtain ⟨a, b⟩ := this ls (Array.replicate 16 0) (by simp)
  refine ⟨a, fun k => ?_⟩
  rw [b k]
  by_cases hk : k < 16
  · simp [hk]
  · rw [Array.getElem!_eq_getD, Array.getD_eq_getD_getElem?, Array.getElem?_eq_none (by simp; omega)]; simp

theorem sum_map_add' (l : List Nat) (f g : Nat → Nat) : (l.map fun k => f k + g k).sum = (l.map f).sum + (l.map g).sum := by
  induction l with
  | nil => rfl
  | cons x l ih => simp only [List.map_cons, List.sum_cons, ih]; omega

/-- weighted histogram sum = sum over the elements in range -/
theorem hist_sum (w : Nat → Nat) (L : Nat) : ∀ (m : List Nat),
    ((List.range L).map fun k => m.count (k + 1) * w (k + 1)).sum =
      (m.map fun x => if 1 ≤ x ∧ x ≤ L then w x else 0).sum := by
  intro m
  induction m with
  | nil => simp
  | cons x m ih =>
    rw [List.map_cons, List.sum_cons, ← ih]
    have : ∀ k, (x :: m).count (k + 1) * w (k + 1) = m.count (k + 1) * w (k + 1) + (if x = k + 1 then w (k + 1) else 0) := by
      intro k
      rw [List.count_cons]
      by_cases h : x = k + 1
      · simp [h]; ring
      · have : (x == k + 1) = false := by simpa using h
        simp [h, this]
    simp only [this]
    rw [sum_map_add']
    have hpt : ((List.range L).map fun k => if x = k + 1 then w (k + 1) else 0).sum = if 1 ≤ x ∧ x ≤ L then w x else 0 := by
      clear ih this
      induction L with
      | zero => simp; omega
      | succ L ihL =>
        rw [List.range_succ, List.map_append, List.sum_append, ihL]
        simp only [List.map_cons, List.map_nil, List.sum_cons, List.sum_nil, Nat.add_zero]
        by_cases h1 : x = L + 1
        · subst h1
          rw [if_neg (by omega), if_pos rfl, if_pos ⟨by omega, Nat.le_refl _⟩]; omega
        · rw [if_neg h1, Nat.add_zero]
          by_cases h2 : 1 ≤ x ∧ x ≤ L
          · rw [if_pos h2, if_pos ⟨h2.1, by omega⟩]
          · rw [if_neg h2, if_neg (by omega)]
    rw [hpt]; omega

/-! ### Part 4: the limiting loop -/

/-- weighted sum of a level function over the levels `1..L` -/
def sumW (w f : Nat → Nat) (L : Nat) : Nat := ((List.range L).map fun k => f (k + 1) * w (k + 1)).sum

theorem sumW_succ (w f : Nat → Nat) (L : Nat) : sumW w f (L + 1) = sumW w f L + f (L + 1) * w (L + 1) := by
  unfold sumW; rw [List.range_succ, List.map_append, List.sum_append]; simp

theorem sumW_congr (w f g : Nat → Nat) (L : Nat) (h : ∀ k, 1 ≤ k → k ≤ L → f k = g k) : sumW w f L = sumW w g L := by
  induction L with
  | zero => rfl
  | succ L ih => rw [sumW_succ, sumW_succ, ih (fun k h1 h2 => h k h1 (by omega)), h (L + 1) (by omega) (Nat.le_refl _)]

/-- adding `a` at level `j` -/
theorem sumW_add (w f g : Nat → Nat) (L j a : Nat) (hj1 : 1 ≤ j) (hjL : j ≤ L)
    (h : ∀ k, g k = f k + (if k = j then a else 0)) : sumW w g L = sumW w f L + a * w j := by
  induction L with
  | zero => omega
  | succ L ih =>
    rw [sumW_succ, sumW_succ, h (L + 1)]
    by_cases hjl : j = L + 1
    · subst hjl
      rw [sumW_congr w g f L (fun k _ h2 => by rw [h k, if_neg (by omega), Nat.add_zero]), if_pos rfl]; ring
    · rw [ih (by omega), if_neg (fun hh => hjl hh.symm)]; ring

/-- removing one at level `j` -/
theorem sumW_sub (w f g : Nat → Nat) (L j : Nat) (hj1 : 1 ≤ j) (hjL : j ≤ L) (hfj : 1 ≤ f j)
    (h : ∀ k, g k = f k - (if k = j then 1 else 0)) : sumW w g L + w j = sumW w f L := by
  have hf : ∀ k, f k = g k + (if k = j then 1 else 0) := by
    intro k; rw [h k]; by_cases hk : k = j
    · subst hk; simp; omega
    · simp [hk]
  rw [sumW_add w g f L j 1 hj1 hjL hf]; omega

def cf (c : Array Nat) (k : Nat) : Nat := c[k]!

theorem totalOf_eq (c : Array Nat) (L : Nat) : totalOf c L = sumW (fun k => 2 ^ (L - k)) (cf c) L := by
  unfold totalOf sumW cf
  congr 1
  apply List.map_congr_left
  intro k _
  rw [Nat.shiftLeft_eq]

/-- number of symbols with a non-zero length -/
def usedOf (c : Array Nat) (L : Nat) : Nat := sumW (fun _ => 1) (cf c) L

theorem sumW_single (w f : Nat → Nat) (L : Nat) (h : ∀ k, 1 ≤ k → k ≤ L → f k = 0) :
    sumW w f (L + 1) = f (L + 1) * w (L + 1) := by
  rw [sumW_succ]
  have : sumW w f L = 0 := by
    induction L with
    | zero => rfl
    | succ L ih => rw [sumW_succ, ih (fun k h1 h2 => h k h1 (by omega)), h (L + 1) (by omega) (Nat.le_refl _)]; simp
  rw [this, Nat.zero_add]

theorem findLevel_spec (c : Array Nat) : ∀ m, (∀ i, findLevel c m = some i → i ≤ m ∧ c[i]! ≠ 0 ∧ ∀ k, i < k → k ≤ m → c[k]! = 0) ∧
    (findLevel c m = none → ∀ k, k ≤ m → c[k]! = 0) := by
  intro m
  induction m with
  | zero =>
    unfold findLevel
    constructor
    · intro i hi
      by_cases h : c[0]! ≠ 0
      · rw [if_pos h] at hi; obtain rfl := Option.some.inj hi
        exact ⟨Nat.le_refl _, h, fun k h1 h2 => by omega⟩
      · rw [if_neg h] at hi; exact absurd hi (by simp)
    · intro hn k hk
      by_cases h : c[0]! ≠ 0
      · rw [if_pos h] at hn; exact absurd hn (by simp)
      · have : k = 0 := by omega
        subst this; simpa using h
  | succ m ih =>
    unfold findLevel
    constructor
    · intro i hi
      by_cases h : c[m + 1]! ≠ 0
      · rw [if_pos h] at hi; obtain rfl := Option.some.inj hi
        exact ⟨Nat.le_refl _, h, fun k h1 h2 => by omega⟩
      · rw [if_neg h] at hi
        obtain ⟨a, b, d⟩ := ih.1 i hi
        refine ⟨by omega, b, fun k h1 h2 => ?_⟩
        by_cases hk : k = m + 1
        · subst hk; simpa using h
        · exact d k h1 (by omega)
    · intro hn k hk
      by_cases h : c[m + 1]! ≠ 0
      · rw [if_pos h] at hn; exact absurd hn (by simp)
      · rw [if_neg h] at hn
        by_cases hk2 : k = m + 1
        · subst hk2; simpa using h
        · exact ih.2 hn k (by omega)

structure LInv (c : Array Nat) (L total U0 : Nat) : Prop where
  size : c.size = 16
  tot : total = sumW (fun k => 2 ^ (L - k)) (cf c) L
  used : usedOf c L = U0
  ge : 2 ^ L ≤ total
  slack : 2 ^ L < total → total - 2 ^ L + 1 ≤ c[L]!

/-- one move of the limiting loop keeps the invariant and lowers the total by one -/
theorem limit_step (c : Array Nat) (L total U0 i : Nat) (h15 : L ≤ 15) (inv : LInv c L total U0)
    (hgt : 2 ^ L < total) (hi1 : 1 ≤ i) (hiL : i + 1 ≤ L) (hci : c[i]! ≠ 0) :
    LInv (((c.modify i (· - 1)).modify L (· - 1)).modify (i + 1) (· + 2)) L (total - 1) U0 := by
  have hcL : 1 ≤ c[L]! := by have := inv.slack hgt; omega
  have hs1 : (c.modify i (· - 1)).size = 16 := by rw [Array.size_modify]; exact inv.size
  have hs2 : ((c.modify i (· - 1)).modify L (· - 1)).size = 16 := by rw [Array.size_modify]; exact hs1
  -- the three level functions
  have f1 : ∀ k, cf (c.modify i (· - 1)) k = cf c k - (if k = i then 1 else 0) := by
    intro k; unfold cf; rw [get_modify, inv.size]
    by_cases hk : k = i
    · rw [if_pos ⟨hk, by omega⟩, if_pos hk]
    · rw [if_neg (fun h => hk h.1), if_neg hk]; rfl
  have f2 : ∀ k, cf ((c.modify i (· - 1)).modify L (· - 1)) k = cf (c.modify i (· - 1)) k - (if k = L then 1 else 0) := by
    intro k; unfold cf; rw [get_modify, hs1]
    by_cases hk : k = L
    · rw [if_pos ⟨hk, by omega⟩, if_pos hk]
    · rw [if_neg (fun h => hk h.1), if_neg hk]; rfl
  have f3 : ∀ k, cf (((c.modify i (· - 1)).modify L (· - 1)).modify (i + 1) (· + 2)) k =
      cf ((c.modify i (· - 1)).modify L (· - 1)) k + (if k = i + 1 then 2 else 0) := by
    intro k; unfold cf; rw [get_modify, hs2]
    by_cases hk : k = i + 1
    · rw [if_pos ⟨hk, by omega⟩, if_pos hk]
    · rw [if_neg (fun h => hk h.1), if_neg hk]; rfl
  have h1L : 1 ≤ cf (c.modify i (· - 1)) L := by
    rw [f1 L, if_neg (by omega)]; exact hcL
  have hci' : 1 ≤ cf c i := by unfold cf; omega
  refine ⟨by rw [Array.size_modify]; exact hs2, ?_, ?_, by omega, ?_⟩
  · -- the total drops by exactly one
    have a3 := sumW_add (fun k => 2 ^ (L - k)) _ _ L (i + 1) 2 (by omega) hiL f3
    have a2 := sumW_sub (fun k => 2 ^ (L - k)) _ _ L L (by omega) (Nat.le_refl _) h1L f2
    have a1 := sumW_sub (fun k => 2 ^ (L - k)) _ _ L i hi1 (by omega) hci' f1
    have hm := move_lowers_by_one L i hiL
    simp only [Nat.sub_self, Nat.pow_zero] at a2 hm
    rw [a3, inv.tot]
    omega
  · unfold usedOf
    have a3 := sumW_add (fun _ => 1) _ _ L (i + 1) 2 (by omega) hiL f3
    have a2 := sumW_sub (fun _ => 1) _ _ L L (by omega) (Nat.le_refl _) h1L f2
    have a1 := sumW_sub (fun _ => 1) _ _ L i hi1 (by omega) hci' f1
    have := inv.used
    unfold usedOf at this
    rw [a3]; omega
  · intro hgt2
    have hsl := inv.slack hgt
    have : cf (((c.modify i (· - 1)).modify L (· - 1)).modify (i + 1) (· + 2)) L ≥ c[L]! - 1 := by
      rw [f3 L, f2 L, f1 L, if_pos rfl, if_neg (by omega)]
      unfold cf; omega
    unfold cf at this
    omega

theorem limitLoop_spec (L U0 : Nat) (h1 : 1 ≤ L) (h15 : L ≤ 15) (hU : U0 ≤ 2 ^ L) :
    ∀ fuel (c : Array Nat) (total : Nat), LInv c L total U0 → total - 2 ^ L ≤ fuel →
      ∃ c', limitLoop c L total fuel = some c' ∧ LInv c' L (2 ^ L) U0 := by
  intro fuel
  induction fuel with
  | zero =>
    intro c total inv hf
    have : total = 2 ^ L := by have := inv.ge; omega
    subst this
    exact ⟨c, by unfold limitLoop; rw [if_neg (Nat.lt_irrefl _)], inv⟩
  | succ fuel ih =>
    intro c total inv hf
    unfold limitLoop
    by_cases hgt : total > 2 ^ L
    · rw [if_pos hgt]
      obtain ⟨L', rfl⟩ : ∃ L', L = L' + 1 := ⟨L - 1, by omega⟩
      -- some level in 1..L' is occupied, otherwise every symbol sits at the limit and the total is the symbol count
      have hlevel : ∃ i, findLevel c (L' + 1 - 1) = some i ∧ 1 ≤ i ∧ i + 1 ≤ L' + 1 ∧ c[i]! ≠ 0 := by
        have hspec := findLevel_spec c (L' + 1 - 1)
        have contra : (∀ k, 1 ≤ k → k ≤ L' → cf c k = 0) → False := by
          intro hz
          have e1 := sumW_single (fun k => 2 ^ (L' + 1 - k)) (cf c) L' hz
          have e2 := sumW_single (fun _ => 1) (cf c) L' hz
          have hu := inv.used
          unfold usedOf at hu
          rw [e2] at hu
          have ht := inv.tot
          rw [e1] at ht
          simp only [Nat.sub_self, Nat.pow_zero, Nat.mul_one] at ht hu
          omega
        cases hfl : findLevel c (L' + 1 - 1) with
        | none =>
          exact (contra (fun k _ h2 => hspec.2 hfl k (by omega))).elim
        | some i =>
          obtain ⟨a, b, d⟩ := hspec.1 i hfl
          by_cases hi0 : i = 0
          · subst hi0
            exact (contra (fun k h1 h2 => d k (by omega) (by omega))).elim
          · exact ⟨i, rfl, by omega, by omega, b⟩
      obtain ⟨i, hfl, hi1, hiL, hci⟩ := hlevel
      rw [hfl]
      simp only
      have hcL : c[L' + 1]! ≠ 0 := by have := inv.slack hgt; omega
      rw [if_neg hcL]
      exact ih _ _ (limit_step c (L' + 1) total U0 i h15 inv hgt hi1 hiL hci) (by omega)
    · rw [if_neg hgt]
      have : total = 2 ^ L := by have := inv.ge; omega
      subst this
      exact ⟨c, rfl, inv⟩

/-! ### Part 5: the reassignment -/

theorem down_spec (c : Array Nat) : ∀ k len, len < k → (∃ j, j ≤ len ∧ c[j]! ≠ 0) →
    ∃ j, reassign.down c len k = some j ∧ j ≤ len ∧ c[j]! ≠ 0 ∧ ∀ m, j < m → m ≤ len → c[m]! = 0 := by
  intro k
  induction k with
  | zero => intro len h; omega
  | succ k ih =>
    intro len hlt hex
    unfold reassign.down
    by_cases h : c[len]! ≠ 0
    · rw [if_pos h]; exact ⟨len, rfl, Nat.le_refl _, h, fun m h1 h2 => by omega⟩
    · rw [if_neg h]
      obtain ⟨j, hj1, hj2⟩ := hex
      have hjl : j ≠ len := by intro e; subst e; exact h hj2
      have hl0 : len ≠ 0 := by omega
      rw [if_neg hl0]
      obtain ⟨j', e1, e2, e3, e4⟩ := ih (len - 1) (by omega) ⟨j, by omega, hj2⟩
      refine ⟨j', e1, by omega, e3, fun m h1 h2 => ?_⟩
      by_cases hm : m = len
      · subst hm; simpa using h
      · exact e4 m h1 (by omega)

/-- levels above `len` are exhausted -/
def TopZero (c : Array Nat) (len L : Nat) : Prop := ∀ m, len < m → m ≤ L → c[m]! = 0

theorem sumW_pos_exists (w f : Nat → Nat) : ∀ L, 0 < sumW w f L → ∃ k, 1 ≤ k ∧ k ≤ L ∧ f k ≠ 0 := by
  intro L
  induction L with
  | zero => intro h; simp [sumW] at h
  | succ L ih =>
    intro h
    rw [sumW_succ] at h
    by_cases hz : f (L + 1) = 0
    · rw [hz, Nat.zero_mul, Nat.add_zero] at h
      obtain ⟨k, a, b, d⟩ := ih h
      exact ⟨k, a, by omega, d⟩
    · exact ⟨L + 1, by omega, Nat.le_refl _, hz⟩

def usedPairs (l : List (Nat × Nat)) : List (Nat × Nat) := l.filter (fun p => decide (p.2 > 0))

theorem reassign_spec (L : Nat) (h15 : L ≤ 15) : ∀ (l : List (Nat × Nat)) (len : Nat) (c lengths : Array Nat) (fuel : Nat),
    (l.map Prod.fst).Nodup → (∀ p ∈ l, p.1 < lengths.size) → len ≤ L → c.size = 16 → TopZero c len L →
    usedOf c L = (usedPairs l).length →
    ∃ lengths', reassign l len c lengths fuel = some lengths' ∧ lengths'.size = lengths.size ∧
      (∀ j, j ∉ (usedPairs l).map Prod.fst → lengths'[j]! = lengths[j]!) ∧
      (∀ p ∈ usedPairs l, 1 ≤ lengths'[p.1]! ∧ lengths'[p.1]! ≤ L) ∧
      ((usedPairs l).map fun p => 2 ^ (L - lengths'[p.1]!)).sum = sumW (fun k => 2 ^ (L - k)) (cf c) L := by
  intro l
  induction l with
  | nil =>
    intro len c lengths fuel _ _ _ _ _ hu
    refine ⟨lengths, by simp [reassign], rfl, fun j _ => rfl, fun p hp => absurd hp (by simp [usedPairs]), ?_⟩
    -- nothing left to assign: every level is empty
    simp only [usedPairs, List.filter_nil, List.map_nil, List.sum_nil, List.length_nil] at hu ⊢
    by_contra hne
    have hpos : 0 < sumW (fun k => 2 ^ (L - k)) (cf c) L := by omega
    obtain ⟨k, k1, k2, k3⟩ := sumW_pos_exists _ _ L hpos
    have : 0 < usedOf c L := by
      unfold usedOf
      by_contra hz
      have hz' : sumW (fun _ => 1) (cf c) L = 0 := by omega
      -- a zero sum of naturals has zero terms
      have : ∀ L', L' ≤ L → k ≤ L' → sumW (fun _ => 1) (cf c) L' = 0 → False := by
        intro L'
        induction L' with
        | zero => intro _ hk _; omega
        | succ L' ih' =>
          intro hle hk hs
          rw [sumW_succ] at hs
          by_cases hkk : k = L' + 1
          · subst hkk; simp only [Nat.mul_one] at hs; omega
          · exact ih' (by omega) (by omega) (by omega)
      exact this L (Nat.le_refl _) k2 hz'
    omega
  | cons x l ih =>
    intro len c lengths fuel hnd hlt hlen hsz htop hu
    rw [List.map_cons, List.nodup_cons] at hnd
    obtain ⟨i, f⟩ := x
    by_cases hf : f > 0
    · -- a used symbol: take the deepest level still available
      have hup : usedPairs ((i, f) :: l) = (i, f) :: usedPairs l := by simp [usedPairs, hf]
      rw [hup] at hu ⊢
      have hpos : 0 < sumW (fun _ => 1) (cf c) L := by unfold usedOf at hu; simp at hu; omega
      obtain ⟨k, k1, k2, k3⟩ := sumW_pos_exists _ _ L hpos
      have hkl : k ≤ len := by
        by_contra hgt; exact k3 (htop k (by omega) k2)
      obtain ⟨j, d1, d2, d3, d4⟩ := down_spec c 17 len (by omega) ⟨k, hkl, k3⟩
      have hj1 : 1 ≤ j := by
        by_contra h0
        have : j = 0 := by omega
        subst this
        exact k3 (d4 k (by omega) hkl)
      have hcj : 1 ≤ cf c j := by unfold cf; omega
      have fj : ∀ m, cf (c.modify j (· - 1)) m = cf c m - (if m = j then 1 else 0) := by
        intro m; unfold cf; rw [get_modify, hsz]
        by_cases hm : m = j
        · rw [if_pos ⟨hm, by omega⟩, if_pos hm]
        · rw [if_neg (fun h => hm h.1), if_neg hm]; rfl
      have hused' : usedOf (c.modify j (· - 1)) L = (usedPairs l).length := by
        have := sumW_sub (fun _ => 1) _ _ L j hj1 (by omega) hcj fj
        unfold usedOf at hu ⊢
        simp at hu; omega
      have htop' : TopZero (c.modify j (· - 1)) j L := by
        intro m h1 h2
        have := fj m
        unfold cf at this
        rw [this, if_neg (by omega)]
        by_cases hml : m ≤ len
        · rw [d4 m h1 hml]
        · rw [htop m (by omega) h2]
      obtain ⟨lengths', r1, r2, r3, r4, r5⟩ := ih j (c.modify j (· - 1)) (lengths.setIfInBounds i j) fuel hnd.2
        (fun p hp => by rw [Array.size_setIfInBounds]; exact hlt p (List.mem_cons_of_mem _ hp)) (by omega)
        (by rw [Array.size_modify]; exact hsz) htop' hused'
      have hi_not : i ∉ (usedPairs l).map Prod.fst := by
        intro hm
        apply hnd.1
        obtain ⟨p, hp, hpi⟩ := List.mem_map.mp hm
        exact List.mem_map.mpr ⟨p, (List.mem_filter.mp hp).1, hpi⟩
      have hival : lengths'[i]! = j := by
        rw [r3 i hi_not, get_setIf, if_pos ⟨rfl, hlt (i, f) (List.mem_cons_self ..)⟩]
      refine ⟨lengths', ?_, by rw [r2, Array.size_setIfInBounds], ?_, ?_, ?_⟩
      · rw [reassign]; rw [if_pos hf, d1]; exact r1
      · intro m hm
        rw [List.map_cons, List.mem_cons, not_or] at hm
        rw [r3 m hm.2, get_setIf, if_neg (fun h => hm.1 h.1)]
      · intro p hp
        rcases List.mem_cons.mp hp with rfl | hp
        · rw [hival]; exact ⟨hj1, by omega⟩
        · exact r4 p hp
      · rw [List.map_cons, List.sum_cons, r5, hival]
        have := sumW_sub (fun k => 2 ^ (L - k)) _ _ L j hj1 (by omega) hcj fj
        omega
    · have hup : usedPairs ((i, f) :: l) = usedPairs l := by simp [usedPairs, hf]
      rw [hup] at hu ⊢
      obtain ⟨lengths', r1, r2, r3, r4, r5⟩ := ih len c lengths fuel hnd.2
        (fun p hp => hlt p (List.mem_cons_of_mem _ hp)) hlen hsz htop hu
      exact ⟨lengths', by rw [reassign]; rw [if_neg hf]; exact r1, r2, r3, r4, r5⟩

/-! ### Part 6: assembling the limiting case -/

theorem insertByFreq_perm (x : Nat × Nat) : ∀ l, (insertByFreq x l).Perm (x :: l) := by
  intro l
  induction l with
  | nil => exact List.Perm.refl _
  | cons y l ih =>
    unfold insertByFreq
    split
    · exact List.Perm.refl _
    · exact (List.Perm.cons y ih).trans (List.Perm.swap x y l)

theorem sortByFreq_perm (l : List (Nat × Nat)) : (sortByFreq l).Perm l := by
  unfold sortByFreq
  have : ∀ (l acc : List (Nat × Nat)), (l.foldl (fun acc x => insertByFreq x acc) acc).Perm (l ++ acc) := by
    intro l
    induction l with
    | nil => intro acc; exact List.Perm.refl _
    | cons x l ih =>
      intro acc
      rw [List.foldl_cons]
      exact (ih _).trans ((List.Perm.append_left l (insertByFreq_perm x acc)).trans (by
        rw [List.cons_append]; exact List.perm_middle))
  simpa using this l []

theorem usedPairs_zip_fst (freqs : List Nat) :
    (usedPairs ((List.range freqs.length).zip freqs)).map Prod.fst = usedIdx freqs := by
  unfold usedPairs usedIdx
  induction (List.range freqs.length).zip freqs with
  | nil => rfl
  | cons x l ih =>
    by_cases h : x.2 > 0
    · simp only [List.filter_cons, h, decide_true, if_true, List.map_cons, List.filterMap_cons, ih]
    · simp only [List.filter_cons, h, decide_false, Bool.false_eq_true, if_false, List.filterMap_cons, ih]

theorem length_filter_sum (l : List (Nat × Nat)) (P : Nat × Nat → Bool) :
    (l.filter P).length = (l.map fun p => if P p then 1 else 0).sum := by
  induction l with
  | nil => rfl
  | cons x l ih =>
    by_cases h : P x = true
    · simp only [List.filter_cons, h, if_true, List.length_cons, List.map_cons, List.sum_cons, ih]; omega
    · have : P x = false := by simpa using h
      simp only [List.filter_cons, this, Bool.false_eq_true, if_false, List.map_cons, List.sum_cons, ih]; omega

theorem count_sum (m : List Nat) (k : Nat) : m.count k = (m.map fun x => if x = k then 1 else 0).sum := by
  induction m with
  | nil => rfl
  | cons x m ih =>
    rw [List.count_cons, List.map_cons, List.sum_cons, ih]
    by_cases h : x = k
    · simp [h]; omega
    · have : (x == k) = false := by simpa using h
      simp [h, this]

/-- the loop's starting point, read off the tree -/
theorem initial_inv (freqs : List Nat) (l r : Tree) (lengths : Array Nat) (L : Nat) (h1 : 1 ≤ L) (h15 : L ≤ 15)
    (hp : (leaves (.node l r)).Perm (usedIdx freqs)) (hl : LengthsOf freqs (.node l r) lengths) :
    LInv (countLengths lengths L) L (totalOf (countLengths lengths L) L) (usedIdx freqs).length ∧
    (countLengths lengths L)[L]! ≤ (usedIdx freqs).length := by
  obtain ⟨csz, cval⟩ := countLengths_spec lengths L h15
  have hds1 : ∀ p ∈ depths (.node l r) 0, 1 ≤ p.2 := depths_pos l r
  -- sums of the level function are sums over the leaves
  have key : ∀ w : Nat → Nat, sumW w (cf (countLengths lengths L)) L =
      ((depths (.node l r) 0).map fun p => w (min p.2 L)).sum := by
    intro w
    unfold sumW cf
    simp only [cval]
    rw [hist_sum w L, List.map_map]
    rw [sum_over_used freqs l r lengths hp hl ((fun x => if 1 ≤ x ∧ x ≤ L then w x else 0) ∘ fun l => min l L)
      (by simp)]
    congr 1
    apply List.map_congr_left
    intro p hpm
    have := hds1 p hpm
    simp only [Function.comp]
    rw [if_pos ⟨by omega, Nat.min_le_right _ _⟩]
  have hW : sumW (fun k => 2 ^ (L - k)) (cf (countLengths lengths L)) L = clipW L (depths (.node l r) 0) := by
    rw [key]; rfl
  have hU : usedOf (countLengths lengths L) L = (usedIdx freqs).length := by
    unfold usedOf; rw [key]
    have hrep : ∀ n : Nat, (List.replicate n 1).sum = n := by
      intro n; induction n with
      | zero => rfl
      | succ n ih => rw [List.replicate_succ, List.sum_cons, ih]; omega
    simp only [List.map_const']
    rw [hrep, depths_length, hp.length_eq]
  have hC : (countLengths lengths L)[L]! = clipC L (depths (.node l r) 0) := by
    rw [cval, count_sum, List.map_map]
    rw [sum_over_used freqs l r lengths hp hl ((fun x => if x = L then 1 else 0) ∘ fun l => min l L)
      (by simp; omega)]
    unfold clipC
    rw [length_filter_sum]
    congr 1
    apply List.map_congr_left
    intro p _
    simp only [Function.comp]
    by_cases h : L ≤ p.2
    · simp [h]
    · simp [h]
  obtain ⟨t1, _, t3⟩ := clip_tree L (.node l r) 0 (Nat.zero_le _)
  simp only [Nat.sub_zero] at t1 t3
  have hCle : clipC L (depths (.node l r) 0) ≤ (usedIdx freqs).length := by
    unfold clipC
    calc _ ≤ (depths (.node l r) 0).length := List.length_filter_le _ _
      _ = (usedIdx freqs).length := by rw [depths_length, hp.length_eq]
  refine ⟨⟨csz, totalOf_eq _ _, hU, by rw [totalOf_eq, hW]; exact t1, ?_⟩, by rw [hC]; exact hCle⟩
  intro hgt
  rw [totalOf_eq, hW] at hgt ⊢
  rw [hC]; exact t3 hgt

/-- **`build` with limiting**: when the Huffman tree is deeper than the limit -/
theorem build_limited (freqs : List Nat) (limit : Nat) (h1 : 1 ≤ limit) (h15 : limit ≤ 15)
    (h2 : 2 ≤ (freqs.filter (· > 0)).length)
    (t : Tree) (hperm : (leaves t).Perm (usedIdx freqs)) (hlen : treeLengths freqs = setLengths freqs.length (depths t 0))
    (hdepth : ∀ p ∈ depths t 0, p.2 < 256)
    (hspace : freqs.length ≤ 2 ^ limit) (hmax : (treeLengths freqs).foldl max 0 > limit) :
    ∃ lengths codes, build freqs limit = .built lengths codes ∧ lengths.size = freqs.length ∧
      (∀ i, i < freqs.length → (freqs[i]! = 0 → lengths[i]! = 0) ∧ (freqs[i]! > 0 → 1 ≤ lengths[i]! ∧ lengths[i]! ≤ limit)) ∧
      Prefix.kraft lengths.toList limit = 2 ^ limit ∧
      (∀ i, i < freqs.length → lengths[i]! ≠ 0 →
        some codes[i]! = (Prefix.canonicalCode lengths.toList i).map fun c => Prefix.reverseBits c lengths[i]!) := by
  have hcnt := used_count freqs
  obtain ⟨l, r, rfl⟩ : ∃ l r, t = .node l r := by
    cases t with
    | leaf s => have := hperm.length_eq; simp [leaves] at this; omega
    | node l r => exact ⟨l, r, rfl⟩
  have hL := lengthsOf_tree freqs (.node l r) hperm hdepth
  rw [← hlen] at hL
  have husedle : (usedIdx freqs).length ≤ freqs.length := by
    rw [usedIdx_eq]
    calc _ ≤ (List.range freqs.length).length := List.length_filter_le _ _
      _ = freqs.length := List.length_range
  -- the limiting loop
  obtain ⟨inv0, hCle⟩ := initial_inv freqs l r (treeLengths freqs) limit h1 h15 hperm hL
  obtain ⟨c', hloop, inv'⟩ := limitLoop_spec limit (usedIdx freqs).length h1 h15 (by omega)
    ((treeLengths freqs).size * 16 + 16) _ _ inv0
    (by
      by_cases hgt : 2 ^ limit < totalOf (countLengths (treeLengths freqs) limit) limit
      · have := inv0.slack hgt; rw [hL.size]; omega
      · omega)
  -- the reassignment
  have hsorted := sortByFreq_perm ((List.range freqs.length).zip freqs)
  have hfst : ((sortByFreq ((List.range freqs.length).zip freqs)).map Prod.fst).Perm (List.range freqs.length) := by
    refine (hsorted.map _).trans ?_
    rw [List.map_fst_zip (by simp)]
  have hup : (usedPairs (sortByFreq ((List.range freqs.length).zip freqs))).Perm (usedPairs ((List.range freqs.length).zip freqs)) :=
    hsorted.filter _
  have hupfst : ((usedPairs (sortByFreq ((List.range freqs.length).zip freqs))).map Prod.fst).Perm (usedIdx freqs) := by
    rw [← usedPairs_zip_fst]; exact hup.map _
  obtain ⟨lengths', r1, r2, r3, r4, r5⟩ := reassign_spec limit h15 (sortByFreq ((List.range freqs.length).zip freqs)) limit c'
    (treeLengths freqs) 0 (hfst.nodup_iff.mpr List.nodup_range)
    (fun p hp => by
      have : p.1 ∈ List.range freqs.length := hfst.mem_iff.mp (List.mem_map_of_mem hp)
      rw [hL.size]; exact List.mem_range.mp this)
    (Nat.le_refl _) inv'.size (fun m h1 h2 => by omega)
    (by rw [inv'.used, ← hupfst.length_eq, List.length_map])
  have hsz : lengths'.size = freqs.length := by rw [r2, hL.size]
  have hlimit : limitLengths freqs (treeLengths freqs) limit = some lengths' := by
    unfold limitLengths; simp only; rw [if_pos hmax, hloop]; exact r1
  -- what the new lengths are
  have hunused : ∀ i, i ∉ usedIdx freqs → lengths'[i]! = 0 := by
    intro i hi
    rw [r3 i (fun h => hi (hupfst.mem_iff.mp h)), hL.unused i hi]
  have hused : ∀ i, i ∈ usedIdx freqs → 1 ≤ lengths'[i]! ∧ lengths'[i]! ≤ limit := by
    intro i hi
    obtain ⟨p, hp, hpi⟩ := List.mem_map.mp (hupfst.mem_iff.mpr hi)
    rw [← hpi]; exact r4 p hp
  have hall : ∀ x ∈ lengths'.toList, x ≤ limit := by
    intro x hx
    rw [toList_range] at hx
    obtain ⟨i, _, rfl⟩ := List.mem_map.mp hx
    by_cases hi : i ∈ usedIdx freqs
    · exact (hused i hi).2
    · rw [hunused i hi]; omega
  have hkraft : Prefix.kraft lengths'.toList limit = 2 ^ limit := by
    unfold Prefix.kraft
    rw [foldl_add_sum (fun x => 2 ^ (limit - x)), Nat.zero_add, toList_range, List.filter_map, List.map_map, hsz]
    have hfilter : (List.range freqs.length).filter ((fun x => decide (x ≠ 0)) ∘ fun i => lengths'[i]!) = usedIdx freqs := by
      rw [usedIdx_eq]
      apply List.filter_congr
      intro i hi
      simp only [Function.comp, decide_eq_decide]
      have hlt : i < freqs.length := List.mem_range.mp hi
      constructor
      · intro hne
        by_contra hnot
        exact hne (hunused i (fun hm => hnot ((mem_usedIdx freqs i).mp hm).2))
      · intro hpos
        have := (hused i ((mem_usedIdx freqs i).mpr ⟨hlt, hpos⟩)).1
        omega
    rw [hfilter, ← (hupfst.map _).sum_nat, List.map_map]
    have : ((usedPairs (sortByFreq ((List.range freqs.length).zip freqs))).map
        (((fun x => 2 ^ (limit - x)) ∘ fun i => lengths'[i]!) ∘ Prod.fst)) =
        (usedPairs (sortByFreq ((List.range freqs.length).zip freqs))).map fun p => 2 ^ (limit - lengths'[p.1]!) := rfl
    rw [this, r5, ← inv'.tot]
  have hfinal := final_eq_kraft lengths' limit hall
  refine ⟨lengths', (assignCodes lengths' limit).1, ?_, hsz, ?_, hkraft, ?_⟩
  · unfold build
    rw [if_neg (by omega), hlimit]
    simp only
    rw [if_neg (by rw [hfinal, hkraft]; simp)]
  · intro i hi
    constructor
    · intro h0
      exact hunused i (fun hm => by have := ((mem_usedIdx freqs i).mp hm).2; omega)
    · intro hpos
      exact hused i ((mem_usedIdx freqs i).mpr ⟨hi, hpos⟩)
  · intro i hi hne
    exact assign_canonical lengths' limit (by omega) hall (by rw [hkraft]) i (by rw [hsz]; exact hi) hne

/-- **The property for every histogram** (2..256 used symbols, alphabet within the code space) -/
theorem build_full (freqs : List Nat) (limit : Nat) (h1 : 1 ≤ limit) (h15 : limit ≤ 15)
    (h2 : 2 ≤ (freqs.filter (· > 0)).length) (h256 : (freqs.filter (· > 0)).length ≤ 256)
    (hspace : freqs.length ≤ 2 ^ limit) :
    ∃ lengths codes, build freqs limit = .built lengths codes ∧ lengths.size = freqs.length ∧
      (∀ i, i < freqs.length → (freqs[i]! = 0 → lengths[i]! = 0) ∧ (freqs[i]! > 0 → 1 ≤ lengths[i]! ∧ lengths[i]! ≤ limit)) ∧
      Prefix.kraft lengths.toList limit = 2 ^ limit ∧
      (∀ i, i < freqs.length → lengths[i]! ≠ 0 →
        some codes[i]! = (Prefix.canonicalCode lengths.toList i).map fun c => Prefix.reverseBits c lengths[i]!) := by
  have hcnt := used_count freqs
  obtain ⟨t, hperm, hlen⟩ := treeLengths_spec freqs (by rw [itemsOf_length, hcnt]; omega)
  have hdepth : ∀ p ∈ depths t 0, p.2 < 256 := by
    intro p hp
    have := depth_lt_leaves t 0 p hp
    rw [hperm.length_eq, hcnt] at this
    omega
  by_cases hmax : (treeLengths freqs).foldl max 0 > limit
  · exact build_limited freqs limit h1 h15 h2 t hperm hlen hdepth hspace hmax
  · exact build_unlimited freqs limit (by omega) h2 t hperm hlen hdepth (by omega)

end EncHuff
