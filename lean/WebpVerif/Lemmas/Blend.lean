import WebpVerif.Model.Blend
import Mathlib.Tactic.IntervalCases
import Mathlib.Tactic.Linarith
import Mathlib.Tactic.Ring

namespace Blend

theorem div255_round (v : Nat) (h : v ≤ 65025) : div255 v = (2 * v + 255) / 510 := by
  unfold div255; simp only [Nat.shiftRight_eq_div_pow]; omega

/-- floor-reciprocal multiplication is off by less than one quotient step -/
theorem recip (b X : Nat) (hb : 1 ≤ b) (hb2 : b ≤ 255) (hX : X ≤ 255 * b) :
    X ≤ ((X * (2^24 / b)) / 2^24) * b + b ∧ ((X * (2^24 / b)) / 2^24) * b ≤ X := by
  interval_cases b <;> omega

theorem prod_le (da sa : Nat) (hda : da < 256) : da * (255 - sa) ≤ 255 * (255 - sa) :=
  Nat.mul_le_mul (by omega) (Nat.le_refl _)

theorem prod_le' (da sa : Nat) (hda : da < 256) : da * (255 - sa) ≤ 65025 := by
  have := prod_le da sa hda
  omega

/-- `dst_factor_a ≤ 255 - src_a`: the second `debug_assert!` of `blend_pixel_nonpremult` -/
theorem dstFactor_le (sa da : Nat) (hda : da < 256) : dstFactor sa da ≤ 255 - sa := by
  unfold dstFactor
  rw [div255_round _ (prod_le' da sa hda)]
  have := prod_le da sa hda
  omega

/-- rounding error of `dst_factor_a`: |255·dfa − da·(255−sa)| ≤ 127 -/
theorem dstFactor_err (sa da : Nat) (hda : da < 256) :
    255 * dstFactor sa da ≤ da * (255 - sa) + 127 ∧ da * (255 - sa) ≤ 255 * dstFactor sa da + 127 := by
  unfold dstFactor
  rw [div255_round _ (prod_le' da sa hda)]
  omega

/-- facts about one channel, packaged with the witnesses `b`, `X` -/
theorem chan_facts (s sa d da : Nat) (hs : s < 256) (hsa : 1 ≤ sa) (hsa2 : sa < 256)
    (hd : d < 256) (hda : da < 256) :
    let dfa := dstFactor sa da
    let b := sa + dfa
    let X := s * sa + d * dfa
    let r := chan s sa d da
    1 ≤ b ∧ b ≤ 255 ∧ r * b ≤ X ∧ X ≤ r * b + b ∧ min s d * b ≤ X ∧ X ≤ max s d * b
      ∧ X * (2^24 / b) < 2^32 ∧ r = (X * (2^24 / b)) / 2^24 := by
  intro dfa b X r
  have hdfa2 : dfa ≤ 255 - sa := dstFactor_le sa da hda
  have hb1 : 1 ≤ b := by omega
  have hb2 : b ≤ 255 := by omega
  have hXle : X ≤ max s d * b := by
    have h1 : s * sa ≤ max s d * sa := Nat.mul_le_mul (le_max_left _ _) (le_refl _)
    have h2 : d * dfa ≤ max s d * dfa := Nat.mul_le_mul (le_max_right _ _) (le_refl _)
    calc X = s * sa + d * dfa := rfl
      _ ≤ max s d * sa + max s d * dfa := by omega
      _ = max s d * b := by rw [Nat.mul_add]
  have hXge : min s d * b ≤ X := by
    have h1 : min s d * sa ≤ s * sa := Nat.mul_le_mul (min_le_left _ _) (le_refl _)
    have h2 : min s d * dfa ≤ d * dfa := Nat.mul_le_mul (min_le_right _ _) (le_refl _)
    calc min s d * b = min s d * sa + min s d * dfa := by rw [Nat.mul_add]
      _ ≤ X := by omega
  have hXb : X ≤ 255 * b := by
    have : max s d ≤ 255 := by omega
    calc X ≤ max s d * b := hXle
      _ ≤ 255 * b := Nat.mul_le_mul this (le_refl _)
  obtain ⟨h1, h2⟩ := recip b X hb1 hb2 hXb
  -- no overflow: X * (2^24 / b) ≤ X/b * 2^24 ≤ 255 * 2^24 < 2^32
  have hov : X * (2^24 / b) < 2^32 := by
    have hq : (2^24 / b) * b ≤ 2^24 := Nat.div_mul_le_self _ _
    have h3 : X * (2^24 / b) ≤ 255 * b * (2^24 / b) := Nat.mul_le_mul hXb (le_refl _)
    have h4 : 255 * b * (2^24 / b) = 255 * ((2^24 / b) * b) := by ring
    have h5 : 255 * ((2^24 / b) * b) ≤ 255 * 2^24 := Nat.mul_le_mul (le_refl _) hq
    omega
  have hr : r = (X * (2^24 / b)) / 2^24 := by
    show chan s sa d da = _
    unfold chan blendChannel unscaled scaleOf
    have hmod : dstFactor sa da % 256 = dstFactor sa da := Nat.mod_eq_of_lt (by omega)
    rw [hmod, Nat.shiftRight_eq_div_pow]
    apply Nat.mod_eq_of_lt
    show X * (2^24 / b) / 2^24 < 256
    omega
  refine ⟨hb1, hb2, ?_, ?_, hXge, hXle, hov, hr⟩
  · rw [hr]; exact h2
  · rw [hr]; exact h1

/-- range of one blended channel (tighter than the property asks: lower slack 1, upper 0) -/
theorem chan_range (s sa d da : Nat) (hs : s < 256) (hsa : 1 ≤ sa) (hsa2 : sa < 256)
    (hd : d < 256) (hda : da < 256) :
    min s d ≤ chan s sa d da + 1 ∧ chan s sa d da ≤ max s d := by
  obtain ⟨hb1, hb2, h2, h1, hXge, hXle, -, -⟩ := chan_facts s sa d da hs hsa hsa2 hd hda
  generalize chan s sa d da = r at *
  generalize sa + dstFactor sa da = b at *
  generalize s * sa + d * dstFactor sa da = X at *
  constructor
  · by_contra hcon
    push Not at hcon
    have : (r + 2) * b ≤ min s d * b := Nat.mul_le_mul (by omega) (le_refl _)
    have : (r + 2) * b = r * b + 2 * b := by rw [Nat.add_mul]
    omega
  · by_contra hcon
    push Not at hcon
    have : (max s d + 1) * b ≤ r * b := Nat.mul_le_mul (by omega) (le_refl _)
    have : (max s d + 1) * b = max s d * b + b := by rw [Nat.add_mul, Nat.one_mul]
    omega

theorem prod_bound (e t : Int) (h1 : -127 ≤ e) (h2 : e ≤ 127) (h3 : -255 ≤ t) (h4 : t ≤ 255) :
    e * t ≤ 127 * 255 ∧ -(127 * 255 : Int) ≤ e * t := by
  have a := mul_nonneg (sub_nonneg.mpr h2) (by linarith : (0:Int) ≤ 255 + t)
  have b := mul_nonneg (by linarith : (0:Int) ≤ 127 + e) (sub_nonneg.mpr h4)
  have c := mul_nonneg (sub_nonneg.mpr h2) (sub_nonneg.mpr h4)
  have d := mul_nonneg (by linarith : (0:Int) ≤ 127 + e) (by linarith : (0:Int) ≤ 255 + t)
  constructor <;> nlinarith

/-- weighted error of one channel against the exact rational *over* in cross-multiplied form.
    `A' = 255·sa + da·(255−sa)` is 255 × (exact result alpha), `N' = 255·s·sa + d·da·(255−sa)`
    is 255 × (exact premultiplied colour); the exact colour is `N'/A'`. -/
theorem chan_weighted_error (s sa d da : Nat) (hs : s < 256) (hsa : 1 ≤ sa) (hsa2 : sa < 256)
    (hd : d < 256) (hda : da < 256) :
    let A' : Int := 255 * sa + da * (255 - sa : Nat)
    let N' : Int := 255 * s * sa + d * da * (255 - sa : Nat)
    let r : Int := chan s sa d da
    r * A' - N' ≤ 2 * 255 * 255 ∧ N' - r * A' ≤ 2 * 255 * 255 := by
  intro A' N' r
  obtain ⟨hb1, hb2, h2, h1, hXge, hXle, -, -⟩ := chan_facts s sa d da hs hsa hsa2 hd hda
  obtain ⟨hr1, hr2⟩ := chan_range s sa d da hs hsa hsa2 hd hda
  obtain ⟨he1, he2⟩ := dstFactor_err sa da hda
  have hrv : r = (chan s sa d da : Int) := rfl
  generalize chan s sa d da = rn at *
  generalize hdfa : dstFactor sa da = dfa at *
  generalize hP : da * (255 - sa) = P at *
  -- ε = 255·dfa − P, |ε| ≤ 127
  have hA : A' = 255 * ((sa : Int) + dfa) - (255 * (dfa : Int) - P) := by
    show (255 * (sa:Int) + da * ((255 - sa : Nat) : Int)) = _
    have : ((da * (255 - sa) : Nat) : Int) = P := by rw [hP]
    push_cast at this
    rw [this]; ring
  have hN : N' = 255 * ((s : Int) * sa + d * dfa) - d * (255 * (dfa : Int) - P) := by
    show (255 * (s:Int) * sa + d * da * ((255 - sa : Nat) : Int)) = _
    have : ((da * (255 - sa) : Nat) : Int) = P := by rw [hP]
    push_cast at this
    have h' : (d:Int) * da * ((255 - sa : Nat) : Int) = d * P := by rw [← this]; ring
    rw [h']; ring
  have key : r * A' - N' = 255 * (r * ((sa:Int) + dfa) - ((s:Int) * sa + d * dfa))
      - (255 * (dfa:Int) - P) * (r - d) := by rw [hA, hN]; ring
  -- bounds on the two terms
  have hb : ((rn * (sa + dfa) : Nat) : Int) ≤ ((s * sa + d * dfa : Nat) : Int) := by exact_mod_cast h2
  have hb' : ((s * sa + d * dfa : Nat) : Int) ≤ ((rn * (sa + dfa) + (sa + dfa) : Nat) : Int) := by
    exact_mod_cast h1
  push_cast at hb hb'
  have t1lo : -(255 : Int) ≤ r * ((sa:Int) + dfa) - ((s:Int) * sa + d * dfa) := by
    rw [hrv]; have : ((sa:Int) + dfa) ≤ 255 := by exact_mod_cast hb2
    linarith
  have t1hi : r * ((sa:Int) + dfa) - ((s:Int) * sa + d * dfa) ≤ 0 := by
    rw [hrv]; linarith
  have he1' : 255 * (dfa:Int) - P ≤ 127 := by
    have : ((255 * dfa : Nat) : Int) ≤ ((P + 127 : Nat) : Int) := by exact_mod_cast he1
    push_cast at this; linarith
  have he2' : -(127:Int) ≤ 255 * (dfa:Int) - P := by
    have : ((P : Nat) : Int) ≤ ((255 * dfa + 127 : Nat) : Int) := by exact_mod_cast he2
    push_cast at this; linarith
  have hrd1 : r - d ≤ 255 := by
    rw [hrv]
    have : (rn : Int) ≤ 255 := by
      have : rn ≤ 255 := by omega
      exact_mod_cast this
    have : (0:Int) ≤ d := Int.natCast_nonneg d
    linarith
  have hrd2 : -(255:Int) ≤ r - d := by
    rw [hrv]
    have : (d : Int) ≤ 255 := by
      have : d ≤ 255 := by omega
      exact_mod_cast this
    have : (0:Int) ≤ rn := Int.natCast_nonneg rn
    linarith
  -- |ε·(r−d)| ≤ 127·255
  obtain ⟨prod_hi, prod_lo⟩ := prod_bound _ _ he2' he1' hrd2 hrd1
  generalize (255 * (dfa:Int) - P) * (r - d) = T at *
  generalize r * ((sa:Int) + dfa) - ((s:Int) * sa + d * dfa) = U at *
  constructor
  · rw [key]; omega
  · have : N' - r * A' = -(r * A' - N') := by ring
    rw [this, key]; omega

end Blend
