import WebpVerif.Model.Vp8Border

/-!
The luma border bookkeeping (`Vp8Border.run`) feeds every macroblock the border pixels RFC 6386
defines from the reconstructed frame.
-/
namespace Vp8Border

structure FInv (f : Frame) (mbx mby : Nat) (s : St) : Prop where
  topDone : ∀ j, j < 16 * mbx → s.top j = P f j (16 * mby + 15)
  topOld : ∀ j, 16 * mbx ≤ j → j < 16 * f.W → s.top j = if mby = 0 then 127 else P f j (16 * mby - 1)
  leftCol : ∀ i, i < 16 → s.left (i + 1) = if mbx = 0 then 129 else P f (16 * mbx - 1) (16 * mby + i)
  corner : s.left 0 = if mbx = 0 then 129 else if mby = 0 then 127 else P f (16 * mbx - 1) (16 * mby - 1)
  out : ∀ b ∈ s.out, Good f b

theorem P_in (f : Frame) (mbx mby x y : Nat) (hx : x < 16) (hy : y < 16) :
    P f (16 * mbx + x) (16 * mby + y) = f.R mbx mby x y := by
  unfold P
  have : (16 * mbx + x) / 16 = mbx ∧ (16 * mbx + x) % 16 = x ∧ (16 * mby + y) / 16 = mby ∧ (16 * mby + y) % 16 = y := by omega
  rw [this.1, this.2.1, this.2.2.1, this.2.2.2]

theorem mbStep_inv (f : Frame) (mbx mby : Nat) (hx : mbx < f.W) (s : St) (inv : FInv f mbx mby s) :
    FInv f (mbx + 1) mby (mbStep f mbx mby s) := by
  unfold mbStep
  simp only
  refine { topDone := ?_, topOld := ?_, leftCol := ?_, corner := ?_, out := ?_ }
  · intro j hj
    simp only
    by_cases hin : 16 * mbx ≤ j ∧ j < 16 * mbx + 16
    · rw [if_pos hin]
      have := P_in f mbx mby (j - 16 * mbx) 15 (by omega) (by omega)
      rw [show 16 * mbx + (j - 16 * mbx) = j by omega] at this
      exact this.symm
    · rw [if_neg hin]; exact inv.topDone j (by omega)
  · intro j h1 h2
    simp only
    rw [if_neg (by omega)]
    exact inv.topOld j (by omega) h2
  · intro i hi
    simp only
    rw [if_neg (by omega), if_pos (by omega), if_neg (by omega), Nat.add_sub_cancel]
    have := P_in f mbx mby 15 i (by omega) hi
    rw [show 16 * (mbx + 1) - 1 = 16 * mbx + 15 by omega]
    exact this.symm
  · simp only [if_true]
    rw [if_neg (by omega)]
    show (border f mbx mby s).above 15 = _
    unfold border
    simp only
    by_cases hm : mby = 0
    · rw [if_pos hm, if_pos hm]
    · rw [if_neg hm, if_neg hm, inv.topOld _ (by omega) (by omega), if_neg hm]
      congr 1
  · intro b hb
    rcases List.mem_cons.mp hb with rfl | hb
    · -- the border of this macroblock
      unfold Good border
      simp only
      refine ⟨?_, ?_, ?_, ?_⟩
      · unfold specCorner
        by_cases hm : mby = 0
        · rw [if_pos hm, if_pos hm]
        · rw [if_neg hm, if_neg hm]
          by_cases h0 : mbx = 0
          · rw [if_pos h0, if_pos h0]
          · rw [if_neg h0, if_neg h0, inv.corner, if_neg h0, if_neg hm]
      · intro i hi
        unfold specAbove
        by_cases hm : mby = 0
        · rw [if_pos hm, if_pos hm]
        · rw [if_neg hm, if_neg hm, inv.topOld _ (by omega) (by omega), if_neg hm]
      · intro i hi
        unfold specAboveRight
        by_cases hm : mby = 0
        · rw [if_pos hm, if_pos hm]
        · rw [if_neg hm, if_neg hm]
          by_cases hl : mbx = f.W - 1
          · rw [if_pos hl, if_pos hl, inv.topOld _ (by omega) (by omega), if_neg hm]
          · rw [if_neg hl, if_neg hl, inv.topOld _ (by omega) (by omega), if_neg hm]
      · intro i hi
        unfold specLeft
        by_cases h0 : mbx = 0
        · rw [if_pos h0, if_pos h0]
        · rw [if_neg h0, if_neg h0, inv.leftCol i hi, if_neg h0]
    · exact inv.out b hb

theorem rowMbs_inv (f : Frame) (mby : Nat) : ∀ (k mbx : Nat) (s : St), mbx + k = f.W → FInv f mbx mby s →
    FInv f f.W mby (rowMbs f mby k mbx s) := by
  intro k
  induction k with
  | zero => intro mbx s h inv; have : mbx = f.W := by omega
            subst this; exact inv
  | succ k ih =>
    intro mbx s h inv
    rw [rowMbs]
    exact ih (mbx + 1) _ (by omega) (mbStep_inv f mbx mby (by omega) s inv)

theorem next_row (f : Frame) (mby : Nat) (s : St) (inv : FInv f f.W mby s) :
    FInv f 0 (mby + 1) { s with left := fun _ => 129 } :=
  { topDone := fun j hj => by omega,
    topOld := fun j _ h2 => by
      rw [if_neg (by omega), show 16 * (mby + 1) - 1 = 16 * mby + 15 by omega]
      exact inv.topDone j h2,
    leftCol := fun i _ => by rw [if_pos rfl],
    corner := by rw [if_pos rfl],
    out := inv.out }

theorem rows_inv (f : Frame) : ∀ (k mby : Nat) (s : St), FInv f 0 mby { s with left := fun _ => 129 } →
    ∀ b ∈ (rows f k mby s).out, Good f b := by
  intro k
  induction k with
  | zero => intro mby s inv b hb; exact inv.out b hb
  | succ k ih =>
    intro mby s inv
    rw [rows]
    have h1 := rowMbs_inv f mby f.W 0 _ (by omega) inv
    exact ih (mby + 1) _ (next_row f mby _ h1)

/-- **The border bookkeeping is the RFC rule** -/
theorem run_spec (f : Frame) : ∀ b ∈ run f, Good f b := by
  intro b hb
  unfold run at hb
  rw [List.mem_reverse] at hb
  refine rows_inv f f.H 0 _ ?_ b hb
  exact { topDone := fun j hj => by omega, topOld := fun j _ _ => by rw [if_pos rfl],
          leftCol := fun i _ => by rw [if_pos rfl], corner := by rw [if_pos rfl], out := fun b hb => by cases hb }

end Vp8Border
