import WebpVerif.Model.Enc
import WebpVerif.Model.LosslessKernels

/-! Run-length prefix coding of the encoder, checked for every run length 1..4096 (finite table,
    kernel evaluation). -/
namespace EncLen
open Enc

def lenOk (len : Nat) : Bool :=
  len < 5 || len > 4096 || ((lengthToSymbol len).1 < 24 && 4 ≤ (lengthToSymbol len).1 &&
    LK.copyExtraBits (lengthToSymbol len).1 == (lengthToSymbol len).2 &&
    LK.copyValue (lengthToSymbol len).1 ((len - 1) % 2 ^ (lengthToSymbol len).2) == len)

theorem lenOk_all : ∀ k < 17, ∀ j < 256, lenOk (256 * k + j) = true := by decide +kernel

theorem length_symbol_inv (len : Nat) (h : len < 4097) (h5 : 5 ≤ len) :
    (lengthToSymbol len).1 < 24 ∧ 4 ≤ (lengthToSymbol len).1 ∧ LK.copyExtraBits (lengthToSymbol len).1 = (lengthToSymbol len).2 ∧
    LK.copyValue (lengthToSymbol len).1 ((len - 1) % 2 ^ (lengthToSymbol len).2) = len := by
  have := lenOk_all (len / 256) (by omega) (len % 256) (Nat.mod_lt _ (by omega))
  rw [Nat.div_add_mod] at this
  unfold lenOk at this
  have h5' : ¬ len < 5 := by omega
  have h6' : ¬ len > 4096 := by omega
  simp only [h5', h6', decide_false, Bool.false_or, Bool.and_eq_true, decide_eq_true_eq, beq_iff_eq] at this
  exact ⟨this.1.1.1, this.1.1.2, this.1.2, this.2⟩

end EncLen
