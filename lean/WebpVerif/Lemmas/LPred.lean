import WebpVerif.Lemmas.LTrans

/-!
The predictor-transform driver `apply_predictor_transform` (model `LTr.applyPredictor`, the code's own
processing order) computes the specification's inverse predictor transform.
-/
namespace LTrProof
open LTr LK
set_option linter.unusedSimpArgs false

theorem getD_set (arr : Array Nat) (i v j : Nat) :
    (arr.setIfInBounds i v).getD j 0 = if i = j ∧ j < arr.size then v else arr.getD j 0 := by
  by_cases hj : j < arr.size
  · have h1 : (arr.setIfInBounds i v).getD j 0 = (arr.setIfInBounds i v)[j]'(by simpa using hj) := by
      simp [Array.getD, hj]
    have h2 : arr.getD j 0 = arr[j] := by simp [Array.getD, hj]
    rw [h1, h2, Array.getElem_setIfInBounds hj]
    simp [hj]
  · have h1 : (arr.setIfInBounds i v).getD j 0 = 0 := by simp [Array.getD, hj]
    have h2 : arr.getD j 0 = 0 := by simp [Array.getD, hj]
    rw [h1, h2]; simp [hj]

theorem size_setPx (arr : Array Nat) (p : Nat) (v : List Nat) : (setPx arr p v).size = arr.size := by
  unfold setPx; simp only [Array.size_setIfInBounds]

theorem getD_setPx (arr : Array Nat) (p : Nat) (v : List Nat) (hp : 4 * p + 4 ≤ arr.size) (j : Nat) :
    (setPx arr p v).getD j 0 = if 4 * p ≤ j ∧ j < 4 * p + 4 then v.getD (j - 4 * p) 0 else arr.getD j 0 := by
  unfold setPx
  simp only [getD_set, Array.size_setIfInBounds]
  by_cases h3 : 4 * p + 3 = j
  · subst h3; simp; omega
  by_cases h2 : 4 * p + 2 = j
  · subst h2; simp; omega
  by_cases h1 : 4 * p + 1 = j
  · subst h1; simp; omega
  by_cases h0 : 4 * p = j
  · subst h0; simp; omega
  · have : ¬ (4 * p ≤ j ∧ j < 4 * p + 4) := by omega
    simp [h3, h2, h1, h0, this]

theorem chans_getD (f : Nat → Nat) : (chans f).getD 0 0 = f 0 ∧ (chans f).getD 1 0 = f 1 ∧ (chans f).getD 2 0 = f 2 ∧ (chans f).getD 3 0 = f 3 :=
  ⟨rfl, rfl, rfl, rfl⟩

theorem px_setPx_same (arr : Array Nat) (p : Nat) (f : Nat → Nat) (hp : 4 * p + 4 ≤ arr.size) :
    px (setPx arr p (chans f)) p = chans f := by
  unfold px
  rw [getD_setPx _ _ _ hp, getD_setPx _ _ _ hp, getD_setPx _ _ _ hp, getD_setPx _ _ _ hp]
  rw [if_pos (by omega), if_pos (by omega), if_pos (by omega), if_pos (by omega)]
  have e0 : 4 * p - 4 * p = 0 := by omega
  have e1 : 4 * p + 1 - 4 * p = 1 := by omega
  have e2 : 4 * p + 2 - 4 * p = 2 := by omega
  have e3 : 4 * p + 3 - 4 * p = 3 := by omega
  rw [e0, e1, e2, e3]; rfl

theorem getD_setPx_other (arr : Array Nat) (p q : Nat) (v : List Nat) (hp : 4 * p + 4 ≤ arr.size) (hq : q ≠ p) (c : Nat) (hc : c < 4) :
    (setPx arr p v).getD (4 * q + c) 0 = arr.getD (4 * q + c) 0 := by
  rw [getD_setPx _ _ _ hp, if_neg (by omega)]

theorem px_setPx_other (arr : Array Nat) (p q : Nat) (v : List Nat) (hp : 4 * p + 4 ≤ arr.size) (hq : q ≠ p) :
    px (setPx arr p v) q = px arr q := by
  unfold px
  have := getD_setPx_other arr p q v hp hq 0 (by omega)
  rw [getD_setPx_other arr p q v hp hq 1 (by omega), getD_setPx_other arr p q v hp hq 2 (by omega), getD_setPx_other arr p q v hp hq 3 (by omega)]
  rw [show 4 * q = 4 * q + 0 by omega, this]


/-- what the driver has done so far: the pixels in `D` hold their final value `O q`, the others the input -/
def Inv (a : Array Nat) (N : Nat) (O : Nat → Nat) (D : Nat → Prop) (arr : Array Nat) : Prop :=
  arr.size = a.size ∧ (∀ q, q < N → D q → px arr q = bytesOf (O q)) ∧ (∀ q, q < N → ¬ D q → px arr q = px a q)

theorem Inv_congr {a : Array Nat} {N : Nat} {O : Nat → Nat} {D D' : Nat → Prop} {arr : Array Nat}
    (h : Inv a N O D arr) (e : ∀ q, q < N → (D q ↔ D' q)) : Inv a N O D' arr :=
  ⟨h.1, fun q hq hd => h.2.1 q hq ((e q hq).mpr hd), fun q hq hd => h.2.2 q hq (fun x => hd ((e q hq).mp x))⟩

def stepWith (arr : Array Nat) (p : Nat) (pr : List Nat) : Array Nat :=
  setPx arr p (chans fun c => (arr.getD (4 * p + c) 0 + pr.getD c 0) % 256)

theorem stepPx_eq (m w : Nat) (arr : Array Nat) (p : Nat) :
    stepPx m w arr p = stepWith arr p (predPx m (px arr (p - 1)) (px arr (p - w)) (px arr (p - w + 1)) (px arr (p - w - 1))) := rfl

theorem px_inj {a b : Array Nat} {p : Nat} (h : px a p = px b p) :
    a.getD (4 * p) 0 = b.getD (4 * p) 0 ∧ a.getD (4 * p + 1) 0 = b.getD (4 * p + 1) 0 ∧
    a.getD (4 * p + 2) 0 = b.getD (4 * p + 2) 0 ∧ a.getD (4 * p + 3) 0 = b.getD (4 * p + 3) 0 := by
  unfold px at h
  simp only [List.cons.injEq, and_true] at h
  exact h

theorem ch_addPx (P X k : Nat) (hk : k < 4) : VP8L.ch (VP8L.addPx P X) k = (VP8L.ch P k + VP8L.ch X k) % 256 := by
  unfold VP8L.addPx; exact ch_perCh' _ k hk

theorem step_inv (a : Array Nat) (N : Nat) (O : Nat → Nat) (D : Nat → Prop) (arr : Array Nat) (hs : a.size = 4 * N) (hb : Bytes a)
    (hinv : Inv a N O D arr) (p : Nat) (hp : p < N) (hD : ¬ D p) (pr : List Nat) (X : Nat)
    (hpr : pr.getD 0 0 = VP8L.ch X 2 ∧ pr.getD 1 0 = VP8L.ch X 1 ∧ pr.getD 2 0 = VP8L.ch X 0 ∧ pr.getD 3 0 = VP8L.ch X 3)
    (hO : O p = VP8L.addPx (pixAt a p) X) :
    Inv a N O (fun q => D q ∨ q = p) (stepWith arr p pr) := by
  obtain ⟨hsz, hdone, hrest⟩ := hinv
  have hp4 : 4 * p + 4 ≤ arr.size := by omega
  refine ⟨by unfold stepWith; rw [size_setPx]; exact hsz, ?_, ?_⟩
  · intro q hq hd
    by_cases hqp : q = p
    · subst hqp
      unfold stepWith
      rw [px_setPx_same _ _ _ hp4]
      obtain ⟨i0, i1, i2, i3⟩ := px_inj (hrest q hq hD)
      obtain ⟨c0, c1, c2, c3⟩ := ch_pixAt a hb q
      unfold bytesOf chans
      rw [hO, ch_addPx _ _ 0 (by omega), ch_addPx _ _ 1 (by omega), ch_addPx _ _ 2 (by omega), ch_addPx _ _ 3 (by omega),
        c0, c1, c2, c3, ← hpr.1, ← hpr.2.1, ← hpr.2.2.1, ← hpr.2.2.2, ← i0, ← i1, ← i2, ← i3]
      rfl
    · unfold stepWith
      rw [px_setPx_other _ _ _ _ hp4 hqp]
      exact hdone q hq (hd.resolve_right hqp)
  · intro q hq hd
    have hqp : q ≠ p := fun e => hd (Or.inr e)
    unfold stepWith
    rw [px_setPx_other _ _ _ _ hp4 hqp]
    exact hrest q hq (fun x => hd (Or.inl x))


theorem chans_lt (f : Nat → Nat) (hf : ∀ c, f c < 256) : ∀ c, c < 4 → (chans f).getD c 0 < 256 := by
  intro c hc
  have : c = 0 ∨ c = 1 ∨ c = 2 ∨ c = 3 := by omega
  rcases this with h | h | h | h <;> subst h <;> exact hf _

theorem predPx_lt (m : Nat) (hm : m < 14) (L T TR TL : Nat) :
    ∀ c, c < 4 → (predPx m (bytesOf L) (bytesOf T) (bytesOf TR) (bytesOf TL)).getD c 0 < 256 := by
  have bL := bytesOf_lt L; have bT := bytesOf_lt T; have bR := bytesOf_lt TR; have bQ := bytesOf_lt TL
  have cases : m = 0 ∨ m = 1 ∨ m = 2 ∨ m = 3 ∨ m = 4 ∨ m = 5 ∨ m = 6 ∨ m = 7 ∨ m = 8 ∨ m = 9 ∨ m = 10 ∨ m = 11 ∨ m = 12 ∨ m = 13 := by omega
  rcases cases with h | h | h | h | h | h | h | h | h | h | h | h | h | h <;> subst h
  · rw [predPx_0]; intro c hc
    have : c = 0 ∨ c = 1 ∨ c = 2 ∨ c = 3 := by omega
    rcases this with h | h | h | h <;> subst h <;> decide
  · rw [predPx_1]; exact chans_lt _ (bL)
  · rw [predPx_2]; exact chans_lt _ (bT)
  · rw [predPx_3]; exact chans_lt _ (bR)
  · rw [predPx_4]; exact chans_lt _ (bQ)
  · rw [predPx_5]; exact chans_lt _ (fun c => avg_lt _ _ (avg_lt _ _ (bL c) (bR c)) (bT c))
  · rw [predPx_6]; exact chans_lt _ (fun c => avg_lt _ _ (bL c) (bQ c))
  · rw [predPx_7]; exact chans_lt _ (fun c => avg_lt _ _ (bL c) (bT c))
  · rw [predPx_8]; exact chans_lt _ (fun c => avg_lt _ _ (bQ c) (bT c))
  · rw [predPx_9]; exact chans_lt _ (fun c => avg_lt _ _ (bT c) (bR c))
  · rw [predPx_10]; exact chans_lt _ (fun c => avg_lt _ _ (avg_lt _ _ (bL c) (bQ c)) (avg_lt _ _ (bT c) (bR c)))
  · rw [predPx_11]; split
    · exact chans_lt _ bL
    · exact chans_lt _ bT
  · rw [predPx_12]; exact chans_lt _ (fun c => clampFull_lt _ _ _)
  · rw [predPx_13]; exact chans_lt _ (fun c => clampHalf_lt _ _)

/-- the prediction the code adds, byte by byte = the channels of the specification's prediction -/
theorem predPx_bytes (m : Nat) (hm : m < 14) (L T TR TL : Nat) :
    let pr := predPx m (bytesOf L) (bytesOf T) (bytesOf TR) (bytesOf TL)
    let X := VP8L.predict m L T TR TL
    pr.getD 0 0 = VP8L.ch X 2 ∧ pr.getD 1 0 = VP8L.ch X 1 ∧ pr.getD 2 0 = VP8L.ch X 0 ∧ pr.getD 3 0 = VP8L.ch X 3 := by
  intro pr X
  have hlt := predPx_lt m hm L T TR TL
  obtain ⟨s0, s1, s2, s3⟩ := predPx_is_predict m hm L T TR TL
  obtain ⟨k0, k1, k2, k3⟩ := ch_mk (pr.getD 3 0) (pr.getD 0 0) (pr.getD 1 0) (pr.getD 2 0) (hlt 3 (by omega)) (hlt 0 (by omega)) (hlt 1 (by omega)) (hlt 2 (by omega))
  unfold packL at s0 s1 s2 s3
  exact ⟨k2.symm.trans s2, k1.symm.trans s1, k0.symm.trans s0, k3.symm.trans s3⟩


/-! #### the recurrence of the specification and the phases of the driver -/

def specPredO (O : Nat → Nat) (w bits : Nat) (d : Array Nat) (i : Nat) : Nat :=
  if i % w = 0 ∧ i / w = 0 then 0xff000000
  else if i / w = 0 then O (i - 1)
  else if i % w = 0 then O (i - w)
  else VP8L.predict (d.getD (4 * blockIdx w bits i + 1) 0) (O (i - 1)) (O (i - w)) (O (i - w + 1)) (O (i - w - 1))

def Sol (a d : Array Nat) (w bits N : Nat) (O : Nat → Nat) : Prop :=
  ∀ i, i < N → O i = VP8L.addPx (pixAt a i) (specPredO O w bits d i)

theorem fold_inv {a : Array Nat} {N : Nat} {O : Nat → Nat} (P : Nat → Nat → Prop) (f : Array Nat → Nat → Array Nat) (n : Nat) :
    ∀ (x0 : Nat) (arr : Array Nat), (∀ x arr, x0 ≤ x → x < x0 + n → Inv a N O (P x) arr → Inv a N O (P (x + 1)) (f arr x)) →
      Inv a N O (P x0) arr → Inv a N O (P (x0 + n)) ((List.range' x0 n).foldl f arr) := by
  induction n with
  | zero => intro x0 arr _ h; simpa using h
  | succ n ih =>
    intro x0 arr hstep h
    rw [List.range'_succ, List.foldl_cons]
    have := ih (x0 + 1) (f arr x0) (fun x arr' h1 h2 => hstep x arr' (by omega) (by omega)) (hstep x0 arr (by omega) (by omega) h)
    rw [show x0 + (n + 1) = x0 + 1 + n by omega]; exact this

theorem divmod (w y x : Nat) (hx : x < w) : (y * w + x) / w = y ∧ (y * w + x) % w = x := by
  have hw : 0 < w := by omega
  constructor
  · rw [Nat.add_comm, Nat.add_mul_div_right _ _ hw, Nat.div_eq_of_lt hx]; omega
  · rw [Nat.add_comm, Nat.add_mul_mod_self_right, Nat.mod_eq_of_lt hx]

theorem lt_N (w h y x : Nat) (hy : y < h) (hx : x < w) : y * w + x < w * h := by
  have : (y + 1) * w ≤ h * w := Nat.mul_le_mul_right _ hy
  rw [Nat.succ_mul] at this
  rw [Nat.mul_comm w h]; omega

theorem eq_mul_iff (w q y : Nat) (hw : 0 < w) : (q % w = 0 ∧ q / w = y) ↔ q = y * w := by
  constructor
  · intro ⟨h1, h2⟩
    have := Nat.div_add_mod q w
    rw [h1, h2, Nat.mul_comm] at this; omega
  · intro h; subst h
    have := divmod w y 0 hw
    simpa using this.symm

theorem px_congr {a b : Array Nat} (h : ∀ j, a.getD j 0 = b.getD j 0) (q : Nat) : px a q = px b q := by
  unfold px; rw [h, h, h, h]

theorem Inv_getD {a : Array Nat} {N : Nat} {O : Nat → Nat} {D : Nat → Prop} {arr arr' : Array Nat}
    (h : Inv a N O D arr') (hs : arr.size = arr'.size) (e : ∀ j, arr.getD j 0 = arr'.getD j 0) : Inv a N O D arr :=
  ⟨hs.trans h.1, fun q hq hd => (px_congr e q).trans (h.2.1 q hq hd), fun q hq hd => (px_congr e q).trans (h.2.2 q hq hd)⟩

theorem div_zero_iff (w q : Nat) (hw : 0 < w) : q / w = 0 ↔ q < w := by
  constructor
  · intro h
    by_cases hq : q < w
    · exact hq
    · have := Nat.div_pos (by omega : w ≤ q) hw; omega
  · exact Nat.div_eq_of_lt

/-- first row and first column up to row `y` -/
def D2 (w y q : Nat) : Prop := q / w = 0 ∨ (q % w = 0 ∧ q / w < y)

theorem eq_pos_iff (w q y x : Nat) (hx : x < w) : (q / w = y ∧ q % w = x) ↔ q = y * w + x := by
  constructor
  · intro ⟨h1, h2⟩
    have := Nat.div_add_mod q w
    rw [h1, h2, Nat.mul_comm] at this; omega
  · intro h; subst h; exact divmod w y x hx

/-- rows above `y`, the first column, and row `y` up to column `x` -/
def D3 (w y x q : Nat) : Prop := q / w < y ∨ q % w = 0 ∨ (q / w = y ∧ q % w < x)

section phases
variable (a d : Array Nat) (w h bits : Nat) (O : Nat → Nat)
variable (hw : 0 < w) (hh : 0 < h) (hs : a.size = 4 * (w * h)) (hb : Bytes a)
variable (hsol : Sol a d w bits (w * h) O)

include hw hh hs hb hsol in
/-- pixel 0 -/
theorem phase0 : Inv a (w * h) O (fun q => q < 1) (a.setIfInBounds 3 ((a.getD 3 0 + 255) % 256)) := by
  have hN : 0 < w * h := Nat.mul_pos hw hh
  have h0 : Inv a (w * h) O (fun _ => False) a := ⟨rfl, fun _ _ f => f.elim, fun _ _ _ => rfl⟩
  have hO := hsol 0 hN
  have e : specPredO O w bits d 0 = 0xff000000 := by
    unfold specPredO; rw [if_pos ⟨Nat.zero_mod _, Nat.zero_div _⟩]
  rw [e] at hO
  have st := step_inv a (w * h) O _ a hs hb h0 0 hN (fun f => f) [0, 0, 0, 255] 0xff000000
    ⟨by decide, by decide, by decide, by decide⟩ hO
  have st := Inv_congr st (D' := fun q => q < 1) (fun q _ => by
    show (False ∨ q = 0) ↔ q < 1
    constructor
    · intro h; rcases h with h | h
      · exact h.elim
      · omega
    · intro h; right; omega)
  refine Inv_getD st (by unfold stepWith; rw [size_setPx, Array.size_setIfInBounds]) ?_
  intro j
  unfold stepWith
  rw [getD_set, getD_setPx _ _ _ (by omega)]
  have b0 := hb 0; have b1 := hb 1; have b2 := hb 2
  by_cases j3 : j = 3
  · subst j3
    rw [if_pos ⟨rfl, by omega⟩, if_pos (by omega)]
    show _ = (a.getD (4 * 0 + 3) 0 + 255) % 256
    rfl
  by_cases j0 : j = 0
  · subst j0
    rw [if_neg (by omega), if_pos (by omega)]
    show _ = (a.getD (4 * 0 + 0) 0 + 0) % 256
    show a.getD 0 0 = (a.getD 0 0 + 0) % 256
    omega
  by_cases j1 : j = 1
  · subst j1
    rw [if_neg (by omega), if_pos (by omega)]
    show a.getD 1 0 = (a.getD 1 0 + 0) % 256
    omega
  by_cases j2 : j = 2
  · subst j2
    rw [if_neg (by omega), if_pos (by omega)]
    show a.getD 2 0 = (a.getD 2 0 + 0) % 256
    omega
  · rw [if_neg (by omega), if_neg (by omega)]


include hw hh hs hb hsol in
/-- the rest of the first row: predictor 1 (left) -/
theorem phase1 (arr : Array Nat) (hinv : Inv a (w * h) O (fun q => q < 1) arr) :
    Inv a (w * h) O (fun q => q < w) (span 1 w 0 arr 1 w) := by
  unfold span
  have := fold_inv (a := a) (N := w * h) (O := O) (fun x q => q < x) (fun a x => stepPx 1 w a (0 * w + x)) (w - 1) 1 arr ?_ hinv
  · rw [show 1 + (w - 1) = w by omega] at this; exact this
  intro x arr' hx1 hx2 hi
  have hxw : x < w := by omega
  have hxN : x < w * h := by have := lt_N w h 0 x hh hxw; omega
  rw [Nat.zero_mul, Nat.zero_add, stepPx_eq, predPx_1]
  have hL : px arr' (x - 1) = bytesOf (O (x - 1)) := hi.2.1 (x - 1) (by omega) (by show x - 1 < x; omega)
  have hO := hsol x hxN
  have e : specPredO O w bits d x = O (x - 1) := by
    unfold specPredO
    have m1 : x % w = x := Nat.mod_eq_of_lt hxw
    have m2 : x / w = 0 := Nat.div_eq_of_lt hxw
    rw [if_neg (by omega), if_pos m2]
  rw [e] at hO
  rw [hL]
  have st := step_inv a (w * h) O _ arr' hs hb hi x hxN (by show ¬ x < x; omega) (chans fun c => (bytesOf (O (x - 1))).getD c 0) (O (x - 1))
    ⟨rfl, rfl, rfl, rfl⟩ hO
  exact Inv_congr st (fun q _ => by show (q < x ∨ q = x) ↔ q < x + 1; omega)


include hw hh hs hb hsol in
/-- the first column: predictor 2 (top) -/
theorem phase2 (arr : Array Nat) (hinv : Inv a (w * h) O (fun q => q < w) arr) :
    Inv a (w * h) O (D2 w h) ((List.range' 1 (h - 1)).foldl (fun a y => stepPx 2 w a (y * w)) arr) := by
  have start : Inv a (w * h) O (D2 w 1) arr := Inv_congr hinv (fun q _ => by
    show q < w ↔ (q / w = 0 ∨ (q % w = 0 ∧ q / w < 1))
    have := div_zero_iff w q hw
    constructor
    · intro h; exact Or.inl (this.mpr h)
    · intro h; rcases h with h | h
      · exact this.mp h
      · exact this.mp (Nat.lt_one_iff.mp h.2))
  have := fold_inv (a := a) (N := w * h) (O := O) (D2 w) (fun a y => stepPx 2 w a (y * w)) (h - 1) 1 arr ?_ start
  · rw [show 1 + (h - 1) = h by omega] at this; exact this
  intro y arr' hy1 hy2 hi
  have hyh : y < h := by omega
  obtain ⟨y', rfl⟩ : ∃ y', y = y' + 1 := ⟨y - 1, by omega⟩
  have hpN : (y' + 1) * w < w * h := by have := lt_N w h (y' + 1) 0 hyh hw; omega
  obtain ⟨dv, md⟩ := divmod w (y' + 1) 0 hw
  rw [Nat.add_zero] at dv md
  obtain ⟨dv', md'⟩ := divmod w y' 0 hw
  rw [Nat.add_zero] at dv' md'
  have hsub : (y' + 1) * w - w = y' * w := by rw [Nat.succ_mul]; omega
  have hqN : y' * w < w * h := by have := lt_N w h y' 0 (by omega) hw; omega
  rw [stepPx_eq, predPx_2, hsub]
  have hT : px arr' (y' * w) = bytesOf (O (y' * w)) := hi.2.1 (y' * w) hqN (by
    show y' * w / w = 0 ∨ (y' * w % w = 0 ∧ y' * w / w < y' + 1)
    right; rw [dv', md']; omega)
  have hO := hsol ((y' + 1) * w) hpN
  have e : specPredO O w bits d ((y' + 1) * w) = O (y' * w) := by
    unfold specPredO
    rw [dv, md, if_neg (by omega), if_neg (by omega), if_pos rfl, hsub]
  rw [e] at hO
  rw [hT]
  have st := step_inv a (w * h) O _ arr' hs hb hi ((y' + 1) * w) hpN (by
      show ¬ ((y' + 1) * w / w = 0 ∨ ((y' + 1) * w % w = 0 ∧ (y' + 1) * w / w < y' + 1))
      rw [dv, md]; omega)
    (chans fun c => (bytesOf (O (y' * w))).getD c 0) (O (y' * w)) ⟨rfl, rfl, rfl, rfl⟩ hO
  exact Inv_congr st (fun q _ => by
    show ((q / w = 0 ∨ (q % w = 0 ∧ q / w < y' + 1)) ∨ q = (y' + 1) * w) ↔ (q / w = 0 ∨ (q % w = 0 ∧ q / w < y' + 1 + 1))
    have := eq_mul_iff w q (y' + 1) hw
    constructor
    · intro h; rcases h with (h | h) | h
      · exact Or.inl h
      · exact Or.inr ⟨h.1, by omega⟩
      · have := this.mpr h; exact Or.inr ⟨this.1, by omega⟩
    · intro h; rcases h with h | h
      · exact Or.inl (Or.inl h)
      · by_cases hq : q / w = y' + 1
        · exact Or.inr (this.mp ⟨h.1, hq⟩)
        · exact Or.inl (Or.inr ⟨h.1, by omega⟩))


include hw hh hs hb hsol in
/-- one interior pixel: the block's predictor applied to the finished neighbours -/
theorem interior (hmode : ∀ k, d.getD (4 * k + 1) 0 < 14) (arr' : Array Nat) (y x : Nat) (hy1 : 1 ≤ y) (hyh : y < h) (hx1 : 1 ≤ x) (hxw : x < w)
    (hi : Inv a (w * h) O (D3 w y x) arr') :
    Inv a (w * h) O (D3 w y (x + 1)) (stepPx (d.getD (4 * blockIdx w bits (y * w + x) + 1) 0) w arr' (y * w + x)) := by
  obtain ⟨y', rfl⟩ : ∃ y', y = y' + 1 := ⟨y - 1, by omega⟩
  have sm : (y' + 1) * w = y' * w + w := Nat.succ_mul _ _
  have e1 : (y' + 1) * w + x - 1 = (y' + 1) * w + (x - 1) := by omega
  have e2 : (y' + 1) * w + x - w = y' * w + x := by omega
  have e3 : y' * w + x + 1 = y' * w + (x + 1) := by omega
  have e4 : y' * w + x - 1 = y' * w + (x - 1) := by omega
  have hpN := lt_N w h (y' + 1) x hyh hxw
  have n1 := lt_N w h (y' + 1) (x - 1) hyh (by omega)
  have n2 := lt_N w h y' x (by omega) hxw
  have n4 := lt_N w h y' (x - 1) (by omega) (by omega)
  have n3 : y' * w + (x + 1) < w * h := by omega
  obtain ⟨dv, md⟩ := divmod w (y' + 1) x hxw
  obtain ⟨dv1, md1⟩ := divmod w (y' + 1) (x - 1) (by omega)
  obtain ⟨dv2, md2⟩ := divmod w y' x hxw
  obtain ⟨dv4, md4⟩ := divmod w y' (x - 1) (by omega)
  have hL := hi.2.1 _ n1 (by show _ ∨ _ ∨ _; rw [dv1, md1]; right; right; omega)
  have hT := hi.2.1 _ n2 (by show _ ∨ _ ∨ _; rw [dv2]; left; omega)
  have hTL := hi.2.1 _ n4 (by show _ ∨ _ ∨ _; rw [dv4]; left; omega)
  have hTR := hi.2.1 _ n3 (by
    show _ ∨ _ ∨ _
    by_cases hx : x + 1 < w
    · rw [(divmod w y' (x + 1) hx).1]; left; omega
    · have : y' * w + (x + 1) = (y' + 1) * w + 0 := by omega
      rw [this, (divmod w (y' + 1) 0 hw).2]; right; left; rfl)
  rw [stepPx_eq, e1, e2, e3, e4, hL, hT, hTR, hTL]
  have hO := hsol _ hpN
  have e : specPredO O w bits d ((y' + 1) * w + x) = VP8L.predict (d.getD (4 * blockIdx w bits ((y' + 1) * w + x) + 1) 0)
      (O ((y' + 1) * w + (x - 1))) (O (y' * w + x)) (O (y' * w + (x + 1))) (O (y' * w + (x - 1))) := by
    unfold specPredO
    rw [dv, md, if_neg (by omega), if_neg (by omega), if_neg (by omega), e1, e2, e3, e4]
  rw [e] at hO
  have st := step_inv a (w * h) O _ arr' hs hb hi _ hpN (by
      show ¬ (_ ∨ _ ∨ _)
      rw [dv, md]; omega) _ _ (predPx_bytes _ (hmode _) _ _ _ _) hO
  exact Inv_congr st (fun q _ => by
    show ((q / w < y' + 1 ∨ q % w = 0 ∨ (q / w = y' + 1 ∧ q % w < x)) ∨ q = (y' + 1) * w + x) ↔
      (q / w < y' + 1 ∨ q % w = 0 ∨ (q / w = y' + 1 ∧ q % w < x + 1))
    have := eq_pos_iff w q (y' + 1) x hxw
    constructor
    · intro h; rcases h with (h | h | h) | h
      · exact Or.inl h
      · exact Or.inr (Or.inl h)
      · exact Or.inr (Or.inr ⟨h.1, by omega⟩)
      · have := this.mpr h; exact Or.inr (Or.inr ⟨this.1, by omega⟩)
    · intro h; rcases h with h | h | h
      · exact Or.inl (Or.inl h)
      · exact Or.inl (Or.inr (Or.inl h))
      · by_cases hq : q % w = x
        · exact Or.inr (this.mp ⟨h.1, hq⟩)
        · exact Or.inl (Or.inr (Or.inr ⟨h.1, by omega⟩)))


include hw hh hs hb hsol in
/-- one block of a row -/
theorem span_block (hmode : ∀ k, d.getD (4 * k + 1) 0 < 14) (arr : Array Nat) (y bx : Nat) (hy1 : 1 ≤ y) (hyh : y < h)
    (hbx : bx * 2 ^ bits < w)
    (hi : Inv a (w * h) O (D3 w y (max (bx * 2 ^ bits) 1)) arr) :
    Inv a (w * h) O (D3 w y (min ((bx + 1) * 2 ^ bits) w))
      (span (d.getD (((y / 2 ^ bits) * subSize w bits + bx) * 4 + 1) 0) w y arr (max (bx * 2 ^ bits) 1) (min ((bx + 1) * 2 ^ bits) w)) := by
  have hB : 0 < 2 ^ bits := Nat.two_pow_pos bits
  have sm : (bx + 1) * 2 ^ bits = bx * 2 ^ bits + 2 ^ bits := Nat.succ_mul _ _
  have hle : max (bx * 2 ^ bits) 1 ≤ min ((bx + 1) * 2 ^ bits) w := by omega
  unfold span
  have := fold_inv (a := a) (N := w * h) (O := O) (D3 w y)
    (fun a x => stepPx (d.getD (((y / 2 ^ bits) * subSize w bits + bx) * 4 + 1) 0) w a (y * w + x))
    (min ((bx + 1) * 2 ^ bits) w - max (bx * 2 ^ bits) 1) (max (bx * 2 ^ bits) 1) arr ?_ hi
  · rw [show max (bx * 2 ^ bits) 1 + (min ((bx + 1) * 2 ^ bits) w - max (bx * 2 ^ bits) 1) = min ((bx + 1) * 2 ^ bits) w by omega] at this
    exact this
  intro x arr' hx1 hx2 hi'
  have hxw : x < w := by omega
  have hx0 : 1 ≤ x := by omega
  have hdiv : x / 2 ^ bits = bx := Nat.div_eq_of_lt_le (by omega) (by omega)
  obtain ⟨dv, md⟩ := divmod w y x hxw
  have hidx : ((y / 2 ^ bits) * subSize w bits + bx) * 4 + 1 = 4 * blockIdx w bits (y * w + x) + 1 := by
    unfold blockIdx; rw [dv, md, hdiv]
    show ((y / 2 ^ bits) * subSize w bits + bx) * 4 + 1 = 4 * ((y / 2 ^ bits) * subSize w bits + bx) + 1
    omega
  show Inv a (w * h) O (D3 w y (x + 1)) (stepPx (d.getD (((y / 2 ^ bits) * subSize w bits + bx) * 4 + 1) 0) w arr' (y * w + x))
  rw [hidx]
  exact interior a d w h bits O hw hh hs hb hsol hmode arr' y x hy1 hyh hx0 hxw hi'

theorem subSize_spec (w bits : Nat) : (∀ bx, bx < subSize w bits → bx * 2 ^ bits < w) ∧ w ≤ subSize w bits * 2 ^ bits := by
  have hB : 0 < 2 ^ bits := Nat.two_pow_pos bits
  unfold subSize
  constructor
  · intro bx hbx
    have : bx + 1 ≤ (w + 2 ^ bits - 1) / 2 ^ bits := hbx
    rw [Nat.le_div_iff_mul_le hB, Nat.succ_mul] at this
    omega
  · have := Nat.div_add_mod (w + 2 ^ bits - 1) (2 ^ bits)
    have := Nat.mod_lt (w + 2 ^ bits - 1) hB
    rw [Nat.mul_comm]
    omega

include hw hh hs hb hsol in
/-- one row, block by block -/
theorem row_inv (hmode : ∀ k, d.getD (4 * k + 1) 0 < 14) (arr : Array Nat) (y : Nat) (hy1 : 1 ≤ y) (hyh : y < h)
    (hi : Inv a (w * h) O (D3 w y 1) arr) : Inv a (w * h) O (D3 w y w) (rowBlocks w bits d arr y) := by
  obtain ⟨hS1, hS2⟩ := subSize_spec w bits
  unfold rowBlocks
  rw [List.range_eq_range']
  have := fold_inv (a := a) (N := w * h) (O := O) (fun bx => D3 w y (max (min (bx * 2 ^ bits) w) 1))
    (fun a bx => span (d.getD (((y / 2 ^ bits) * subSize w bits + bx) * 4 + 1) 0) w y a (max (bx * 2 ^ bits) 1) (min ((bx + 1) * 2 ^ bits) w))
    (subSize w bits) 0 arr ?_ (by
      show Inv a (w * h) O (D3 w y (max (min (0 * 2 ^ bits) w) 1)) arr
      rw [Nat.zero_mul, Nat.zero_min]; exact hi)
  · rw [Nat.zero_add, Nat.min_eq_right hS2, Nat.max_eq_left hw] at this
    exact this
  intro bx arr' _ hbx hi'
  have hlt := hS1 bx (by omega)
  have hB : 0 < 2 ^ bits := Nat.two_pow_pos bits
  have sm : (bx + 1) * 2 ^ bits = bx * 2 ^ bits + 2 ^ bits := Nat.succ_mul _ _
  have e1 : max (min (bx * 2 ^ bits) w) 1 = max (bx * 2 ^ bits) 1 := by omega
  have e2 : max (min ((bx + 1) * 2 ^ bits) w) 1 = min ((bx + 1) * 2 ^ bits) w := by omega
  show Inv a (w * h) O (D3 w y (max (min ((bx + 1) * 2 ^ bits) w) 1)) _
  rw [e2]
  rw [e1] at hi'
  exact span_block a d w h bits O hw hh hs hb hsol hmode arr' y bx hy1 hyh hlt hi'

include hw hh hs hb hsol in
/-- all rows below the first -/
theorem rows_inv (hmode : ∀ k, d.getD (4 * k + 1) 0 < 14) (arr : Array Nat) (hi : Inv a (w * h) O (D3 w 1 1) arr) :
    Inv a (w * h) O (D3 w h 1) ((List.range' 1 (h - 1)).foldl (rowBlocks w bits d) arr) := by
  have := fold_inv (a := a) (N := w * h) (O := O) (fun y => D3 w y 1) (rowBlocks w bits d) (h - 1) 1 arr ?_ hi
  · rw [show 1 + (h - 1) = h by omega] at this; exact this
  intro y arr' hy1 hy2 hi'
  have r := row_inv a d w h bits O hw hh hs hb hsol hmode arr' y hy1 (by omega) hi'
  exact Inv_congr r (fun q _ => by
    show (q / w < y ∨ q % w = 0 ∨ (q / w = y ∧ q % w < w)) ↔ (q / w < y + 1 ∨ q % w = 0 ∨ (q / w = y + 1 ∧ q % w < 1))
    have := Nat.mod_lt q hw
    omega)


theorem repack (P X : Nat) : VP8L.mk (VP8L.ch (VP8L.addPx P X) 3) (VP8L.ch (VP8L.addPx P X) 2) (VP8L.ch (VP8L.addPx P X) 1) (VP8L.ch (VP8L.addPx P X) 0) =
    VP8L.addPx P X := by
  obtain ⟨c0, c1, c2, c3⟩ := ch_perCh (fun k => VP8L.ch P k + VP8L.ch X k)
  unfold VP8L.addPx
  rw [c0, c1, c2, c3]
  unfold VP8L.perCh
  simp only [Nat.mod_mod]

include hw hh hs hb hsol in
/-- **the driver computes the solution of the specification's recurrence** -/
theorem applyPredictor_solves (hmode : ∀ k, d.getD (4 * k + 1) 0 < 14) :
    pixels (applyPredictor w h bits d a) = (List.range (w * h)).map O := by
  have p0 := phase0 a d w h bits O hw hh hs hb hsol
  have p1 := phase1 a d w h bits O hw hh hs hb hsol _ p0
  have p2 := phase2 a d w h bits O hw hh hs hb hsol _ p1
  have p2' : Inv a (w * h) O (D3 w 1 1) _ := Inv_congr p2 (fun q hq => by
    show (q / w = 0 ∨ (q % w = 0 ∧ q / w < h)) ↔ (q / w < 1 ∨ q % w = 0 ∨ (q / w = 1 ∧ q % w < 1))
    have : q / w < h := by rw [Nat.div_lt_iff_lt_mul hw, Nat.mul_comm]; exact hq
    generalize q / w = qd at *
    generalize q % w = qm at *
    omega)
  have p3 := rows_inv a d w h bits O hw hh hs hb hsol hmode _ p2'
  have fin : applyPredictor w h bits d a = (List.range' 1 (h - 1)).foldl (rowBlocks w bits d)
      ((List.range' 1 (h - 1)).foldl (fun a y => stepPx 2 w a (y * w)) (span 1 w 0 (a.setIfInBounds 3 ((a.getD 3 0 + 255) % 256)) 1 w)) := rfl
  rw [fin]
  generalize (List.range' 1 (h - 1)).foldl (rowBlocks w bits d) _ = out at p3
  obtain ⟨hsz, hdone, _⟩ := p3
  unfold pixels
  rw [hsz, hs, show 4 * (w * h) / 4 = w * h by omega]
  apply List.map_congr_left
  intro q hq
  have hq : q < w * h := List.mem_range.mp hq
  have hd := hdone q hq (by
    show q / w < h ∨ _
    left; rw [Nat.div_lt_iff_lt_mul hw, Nat.mul_comm]; exact hq)
  obtain ⟨i0, i1, i2, i3⟩ : out.getD (4 * q) 0 = VP8L.ch (O q) 2 ∧ out.getD (4 * q + 1) 0 = VP8L.ch (O q) 1 ∧
      out.getD (4 * q + 2) 0 = VP8L.ch (O q) 0 ∧ out.getD (4 * q + 3) 0 = VP8L.ch (O q) 3 := by
    unfold px bytesOf at hd
    simp only [List.cons.injEq, and_true] at hd
    exact hd
  unfold pixAt
  rw [i0, i1, i2, i3, hsol q hq]
  exact repack _ _

end phases

/-! #### the specification's transform as the solution of the recurrence -/

section spec
variable (bits : Nat) (data : Array Nat) (w : Nat) (l : List Nat)

/-- the reconstructed pixels after `n` steps, newest first -/
def R : Nat → List Nat
  | 0 => []
  | n + 1 => VP8L.addPx (l.getD n 0) (VP8LP.predAt bits data w n (R n)) :: R n

def Osol (n : Nat) : Nat := VP8L.addPx (l.getD n 0) (VP8LP.predAt bits data w n (R bits data w l n))

theorem R_succ (n : Nat) : R bits data w l (n + 1) = Osol bits data w l n :: R bits data w l n := rfl

theorem inv_R (l' : List Nat) : ∀ i, i ≤ l.length → l' = l.drop i →
    VP8LP.invPredictor bits data w l' i (R bits data w l i) = (R bits data w l l.length).reverse := by
  induction l' with
  | nil =>
    intro i hle hd
    have : l.length ≤ i := by
      have := congrArg List.length hd; simp at this; omega
    have e : VP8LP.invPredictor bits data w [] i (R bits data w l i) = (R bits data w l i).reverse := rfl
    rw [e, show i = l.length by omega]
  | cons p rest ih =>
    intro i _ hd
    have hlt : i < l.length := by
      have := congrArg List.length hd; simp at this; omega
    have hp : l.getD i 0 = p := by
      have : (l.drop i).head? = some p := by rw [← hd]; rfl
      rw [List.head?_drop] at this
      rw [List.getD_eq_getElem?_getD, this]; rfl
    have hrest : rest = l.drop (i + 1) := by
      have : (l.drop i).tail = rest := by rw [← hd]; rfl
      rw [← this, List.tail_drop]
    have e : VP8LP.invPredictor bits data w (p :: rest) i (R bits data w l i) =
        VP8LP.invPredictor bits data w rest (i + 1) (VP8L.addPx p (VP8LP.predAt bits data w i (R bits data w l i)) :: R bits data w l i) := rfl
    rw [e, ← hp]
    exact ih (i + 1) (by omega) hrest


theorem R_rev : ∀ n, (R bits data w l n).reverse = (List.range n).map (Osol bits data w l) := by
  intro n
  induction n with
  | zero => rfl
  | succ n ih => rw [R_succ, List.reverse_cons, ih, List.range_succ, List.map_append]; rfl

theorem R_getD : ∀ n j, j < n → (R bits data w l n).getD j 0 = Osol bits data w l (n - 1 - j) := by
  intro n
  induction n with
  | zero => intro j hj; omega
  | succ n ih =>
    intro j hj
    rw [R_succ]
    cases j with
    | zero => rfl
    | succ j =>
      rw [List.getD_cons_succ, ih j (by omega)]
      congr 1
      omega

/-- the specification's inverse predictor transform, as the list of the `Osol` values -/
theorem invPredictor_eq : VP8LP.invPredictor bits data w l 0 [] = (List.range l.length).map (Osol bits data w l) := by
  have := inv_R bits data w l l 0 (by omega) (by simp)
  rw [← R_rev]; exact this

end spec

theorem osol_sol (a d : Array Nat) (w h bits : Nat) (hw : 0 < w) (hs : a.size = 4 * (w * h)) (hd : Bytes d) (hd4 : d.size % 4 = 0) :
    Sol a d w bits (w * h) (Osol bits (pixels d).toArray w (pixels a)) := by
  intro i hi
  have hget : (pixels a).getD i 0 = pixAt a i := pixels_getD a i (by omega)
  show VP8L.addPx ((pixels a).getD i 0) (VP8LP.predAt bits (pixels d).toArray w i (R bits (pixels d).toArray w (pixels a) i)) = _
  rw [hget]
  congr 1
  have hR := R_getD bits (pixels d).toArray w (pixels a) i
  have hmode := (ch_elem d hd hd4 (blockIdx w bits i)).2.1
  unfold VP8LP.predAt specPredO
  simp only []
  by_cases c1 : i % w = 0 ∧ i / w = 0
  · rw [if_pos c1, if_pos c1]
  rw [if_neg c1, if_neg c1]
  by_cases c2 : i / w = 0
  · rw [if_pos c2, if_pos c2]
    have : i ≠ 0 := by
      intro h0; subst h0; exact c1 ⟨Nat.zero_mod _, c2⟩
    rw [hR 0 (by omega)]; rfl
  rw [if_neg c2, if_neg c2]
  have hiw : w ≤ i := by
    by_cases hlt : i < w
    · exact absurd ((div_zero_iff w i hw).mpr hlt) c2
    · omega
  by_cases c3 : i % w = 0
  · rw [if_pos c3, if_pos c3, hR (w - 1) (by omega)]
    congr 1; omega
  rw [if_neg c3, if_neg c3]
  have hdm := Nat.div_add_mod i w
  have hge : w ≤ w * (i / w) := Nat.le_mul_of_pos_right w (Nat.pos_of_ne_zero c2)
  have hw2 : 2 ≤ w := by
    by_cases h1 : w = 1
    · subst h1; exact absurd (Nat.mod_one i) c3
    · omega
  have hi1 : w + 1 ≤ i := by
    have : 0 < i % w := Nat.pos_of_ne_zero c3
    omega
  rw [hR 0 (by omega), hR (w - 1) (by omega), hR (w - 2) (by omega), hR w (by omega)]
  have e1 : i - 1 - 0 = i - 1 := by omega
  have e2 : i - 1 - (w - 1) = i - w := by omega
  have e3 : i - 1 - (w - 2) = i - w + 1 := by omega
  have e4 : i - 1 - w = i - w - 1 := by omega
  rw [e1, e2, e3, e4]
  congr 1


/-- **`apply_predictor_transform` is the specification's inverse predictor transform**: for every
    image size, block size, predictor sub-image (modes 0..13) and residual buffer, the RGBA buffer
    after the driver - which works in place and in its own order: pixel 0, first row, first column,
    then row by row and block by block - read as ARGB pixels is the specification's result. -/
theorem predictor_is_spec (a d : Array Nat) (w h bits : Nat) (hw : 0 < w) (hh : 0 < h) (hs : a.size = 4 * (w * h))
    (hb : Bytes a) (hd : Bytes d) (hd4 : d.size % 4 = 0) (hmode : ∀ k, d.getD (4 * k + 1) 0 < 14) :
    pixels (applyPredictor w h bits d a) = VP8LP.invPredictor bits (pixels d).toArray w (pixels a) 0 [] := by
  rw [invPredictor_eq, pixels_length, hs, show 4 * (w * h) / 4 = w * h by omega]
  exact applyPredictor_solves a d w h bits _ hw hh hs hb (osol_sol a d w h bits hw hs hd hd4) hmode

end LTrProof
