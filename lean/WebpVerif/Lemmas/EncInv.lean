import WebpVerif.Lemmas.EncHead

/-!
Stage 6 of the bit-level round trip: the specification's inverse transforms undo the encoder's
forward transforms (subtract green; the predictor scheme "left in row 0, top below, opaque black
for the first pixel", signalled as mode 2 for every block).
-/
namespace EncRT
open Enc VP8LP

/-- a pixel `[r, g, b, a]` of bytes -/
def Px (p : List Nat) : Prop := p.getD 0 0 < 256 ∧ p.getD 1 0 < 256 ∧ p.getD 2 0 < 256 ∧ p.getD 3 0 < 256

theorem ch_pack (r g b a : Nat) (hr : r < 256) (hg : g < 256) (hb : b < 256) (ha : a < 256) :
    VP8L.ch (a * 2 ^ 24 + r * 2 ^ 16 + g * 2 ^ 8 + b) 0 = b ∧ VP8L.ch (a * 2 ^ 24 + r * 2 ^ 16 + g * 2 ^ 8 + b) 1 = g ∧
    VP8L.ch (a * 2 ^ 24 + r * 2 ^ 16 + g * 2 ^ 8 + b) 2 = r ∧ VP8L.ch (a * 2 ^ 24 + r * 2 ^ 16 + g * 2 ^ 8 + b) 3 = a := by
  unfold VP8L.ch
  refine ⟨?_, ?_, ?_, ?_⟩ <;> simp <;> omega

theorem getD4 (x0 x1 x2 x3 : Nat) : ([x0, x1, x2, x3] : List Nat).getD 0 0 = x0 ∧ ([x0, x1, x2, x3] : List Nat).getD 1 0 = x1 ∧
    ([x0, x1, x2, x3] : List Nat).getD 2 0 = x2 ∧ ([x0, x1, x2, x3] : List Nat).getD 3 0 = x3 := ⟨rfl, rfl, rfl, rfl⟩

theorem sub8_lt (a b : Nat) : sub8 a b < 256 := by unfold sub8; omega

theorem subGreen_px (p : List Nat) (h : Px p) : Px (subGreen p) := by
  obtain ⟨h0, h1, h2, h3⟩ := h
  unfold subGreen Px
  simp only [getD4]
  exact ⟨sub8_lt _ _, h1, sub8_lt _ _, h3⟩

/-- subtract green is undone by the specification's inverse -/
theorem invSubGreen_pack (p : List Nat) (h : Px p) : invSubGreenPx (pack (subGreen p)) = pack p := by
  obtain ⟨h0, h1, h2, h3⟩ := h
  unfold invSubGreenPx pack subGreen
  simp only [getD4]
  obtain ⟨c0, c1, c2, c3⟩ := ch_pack (sub8 (p.getD 0 0) (p.getD 1 0)) (p.getD 1 0) (sub8 (p.getD 2 0) (p.getD 1 0)) (p.getD 3 0)
    (sub8_lt _ _) h1 (sub8_lt _ _) h3
  rw [c0, c1, c2, c3]
  unfold VP8L.mk sub8
  have e1 : ((p.getD 0 0 + 256 - p.getD 1 0 % 256) % 256 + p.getD 1 0) % 256 = p.getD 0 0 := by omega
  have e2 : ((p.getD 2 0 + 256 - p.getD 1 0 % 256) % 256 + p.getD 1 0) % 256 = p.getD 2 0 := by omega
  rw [e1, e2]

/-- the residual the encoder's predictor writes at index `i` -/
def residAt (w : Nat) (px : Array (List Nat)) (i : Nat) : List Nat :=
  let p := px[i]!
  if i ≥ w then (List.range 4).map fun c => sub8 (p.getD c 0) ((px[i - w]!).getD c 0)
  else if i ≥ 1 then (List.range 4).map fun c => sub8 (p.getD c 0) ((px[i - 1]!).getD c 0)
  else [p.getD 0 0, p.getD 1 0, p.getD 2 0, sub8 (p.getD 3 0) 255]

theorem predictForward_toList (w : Nat) (px : Array (List Nat)) :
    (predictForward w px).toList = (List.range px.size).map (residAt w px) := by
  unfold predictForward
  simp only [Array.toList_map, List.toList_toArray]
  rfl

theorem range4_map (f : Nat → Nat) : (List.range 4).map f = [f 0, f 1, f 2, f 3] := rfl

/-- adding the prediction back, channel by channel -/
theorem addPx_pack (p q : List Nat) (hp : Px p) (hq : Px q) :
    VP8L.addPx (pack [sub8 (p.getD 0 0) (q.getD 0 0), sub8 (p.getD 1 0) (q.getD 1 0), sub8 (p.getD 2 0) (q.getD 2 0), sub8 (p.getD 3 0) (q.getD 3 0)])
      (pack q) = pack p := by
  obtain ⟨p0, p1, p2, p3⟩ := hp
  obtain ⟨q0, q1, q2, q3⟩ := hq
  unfold VP8L.addPx VP8L.perCh pack
  simp only [getD4]
  obtain ⟨c0, c1, c2, c3⟩ := ch_pack _ _ _ _ (sub8_lt (p.getD 0 0) (q.getD 0 0)) (sub8_lt (p.getD 1 0) (q.getD 1 0))
    (sub8_lt (p.getD 2 0) (q.getD 2 0)) (sub8_lt (p.getD 3 0) (q.getD 3 0))
  obtain ⟨d0, d1, d2, d3⟩ := ch_pack _ _ _ _ q0 q1 q2 q3
  rw [c0, c1, c2, c3, d0, d1, d2, d3]
  unfold VP8L.mk sub8
  have e0 : ((p.getD 0 0 + 256 - q.getD 0 0 % 256) % 256 + q.getD 0 0) % 256 = p.getD 0 0 := by omega
  have e1 : ((p.getD 1 0 + 256 - q.getD 1 0 % 256) % 256 + q.getD 1 0) % 256 = p.getD 1 0 := by omega
  have e2 : ((p.getD 2 0 + 256 - q.getD 2 0 % 256) % 256 + q.getD 2 0) % 256 = p.getD 2 0 := by omega
  have e3 : ((p.getD 3 0 + 256 - q.getD 3 0 % 256) % 256 + q.getD 3 0) % 256 = p.getD 3 0 := by omega
  rw [e0, e1, e2, e3]

/-- the first pixel: predicted from opaque black -/
theorem addPx_first (p : List Nat) (hp : Px p) :
    VP8L.addPx (pack [p.getD 0 0, p.getD 1 0, p.getD 2 0, sub8 (p.getD 3 0) 255]) 0xff000000 = pack p := by
  obtain ⟨p0, p1, p2, p3⟩ := hp
  unfold VP8L.addPx VP8L.perCh pack
  simp only [getD4]
  obtain ⟨c0, c1, c2, c3⟩ := ch_pack _ _ _ _ p0 p1 p2 (sub8_lt (p.getD 3 0) 255)
  rw [c0, c1, c2, c3]
  have d : VP8L.ch 0xff000000 0 = 0 ∧ VP8L.ch 0xff000000 1 = 0 ∧ VP8L.ch 0xff000000 2 = 0 ∧ VP8L.ch 0xff000000 3 = 255 := by decide
  rw [d.1, d.2.1, d.2.2.1, d.2.2.2]
  unfold VP8L.mk sub8
  have e3 : ((p.getD 3 0 + 256 - 255 % 256) % 256 + 255) % 256 = p.getD 3 0 := by omega
  have e0 : (p.getD 0 0 + 0) % 256 = p.getD 0 0 := by omega
  have e1 : (p.getD 1 0 + 0) % 256 = p.getD 1 0 := by omega
  have e2 : (p.getD 2 0 + 0) % 256 = p.getD 2 0 := by omega
  rw [e0, e1, e2, e3]


/-! ### the predictor transform -/

/-- the pixels reconstructed before index `i`, newest first -/
def revPacks (px : Array (List Nat)) (i : Nat) : List Nat := ((List.range i).map fun j => pack px[j]!).reverse

theorem revPacks_getD (px : Array (List Nat)) (i k : Nat) (hk : k < i) : (revPacks px i).getD k 0 = pack px[i - 1 - k]! := by
  unfold revPacks
  rw [List.getD_eq_getElem?_getD, List.getElem?_reverse (by simpa using hk), List.getElem?_map, List.length_map, List.length_range,
    List.getElem?_range (by omega)]
  rfl

theorem revPacks_succ (px : Array (List Nat)) (i : Nat) : revPacks px (i + 1) = pack px[i]! :: revPacks px i := by
  unfold revPacks
  rw [List.range_succ, List.map_append, List.reverse_append]
  rfl

theorem predData_get (w h idx : Nat) (hidx : idx < VP8L.subSize w 9 * VP8L.subSize h 9) : (predData w h).getD idx 0 = 2 * 2 ^ 8 := by
  unfold predData
  rw [Array.getD_eq_getD_getElem?, List.getElem?_toArray, List.getElem?_replicate, if_pos hidx]
  rfl

theorem block_index_lt (w h x y : Nat) (hx : x < w) (hy : y < h) :
    (y / 2 ^ 9) * VP8L.subSize w 9 + x / 2 ^ 9 < VP8L.subSize w 9 * VP8L.subSize h 9 := by
  unfold VP8L.subSize
  have e : (2 : Nat) ^ 9 = 512 := by decide
  rw [e]
  have h1 : x / 512 < (w + 512 - 1) / 512 := by omega
  have h2 : y / 512 + 1 ≤ (h + 512 - 1) / 512 := by omega
  calc y / 512 * ((w + 512 - 1) / 512) + x / 512 < y / 512 * ((w + 512 - 1) / 512) + (w + 512 - 1) / 512 := by omega
    _ = (y / 512 + 1) * ((w + 512 - 1) / 512) := by rw [Nat.add_mul, Nat.one_mul]
    _ ≤ ((h + 512 - 1) / 512) * ((w + 512 - 1) / 512) := Nat.mul_le_mul_right _ h2
    _ = (w + 512 - 1) / 512 * ((h + 512 - 1) / 512) := Nat.mul_comm _ _

/-- what the specification predicts for pixel `i` of an encoded frame: the encoder's predictor -/
theorem predAt_enc (w h : Nat) (hw : 0 < w) (px : Array (List Nat)) (hsz : px.size = w * h) (i : Nat) (hi : i < px.size) :
    predAt 9 (predData w h) w i (revPacks px i) =
      if i ≥ w then pack px[i - w]! else if i ≥ 1 then pack px[i - 1]! else 0xff000000 := by
  unfold predAt
  simp only
  by_cases h0 : i = 0
  · subst h0
    have : ¬ 0 ≥ w := by omega
    simp [this]
  · by_cases hiw : i ≥ w
    · rw [if_pos hiw]
      have hy : i / w ≠ 0 := by
        have := Nat.div_pos hiw hw
        omega
      rw [if_neg (by omega), if_neg hy]
      have hT : (revPacks px i).getD (w - 1) 0 = pack px[i - w]! := by
        rw [revPacks_getD px i (w - 1) (by omega)]
        congr 2
        omega
      by_cases hx : i % w = 0
      · rw [if_pos hx, hT]
      · rw [if_neg hx]
        have hyh : i / w < h := by
          rw [Nat.div_lt_iff_lt_mul hw, Nat.mul_comm]
          omega
        rw [predData_get w h _ (block_index_lt w h (i % w) (i / w) (Nat.mod_lt _ hw) hyh)]
        have em : VP8L.ch (2 * 2 ^ 8) 1 = 2 := by decide
        rw [em]
        show (revPacks px i).getD (w - 1) 0 = _
        exact hT
    · rw [if_neg hiw, if_pos (show i ≥ 1 by omega)]
      have hy : i / w = 0 := Nat.div_eq_of_lt (by omega)
      have hx : i % w ≠ 0 := by rw [Nat.mod_eq_of_lt (by omega)]; exact h0
      rw [if_neg (show ¬ (i % w = 0 ∧ i / w = 0) from fun hh => hx hh.1), if_pos hy, revPacks_getD px i 0 (by omega), Nat.sub_zero]

theorem residAt_pack (w h : Nat) (hw : 0 < w) (px : Array (List Nat)) (hsz : px.size = w * h) (hpx : ∀ j, j < px.size → Px px[j]!)
    (i : Nat) (hi : i < px.size) :
    VP8L.addPx (pack (residAt w px i)) (predAt 9 (predData w h) w i (revPacks px i)) = pack px[i]! := by
  rw [predAt_enc w h hw px hsz i hi]
  unfold residAt
  simp only
  by_cases hiw : i ≥ w
  · rw [if_pos hiw, if_pos hiw, range4_map]
    exact addPx_pack _ _ (hpx i hi) (hpx (i - w) (by omega))
  · rw [if_neg hiw, if_neg hiw]
    by_cases h1 : i ≥ 1
    · rw [if_pos h1, if_pos h1, range4_map]
      exact addPx_pack _ _ (hpx i hi) (hpx (i - 1) (by omega))
    · rw [if_neg h1, if_neg h1]
      exact addPx_first _ (hpx i hi)

/-- **the specification's inverse predictor transform returns the pixels the encoder predicted from** -/
theorem invPredictor_enc (w h : Nat) (hw : 0 < w) (px : Array (List Nat)) (hsz : px.size = w * h) (hpx : ∀ j, j < px.size → Px px[j]!) :
    ∀ (k i : Nat), i + k = px.size →
      invPredictor 9 (predData w h) w ((List.range' i k).map fun j => pack (residAt w px j)) i (revPacks px i) =
        (List.range px.size).map fun j => pack px[j]! := by
  intro k
  induction k with
  | zero =>
    intro i hi
    simp only [List.range'_zero, List.map_nil, invPredictor]
    unfold revPacks
    rw [List.reverse_reverse, show i = px.size by omega]
  | succ k ih =>
    intro i hi
    rw [List.range'_succ, List.map_cons]
    unfold invPredictor
    rw [residAt_pack w h hw px hsz hpx i (by omega), ← revPacks_succ]
    exact ih (i + 1) (by omega)

end EncRT
