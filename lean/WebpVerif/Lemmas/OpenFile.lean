import WebpVerif.Lemmas.Scan

/-!
End-to-end parse-after-print for extended (VP8X) still files: `WebPDecoder::new` on a file made of
the RIFF header, a VP8X chunk and ANY sequence of further chunks reports the VP8X fields and
registers the first occurrence of every known chunk.
-/
namespace ScanProof
open Container

def le24 (n : Nat) : List Nat := [n % 256, n / 256 % 256, n / 65536 % 256]

theorem le_le24 (n : Nat) (h : n < 2 ^ 24) : le (le24 n) = n := by
  unfold le le24; simp only [List.foldr]; omega

/-- the ten payload bytes of a VP8X chunk -/
def vp8xPayload (flags r0 r1 r2 cw ch : Nat) : List Nat :=
  [flags, r0, r1, r2] ++ le24 (cw - 1) ++ le24 (ch - 1)

/-- an extended file: RIFF header, VP8X chunk, then the chunks `cs` -/
def extendedFile (flags r0 r1 r2 cw ch : Nat) (cs : List (List Nat × List Nat)) : List Nat :=
  RIFF ++ (EncContainer.le32 (22 + (layout cs).length) ++ (WEBP ++
    (EncContainer.chunkBytes VP8X (vp8xPayload flags r0 r1 r2 cw ch) ++ layout cs)))

theorem read_at (F pre a rest : List Nat) (hF : F = pre ++ (a ++ rest)) (p n : Nat) (hp : p = pre.length) (hn : n = a.length) :
    readExact n { data := F, pos := p } = .ok (a, { data := F, pos := p + n }) := by
  subst hF hp hn; exact readExact_at pre a rest

theorem header_at_F (F pre rest : List Nat) (c : List Nat × List Nat)
    (hF : F = pre ++ (EncContainer.chunkBytes c.1 c.2 ++ rest)) (p : Nat) (hp : p = pre.length) (hok : EncContainer.ChunkOk c) :
    readChunkHeader { data := F, pos := p } =
      .ok ((c.1, c.2.length, c.2.length + c.2.length % 2), { data := F, pos := p + 8 }) := by
  subst hF hp; exact header_at pre rest c hok

theorem fourcc_ne : (VP8X == VP8) = false ∧ (VP8X == VP8L) = false ∧ (VP8X == VP8X) = true := by decide

theorem fourcc_len : RIFF.length = 4 ∧ WEBP.length = 4 ∧ VP8X.length = 4 := by decide

theorem chunks_len_le (cs : List (List Nat × List Nat)) (hall : ∀ c ∈ cs, EncContainer.ChunkOk c) :
    cs.length ≤ (layout cs).length := by
  induction cs with
  | nil => simp [layout]
  | cons c rest ih =>
    have hlay : layout (c :: rest) = EncContainer.chunkBytes c.1 c.2 ++ layout rest := by simp [layout]
    have := chunk_len c (hall c (List.mem_cons_self ..))
    have := ih (fun c' hc' => hall c' (List.mem_cons_of_mem _ hc'))
    rw [hlay, List.length_append]; simp only [List.length_cons]; omega

theorem firstRange_absent (k : List Nat) : ∀ (cs : List (List Nat × List Nat)) (b : Nat),
    (∀ c ∈ cs, c.1 ≠ k) → firstRange k b cs = none := by
  intro cs
  induction cs with
  | nil => intro b _; rfl
  | cons c rest ih =>
    intro b h
    simp only [firstRange]
    rw [if_neg (h c (List.mem_cons_self ..))]
    exact ih _ (fun c' hc' => h c' (List.mem_cons_of_mem _ hc'))

theorem known_mem : ANIM ∈ known ∧ ANMF ∈ known ∧ ICCP ∈ known ∧ EXIF ∈ known ∧ XMP ∈ known ∧ VP8 ∈ known ∧ VP8L ∈ known := by
  decide

def has (k : List Nat) (cs : List (List Nat × List Nat)) : Bool := (firstRange k 30 cs).isSome

theorem open_extended (flags r0 r1 r2 cw ch : Nat) (cs : List (List Nat × List Nat))
    (hfl : flags < 256) (hr : r0 < 256 ∧ r1 < 256 ∧ r2 < 256)
    (hcw : 1 ≤ cw ∧ cw ≤ 2 ^ 24) (hch : 1 ≤ ch ∧ ch ≤ 2 ^ 24) (hprod : cw * ch < 2 ^ 32)
    (hall : ∀ c ∈ cs, EncContainer.ChunkOk c ∧ c.1 ≠ ANMF)
    (hsize : 22 + (layout cs).length < 2 ^ 32)
    (hanim : flags / 2 % 2 = 0)
    (hicc : flags / 32 % 2 = 1 → has ICCP cs = true) (hexif : flags / 8 % 2 = 1 → has EXIF cs = true)
    (hxmp : flags / 4 % 2 = 1 → has XMP cs = true) (hone : has VP8 cs ≠ has VP8L cs) :
    ∃ info, openFile (extendedFile flags r0 r1 r2 cw ch cs) = .ok info ∧
      info.width = cw ∧ info.height = ch ∧ info.extended = true ∧ info.animation = false ∧
      info.isLossy = has VP8 cs ∧ info.hasAlpha = (flags / 16 % 2 == 1) ∧ info.numFrames = 0 ∧ info.loopCount = 1 ∧
      ∀ k ∈ known, info.chunks.get? k = firstRange k 30 cs := by
  obtain ⟨l1, l2, l3⟩ := fourcc_len
  -- the file, flattened
  generalize hF : extendedFile flags r0 r1 r2 cw ch cs = F
  have hflat : F = RIFF ++ (EncContainer.le32 (22 + (layout cs).length) ++ (WEBP ++ (VP8X ++ (EncContainer.le32 10 ++
      ([flags] ++ ([r0, r1, r2] ++ (le24 (cw - 1) ++ (le24 (ch - 1) ++ layout cs)))))))) := by
    rw [← hF]; unfold extendedFile
    rw [EncContainer.chunkBytes_eq]
    simp [vp8xPayload, le24, List.append_assoc]
  have hlenF : F.length = 30 + (layout cs).length := by
    rw [hflat]; simp [l1, l2, l3, EncContainer.le32_length, le24]; omega
  unfold openFile readData
  -- RIFF header
  have s1 : readChunkHeader { data := F, pos := 0 } =
      .ok ((RIFF, 22 + (layout cs).length, min (22 + (layout cs).length + (22 + (layout cs).length) % 2) (2 ^ 32 - 1)),
        { data := F, pos := 8 }) := by
    unfold readChunkHeader
    rw [read_at F [] RIFF (EncContainer.le32 (22 + (layout cs).length) ++ (WEBP ++ (VP8X ++ (EncContainer.le32 10 ++
      ([flags] ++ ([r0, r1, r2] ++ (le24 (cw - 1) ++ (le24 (ch - 1) ++ layout cs)))))))) (by rw [hflat]; rfl) 0 4 rfl l1.symm]
    simp only
    unfold readLE
    rw [read_at F RIFF (EncContainer.le32 (22 + (layout cs).length)) (WEBP ++ (VP8X ++ (EncContainer.le32 10 ++
      ([flags] ++ ([r0, r1, r2] ++ (le24 (cw - 1) ++ (le24 (ch - 1) ++ layout cs))))))) hflat (0 + 4) 4 (by rw [l1]) rfl]
    simp only
    rw [le_le32 _ hsize]
  rw [s1]
  simp only [bne_self_eq_false, Bool.false_eq_true, if_false]
  rw [read_at F (RIFF ++ EncContainer.le32 (22 + (layout cs).length)) WEBP (VP8X ++ (EncContainer.le32 10 ++
      ([flags] ++ ([r0, r1, r2] ++ (le24 (cw - 1) ++ (le24 (ch - 1) ++ layout cs))))))
    (by rw [hflat]; simp only [List.append_assoc]) 8 4
    (by rw [List.length_append, l1, EncContainer.le32_length]) l2.symm]
  simp only [bne_self_eq_false, Bool.false_eq_true, if_false]
  -- VP8X chunk header
  have hpay : (vp8xPayload flags r0 r1 r2 cw ch).length = 10 := by simp [vp8xPayload, le24]
  rw [header_at_F F (RIFF ++ EncContainer.le32 (22 + (layout cs).length) ++ WEBP) (layout cs) (VP8X, vp8xPayload flags r0 r1 r2 cw ch)
    (by rw [← hF]; unfold extendedFile; simp only [List.append_assoc]) (8 + 4)
    (by simp only [List.length_append, l1, l2, EncContainer.le32_length]) ⟨l3, by rw [hpay]; decide⟩]
  obtain ⟨n1, n2, n3⟩ := fourcc_ne
  simp only [n1, n2, n3, Bool.false_eq_true, if_false, if_true, hpay]
  -- the VP8X payload
  unfold readU8
  rw [read_at F (RIFF ++ EncContainer.le32 (22 + (layout cs).length) ++ WEBP ++ VP8X ++ EncContainer.le32 10) [flags]
    ([r0, r1, r2] ++ (le24 (cw - 1) ++ (le24 (ch - 1) ++ layout cs)))
    (by rw [hflat]; simp only [List.append_assoc]) (8 + 4 + 8) 1
    (by simp only [List.length_append, l1, l2, l3, EncContainer.le32_length]) rfl]
  simp only
  unfold readLE
  rw [read_at F (RIFF ++ EncContainer.le32 (22 + (layout cs).length) ++ WEBP ++ VP8X ++ EncContainer.le32 10 ++ [flags]) [r0, r1, r2]
    (le24 (cw - 1) ++ (le24 (ch - 1) ++ layout cs))
    (by rw [hflat]; simp only [List.append_assoc]) (8 + 4 + 8 + 1) 3
    (by simp only [List.length_append, l1, l2, l3, EncContainer.le32_length, List.length_cons, List.length_nil]) rfl]
  simp only
  rw [read_at F (RIFF ++ EncContainer.le32 (22 + (layout cs).length) ++ WEBP ++ VP8X ++ EncContainer.le32 10 ++ [flags] ++ [r0, r1, r2])
    (le24 (cw - 1)) (le24 (ch - 1) ++ layout cs)
    (by rw [hflat]; simp only [List.append_assoc]) (8 + 4 + 8 + 1 + 3) 3
    (by simp only [List.length_append, l1, l2, l3, EncContainer.le32_length, List.length_cons, List.length_nil]) rfl]
  simp only
  rw [read_at F (RIFF ++ EncContainer.le32 (22 + (layout cs).length) ++ WEBP ++ VP8X ++ EncContainer.le32 10 ++ [flags] ++ [r0, r1, r2] ++ le24 (cw - 1))
    (le24 (ch - 1)) (layout cs)
    (by rw [hflat]; simp only [List.append_assoc]) (8 + 4 + 8 + 1 + 3 + 3) 3
    (by simp only [List.length_append, l1, l2, l3, EncContainer.le32_length, List.length_cons, List.length_nil, le24]) rfl]
  simp only
  rw [le_le24 _ (by omega), le_le24 _ (by omega)]
  have hle1 : le [flags] = flags := by simp [le]
  rw [hle1]
  have hcw' : cw - 1 + 1 = cw := by omega
  have hch' : ch - 1 + 1 = ch := by omega
  rw [hcw', hch', if_neg (by omega)]
  -- the scan loop over the remaining chunks
  have hP : F = (RIFF ++ EncContainer.le32 (22 + (layout cs).length) ++ WEBP ++ VP8X ++ EncContainer.le32 10 ++ [flags] ++ [r0, r1, r2]
      ++ le24 (cw - 1) ++ le24 (ch - 1)) ++ layout cs := by rw [hflat]; simp only [List.append_assoc]
  have hP30 : (RIFF ++ EncContainer.le32 (22 + (layout cs).length) ++ WEBP ++ VP8X ++ EncContainer.le32 10 ++ [flags] ++ [r0, r1, r2]
      ++ le24 (cw - 1) ++ le24 (ch - 1)).length = 30 := by
    simp only [List.length_append, l1, l2, l3, EncContainer.le32_length, List.length_cons, List.length_nil, le24]
  have hnum : 8 + 4 + 8 + (10 + 10 % 2) = 30 := by decide
  have hcl := chunks_len_le cs (fun c hc => (hall c hc).1)
  obtain ⟨s', r', e1, e2, e3, e4, e5⟩ := scanLoop_spec (30 + (22 + (layout cs).length - 12)) cs
    (RIFF ++ EncContainer.le32 (22 + (layout cs).length) ++ WEBP ++ VP8X ++ EncContainer.le32 10 ++ [flags] ++ [r0, r1, r2]
      ++ le24 (cw - 1) ++ le24 (ch - 1))
    { position := 30, chunks := [], numFrames := 0, loopDuration := 0, isLossy := false } (F.length + 1) hall
    (by rw [hP30]; omega) (by rw [hlenF]; omega) (by rw [hP30])
  rw [← hP, hP30] at e1
  rw [hnum, e1]
  simp only at e2 e3 e4 e5 ⊢
  have hget : ∀ k ∈ known, s'.chunks.get? k = firstRange k 30 cs := by
    intro k hk
    rw [e5 k hk, hP30]
    rfl
  have hhas : ∀ k ∈ known, s'.chunks.has k = has k cs := by
    intro k hk; unfold Chunks.has has; rw [hget k hk]
  obtain ⟨k1, k2, k3, k4, k5, k6, k7⟩ := known_mem
  rw [hhas _ k1, hhas _ k2, hhas _ k3, hhas _ k4, hhas _ k5, hhas _ k6, hhas _ k7]
  have a0 : (flags / 2 % 2 == 1) = false := by rw [hanim]; rfl
  have c1 : (flags / 32 % 2 == 1 && !has ICCP cs) = false := by
    by_cases h : flags / 32 % 2 = 1
    · simp [hicc h]
    · simp [h]
  have c2 : (flags / 8 % 2 == 1 && !has EXIF cs) = false := by
    by_cases h : flags / 8 % 2 = 1
    · simp [hexif h]
    · simp [h]
  have c3 : (flags / 4 % 2 == 1 && !has XMP cs) = false := by
    by_cases h : flags / 4 % 2 = 1
    · simp [hxmp h]
    · simp [h]
  have c4 : (has VP8 cs == has VP8L cs) = false := by
    rw [beq_eq_false_iff_ne]; exact hone
  simp only [a0, c1, c2, c3, c4, Bool.false_and, Bool.or_self, Bool.not_false, Bool.true_and, Bool.false_eq_true, if_false]
  have hanmf : s'.chunks.get? ANMF = none := by
    rw [hget _ k2]; exact firstRange_absent ANMF cs 30 (fun c hc => (hall c hc).2)
  rw [hanmf]
  simp only
  refine ⟨_, rfl, rfl, rfl, rfl, rfl, ?_, rfl, e2, rfl, hget⟩
  simp only [e3, Bool.false_or]

theorem extendedFile_split (flags r0 r1 r2 cw ch : Nat) (cs : List (List Nat × List Nat)) :
    ∃ pre : List Nat, pre.length = 30 ∧ extendedFile flags r0 r1 r2 cw ch cs = pre ++ layout cs := by
  obtain ⟨l1, l2, l3⟩ := fourcc_len
  refine ⟨RIFF ++ EncContainer.le32 (22 + (layout cs).length) ++ WEBP ++ EncContainer.chunkBytes VP8X (vp8xPayload flags r0 r1 r2 cw ch), ?_, ?_⟩
  · rw [EncContainer.chunkBytes_eq]
    simp [l1, l2, l3, EncContainer.le32_length, vp8xPayload, le24]
  · unfold extendedFile; simp only [List.append_assoc]

/-- a metadata accessor on such a file: the payload of the FIRST chunk of that name, exactly;
    `MemoryLimitExceeded` iff that payload is larger than the limit; `None` iff there is none -/
theorem metadata_exact (flags r0 r1 r2 cw ch : Nat) (cs : List (List Nat × List Nat)) (info : Info) (k : List Nat) (limit : Nat)
    (hall : ∀ c ∈ cs, EncContainer.ChunkOk c) (hinfo : info.chunks.get? k = firstRange k 30 cs) :
    (firstRange k 30 cs = none → metadata (extendedFile flags r0 r1 r2 cw ch cs) info k limit = .ok none) ∧
    (∀ a b, firstRange k 30 cs = some (a, b) → ∃ c ∈ cs, c.1 = k ∧
      (c.2.length > limit → metadata (extendedFile flags r0 r1 r2 cw ch cs) info k limit = .error .memoryLimitExceeded) ∧
      (c.2.length ≤ limit → metadata (extendedFile flags r0 r1 r2 cw ch cs) info k limit = .ok (some c.2))) := by
  obtain ⟨pre, hpl, hsplit⟩ := extendedFile_split flags r0 r1 r2 cw ch cs
  refine ⟨?_, ?_⟩
  · intro hnone
    unfold metadata readChunk
    rw [hinfo, hnone]
  · intro a b hsome
    rw [← hpl] at hsome
    obtain ⟨c, hc, e1, e2, e3, e4⟩ := firstRange_payload k cs pre a b hall hsome
    rw [hpl] at hsome
    refine ⟨c, hc, e1, ?_, ?_⟩
    · intro hgt
      unfold metadata readChunk
      rw [hinfo, hsome]
      simp only
      rw [if_pos (by omega)]
    · intro hle
      unfold metadata readChunk
      rw [hinfo, hsome]
      simp only
      rw [if_neg (by omega)]
      unfold readExact
      simp only
      rw [hsplit, if_pos e3, e4]

end ScanProof
