import WebpVerif.Lemmas.Arith
import WebpVerif.Spec.BoolDec
import Mathlib.Tactic.IntervalCases
import Mathlib.Tactic.Ring

/-!
Refinement of the crate's boolean decoder model (`Arith`) to the RFC 6386 decoder (`BoolDec`).
Both are shown to be finite-precision views of one *ideal* decoder whose state is the range, the
8-bit integer part `hi` of the code value, and the number `tpos` of stream bits shifted into it.
-/
namespace ArithRfc
open BoolDec (byteAt)

/-- bit `i` of the stream, most significant bit of each byte first; zero beyond the data -/
def bitAt (data : List Nat) (i : Nat) : Nat := (byteAt data (i / 8) / 2 ^ (7 - i % 8)) % 2

/-- the big-endian number formed by the stream bits `t, …, t+n-1` -/
def win (data : List Nat) (t : Nat) : Nat → Nat
  | 0 => 0
  | n + 1 => win data t n * 2 + bitAt data (t + n)

theorem bitAt_lt (data : List Nat) (i : Nat) : bitAt data i < 2 := Nat.mod_lt _ (by decide)

theorem win_lt (data : List Nat) (t n : Nat) : win data t n < 2 ^ n := by
  induction n with
  | zero => simp [win]
  | succ n ih => have := bitAt_lt data (t + n); simp only [win, Nat.pow_succ]; omega

theorem win_add (data : List Nat) (t a b : Nat) :
    win data t (a + b) = win data t a * 2 ^ b + win data (t + a) b := by
  induction b with
  | zero => simp [win]
  | succ b ih =>
    rw [← Nat.add_assoc]; simp only [win]; rw [ih, Nat.pow_succ, Nat.add_assoc t a b]; ring

theorem win_one (data : List Nat) (t : Nat) : win data t 1 = bitAt data t := by simp [win]

theorem win_succ_left (data : List Nat) (t n : Nat) :
    win data t (n + 1) = bitAt data t * 2 ^ n + win data (t + 1) n := by
  rw [Nat.add_comm n 1, win_add, win_one]

theorem byteAt_lt (data : List Nat) (h : ∀ b ∈ data, b < 256) (k : Nat) : byteAt data k < 256 := by
  unfold byteAt
  rw [List.getD_eq_getElem?_getD]
  cases h' : data[k]? with
  | none => simp
  | some v => simp only [Option.getD_some]; exact h v (List.mem_of_getElem? h')

theorem win_byte (data : List Nat) (h : ∀ b ∈ data, b < 256) (k : Nat) : win data (8 * k) 8 = byteAt data k := by
  have hb := byteAt_lt data h k
  have e : ∀ j, j < 8 → bitAt data (8 * k + j) = (byteAt data k / 2 ^ (7 - j)) % 2 := by
    intro j hj; unfold bitAt
    have h1 : (8 * k + j) / 8 = k := by omega
    have h2 : (8 * k + j) % 8 = j := by omega
    rw [h1, h2]
  have e0 : bitAt data (8 * k) = (byteAt data k / 2 ^ 7) % 2 := by have := e 0 (by omega); simpa using this
  simp only [win, Nat.add_zero]
  rw [e0, e 1 (by omega), e 2 (by omega), e 3 (by omega), e 4 (by omega), e 5 (by omega), e 6 (by omega), e 7 (by omega)]
  norm_num
  omega

theorem win_bytes4 (data : List Nat) (h : ∀ b ∈ data, b < 256) (i : Nat) :
    win data (32 * i) 32 =
      Arith.be32 (byteAt data (4 * i)) (byteAt data (4 * i + 1)) (byteAt data (4 * i + 2)) (byteAt data (4 * i + 3)) := by
  have e0 : 32 * i = 8 * (4 * i) := by omega
  have e1 : 32 * i + 8 = 8 * (4 * i + 1) := by omega
  have e2 : 32 * i + 8 + 8 = 8 * (4 * i + 2) := by omega
  have e3 : 32 * i + 8 + 8 + 8 = 8 * (4 * i + 3) := by omega
  have s : (32 : Nat) = 8 + 8 + 8 + 8 := rfl
  rw [s, win_add, win_add, win_add, e3, e2, e1, e0, win_byte _ h, win_byte _ h, win_byte _ h, win_byte _ h]
  unfold Arith.be32; ring

/-! ### the chunk split of `init` -/

theorem splitChunks_spec (l : List Nat) (acc : Array Nat) :
    (Arith.splitChunks l acc).1.size = acc.size + l.length / 4 ∧
    (Arith.splitChunks l acc).2.length = l.length % 4 ∧
    (∀ i, i < acc.size → (Arith.splitChunks l acc).1[i]? = acc[i]?) ∧
    (∀ j, j < l.length / 4 → (Arith.splitChunks l acc).1[acc.size + j]? =
      some (Arith.be32 (l.getD (4 * j) 0) (l.getD (4 * j + 1) 0) (l.getD (4 * j + 2) 0) (l.getD (4 * j + 3) 0))) ∧
    (∀ k, (Arith.splitChunks l acc).2.getD k 0 = l.getD (4 * (l.length / 4) + k) 0) := by
  fun_induction Arith.splitChunks l acc with
  | case1 b0 b1 b2 b3 rest acc ih =>
    obtain ⟨h1, h2, h3, h4, h5⟩ := ih
    have hl : (b0 :: b1 :: b2 :: b3 :: rest).length = rest.length + 4 := by simp
    refine ⟨?_, ?_, ?_, ?_, ?_⟩
    · rw [h1, hl]; simp only [Array.size_push]; omega
    · rw [h2, hl]; omega
    · intro i hi
      rw [h3 i (by simp only [Array.size_push]; omega)]
      simp [Array.getElem?_push, Nat.ne_of_lt hi]
    · intro j hj
      rw [hl] at hj
      cases j with
      | zero =>
        simp only [Nat.add_zero]
        rw [h3 acc.size (by simp)]
        simp
      | succ j =>
        have := h4 j (by omega)
        simp only [Array.size_push] at this
        rw [show acc.size + (j + 1) = acc.size + 1 + j by omega, this]
        have e : ∀ m, (b0 :: b1 :: b2 :: b3 :: rest).getD (4 * (j + 1) + m) 0 = rest.getD (4 * j + m) 0 := by
          intro m
          rw [show 4 * (j + 1) + m = (4 * j + m) + 1 + 1 + 1 + 1 by omega]
          simp
        have e0 := e 0; simp only [Nat.add_zero] at e0
        rw [e0, e 1, e 2, e 3]
    · intro k
      rw [h5 k, hl]
      rw [show 4 * ((rest.length + 4) / 4) + k = (4 * (rest.length / 4) + k) + 1 + 1 + 1 + 1 by omega]
      simp
  | case2 tail acc hno =>
    have hlen : tail.length < 4 := by
      match tail, hno with
      | [], _ => simp
      | [_], _ => simp
      | [_, _], _ => simp
      | [_, _, _], _ => simp
      | b0 :: b1 :: b2 :: b3 :: rest, hno => exact absurd rfl (hno b0 b1 b2 b3 rest)
    have h0 : tail.length / 4 = 0 := by omega
    refine ⟨by simp [h0], by simp; omega, fun i _ => rfl, ?_, ?_⟩
    · intro j hj; omega
    · intro k; simp [h0]

/-! ### the ideal decoder -/

structure Ideal where
  range : Nat
  hi : Nat
  tpos : Nat
deriving DecidableEq, Repr

/-- shift `n` stream bits into the integer part -/
def Ideal.norm (data : List Nat) (n : Nat) (I : Ideal) : Ideal :=
  ⟨I.range * 2 ^ n, I.hi * 2 ^ n + win data I.tpos n, I.tpos + n⟩

def Ideal.shift (data : List Nat) (I : Ideal) : Ideal := ⟨I.range * 2, I.hi * 2 + bitAt data I.tpos, I.tpos + 1⟩

def Ideal.readBool (data : List Nat) (I : Ideal) (p : Nat) : Bool × Ideal :=
  if I.hi ≥ Arith.splitOf I.range p then
    (true, Ideal.norm data (Arith.normShift (I.range - Arith.splitOf I.range p))
      ⟨I.range - Arith.splitOf I.range p, I.hi - Arith.splitOf I.range p, I.tpos⟩)
  else (false, Ideal.norm data (Arith.normShift (Arith.splitOf I.range p)) ⟨Arith.splitOf I.range p, I.hi, I.tpos⟩)

/-- between reads: the range is normalised and the code value lies inside it -/
def IInv (I : Ideal) : Prop := 128 ≤ I.range ∧ I.range ≤ 255 ∧ I.hi < I.range

theorem norm_zero (data : List Nat) (I : Ideal) : Ideal.norm data 0 I = I := by
  cases I; simp [Ideal.norm, win]

theorem norm_succ (data : List Nat) (n : Nat) (I : Ideal) :
    Ideal.norm data (n + 1) I = Ideal.norm data n (Ideal.shift data I) := by
  simp only [Ideal.norm, Ideal.shift, win_succ_left, Nat.pow_succ]
  refine congr (congr (congrArg Ideal.mk ?_) ?_) ?_ <;> ring

theorem normShift_double (r : Nat) (h1 : 1 ≤ r) (h2 : r < 128) :
    Arith.normShift r = Arith.normShift (2 * r) + 1 := by
  interval_cases r <;> simp [Arith.normShift]

theorem normShift_zero (r : Nat) (h : 128 ≤ r) : Arith.normShift r = 0 := by
  unfold Arith.normShift; split <;> omega

theorem readBool_inv (data : List Nat) (I : Ideal) (p : Nat) (hp : p < 256) (h : IInv I) :
    IInv (Ideal.readBool data I p).2 := by
  obtain ⟨r1, r2, r3⟩ := h
  obtain ⟨a, b⟩ := Arith.splitOf_bounds I.range p r1 r2 hp
  unfold Ideal.readBool
  by_cases hd : I.hi ≥ Arith.splitOf I.range p
  · simp only [hd, if_true]
    obtain ⟨n1, n2, _⟩ := Arith.normShift_spec (I.range - Arith.splitOf I.range p) (by omega) (by omega)
    simp only [Nat.shiftLeft_eq] at n1 n2
    have hw := win_lt data I.tpos (Arith.normShift (I.range - Arith.splitOf I.range p))
    refine ⟨n1, n2, ?_⟩
    simp only [Ideal.norm]
    have : (I.hi - Arith.splitOf I.range p + 1) * 2 ^ Arith.normShift (I.range - Arith.splitOf I.range p)
        ≤ (I.range - Arith.splitOf I.range p) * 2 ^ Arith.normShift (I.range - Arith.splitOf I.range p) :=
      Nat.mul_le_mul_right _ (by omega)
    rw [Nat.add_mul] at this
    omega
  · simp only [hd, if_false]
    obtain ⟨n1, n2, _⟩ := Arith.normShift_spec (Arith.splitOf I.range p) a (by omega)
    simp only [Nat.shiftLeft_eq] at n1 n2
    have hw := win_lt data I.tpos (Arith.normShift (Arith.splitOf I.range p))
    refine ⟨n1, n2, ?_⟩
    simp only [Ideal.norm]
    have : (I.hi + 1) * 2 ^ Arith.normShift (Arith.splitOf I.range p)
        ≤ (Arith.splitOf I.range p) * 2 ^ Arith.normShift (Arith.splitOf I.range p) :=
      Nat.mul_le_mul_right _ (by omega)
    rw [Nat.add_mul] at this
    omega

/-! ### the RFC decoder is the ideal decoder with a 16-bit register -/

def absS (s : BoolDec.St) : Ideal := ⟨s.range, s.value / 256, 8 * (s.pos - 1) + s.bitCount⟩

/-- the low byte of `value` holds the `8 - bit_count` stream bits that follow the integer part,
    left-aligned -/
def SInv (s : BoolDec.St) : Prop :=
  2 ≤ s.pos ∧ s.bitCount < 8 ∧
  s.value % 256 = win s.data (8 * (s.pos - 1) + s.bitCount) (8 - s.bitCount) * 2 ^ s.bitCount

/-- one iteration of the RFC's normalisation loop -/
def specShift (s : BoolDec.St) : BoolDec.St :=
  if s.bitCount + 1 = 8 then
    { s with value := s.value * 2 + byteAt s.data s.pos, pos := s.pos + 1, range := s.range * 2, bitCount := 0 }
  else { s with value := s.value * 2, range := s.range * 2, bitCount := s.bitCount + 1 }

theorem renorm_unfold (fuel : Nat) (s : BoolDec.St) :
    BoolDec.renorm (fuel + 1) s = if s.range < 128 then BoolDec.renorm fuel (specShift s) else s := by
  unfold specShift
  rw [BoolDec.renorm]
  by_cases h : s.range < 128
  · simp only [h, if_true]
    by_cases hb : s.bitCount + 1 = 8
    · simp only [hb, if_true]
    · simp only [hb, if_false]
  · simp only [h, if_false]

theorem specShift_spec (s : BoolDec.St) (hb : ∀ b ∈ s.data, b < 256) (h : SInv s) (hh : s.value / 256 < 128) :
    SInv (specShift s) ∧ absS (specShift s) = Ideal.shift s.data (absS s) ∧ (specShift s).data = s.data ∧
    (specShift s).need = s.need := by
  obtain ⟨data, pos, value, range, bc, need⟩ := s
  obtain ⟨hp, hbc, hv⟩ := h
  simp only at hp hbc hv hh hb
  by_cases h8 : bc + 1 = 8
  · have hbc7 : bc = 7 := by omega
    subst hbc7
    have hs : specShift ⟨data, pos, value, range, 7, need⟩ =
        ⟨data, pos + 1, value * 2 + byteAt data pos, range * 2, 0, need⟩ := by simp [specShift]
    rw [hs]
    have hbyte := byteAt_lt data hb pos
    have hwb := win_byte data hb pos
    rw [show 8 - 7 = 1 from rfl, win_one] at hv
    have hbit := bitAt_lt data (8 * (pos - 1) + 7)
    refine ⟨⟨by simp only; omega, by simp, ?_⟩, ?_, rfl, rfl⟩
    · simp only
      rw [show 8 * (pos + 1 - 1) + 0 = 8 * pos by omega, show 8 - 0 = 8 from rfl, hwb]
      omega
    · simp only [absS, Ideal.shift]
      refine congr (congr (congrArg Ideal.mk rfl) ?_) ?_
      · omega
      · omega
  · have hs : specShift ⟨data, pos, value, range, bc, need⟩ =
        ⟨data, pos, value * 2, range * 2, bc + 1, need⟩ := by simp [specShift, h8]
    rw [hs]
    have hn : 8 - bc = (7 - bc) + 1 := by omega
    rw [hn, win_succ_left] at hv
    have hW := win_lt data (8 * (pos - 1) + bc + 1) (7 - bc)
    have hbit := bitAt_lt data (8 * (pos - 1) + bc)
    have e1 : 8 * (pos - 1) + (bc + 1) = 8 * (pos - 1) + bc + 1 := by omega
    have e2 : 8 - (bc + 1) = 7 - bc := by omega
    refine ⟨⟨hp, by simp only; omega, ?_⟩, ?_, rfl, rfl⟩
    · show (value * 2) % 256 = win data (8 * (pos - 1) + (bc + 1)) (8 - (bc + 1)) * 2 ^ (bc + 1)
      rw [e1, e2]
      generalize win data (8 * (pos - 1) + bc + 1) (7 - bc) = W at hv hW ⊢
      generalize bitAt data (8 * (pos - 1) + bc) = B at hv hbit
      interval_cases bc <;> norm_num at hv hW ⊢ <;> omega
    · simp only [absS, Ideal.shift]
      refine congr (congr (congrArg Ideal.mk rfl) ?_) ?_
      · generalize win data (8 * (pos - 1) + bc + 1) (7 - bc) = W at hv hW ⊢
        generalize bitAt data (8 * (pos - 1) + bc) = B at hv hbit ⊢
        interval_cases bc <;> norm_num at hv hW ⊢ <;> omega
      · omega

theorem shift_hi_lt (data : List Nat) (I : Ideal) (h : I.hi < I.range) :
    (Ideal.shift data I).hi < (Ideal.shift data I).range := by
  have := bitAt_lt data I.tpos; simp only [Ideal.shift]; omega

/-- the RFC's normalisation loop shifts exactly `normShift range` bits -/
theorem renorm_spec (fuel : Nat) : ∀ (s : BoolDec.St), (∀ b ∈ s.data, b < 256) → SInv s →
    1 ≤ s.range → s.range ≤ 255 → s.value / 256 < s.range → Arith.normShift s.range ≤ fuel →
    SInv (BoolDec.renorm fuel s) ∧
    absS (BoolDec.renorm fuel s) = Ideal.norm s.data (Arith.normShift s.range) (absS s) ∧
    (BoolDec.renorm fuel s).data = s.data ∧ (BoolDec.renorm fuel s).need = s.need := by
  induction fuel with
  | zero =>
    intro s _ hs h1 h2 _ hf
    have h128 : 128 ≤ s.range := by
      by_contra hlt
      have := normShift_double s.range h1 (by omega); omega
    rw [normShift_zero _ h128, norm_zero]
    exact ⟨hs, rfl, rfl, rfl⟩
  | succ fuel ih =>
    intro s hb hs h1 h2 hh hf
    rw [renorm_unfold]
    by_cases h128 : s.range < 128
    · simp only [h128, if_true]
      obtain ⟨a1, a2, a3, a4⟩ := specShift_spec s hb hs (by omega)
      have hr : (specShift s).range = s.range * 2 := by unfold specShift; split <;> rfl
      have hd := normShift_double s.range h1 h128
      have hhi : (specShift s).value / 256 < (specShift s).range := by
        have := shift_hi_lt s.data (absS s) hh
        rw [← a2] at this; exact this
      obtain ⟨b1, b2, b3, b4⟩ := ih (specShift s) (by rw [a3]; exact hb) a1 (by rw [hr]; omega) (by rw [hr]; omega) hhi
        (by rw [hr, Nat.mul_comm]; omega)
      refine ⟨b1, ?_, by rw [b3, a3], by rw [b4, a4]⟩
      rw [b2, a3, a2, hr, hd, norm_succ, Nat.mul_comm]
    · rw [if_neg h128, normShift_zero _ (by omega), norm_zero]
      exact ⟨hs, rfl, rfl, rfl⟩

/-- bytes a decision of the ideal decoder at `tpos` depends on -/
def needOf (tpos : Nat) : Nat := (tpos + 7) / 8

theorem neededAtDecision_eq (s : BoolDec.St) (h : SInv s) : BoolDec.neededAtDecision s = needOf (absS s).tpos := by
  obtain ⟨hp, hb, _⟩ := h
  unfold BoolDec.neededAtDecision needOf absS
  split <;> (simp only; omega)

/-- one RFC read is one ideal read -/
theorem spec_readBool (s : BoolDec.St) (p : Nat) (hp : p < 256) (hb : ∀ b ∈ s.data, b < 256)
    (hs : SInv s) (hi : IInv (absS s)) :
    (BoolDec.readBool s p).1 = (Ideal.readBool s.data (absS s) p).1 ∧
    absS (BoolDec.readBool s p).2 = (Ideal.readBool s.data (absS s) p).2 ∧
    SInv (BoolDec.readBool s p).2 ∧ (BoolDec.readBool s p).2.data = s.data ∧
    (BoolDec.readBool s p).2.need = max s.need (needOf (absS s).tpos) := by
  obtain ⟨r1, r2, r3⟩ := hi
  simp only [absS] at r1 r2 r3
  obtain ⟨a, b⟩ := Arith.splitOf_bounds s.range p r1 r2 hp
  have hsplit : 1 + (s.range - 1) * p / 256 = Arith.splitOf s.range p := by
    unfold Arith.splitOf; rw [Nat.shiftRight_eq_div_pow]
  have hnd := neededAtDecision_eq s hs
  unfold BoolDec.readBool Ideal.readBool
  simp only [hsplit]
  have hcmp : (s.value ≥ Arith.splitOf s.range p * 256) ↔ ((absS s).hi ≥ Arith.splitOf (absS s).range p) := by
    simp only [absS]; omega
  by_cases hd : s.value ≥ Arith.splitOf s.range p * 256
  · have hd' := hcmp.mp hd
    simp only [hd, hd', if_true]
    have hsinv : SInv (BoolDec.St.mk s.data s.pos (s.value - Arith.splitOf s.range p * 256)
        (s.range - Arith.splitOf s.range p) s.bitCount (max s.need (BoolDec.neededAtDecision s))) := by
      obtain ⟨q1, q2, q3⟩ := hs
      refine ⟨q1, q2, ?_⟩
      simp only
      rw [← q3]; omega
    obtain ⟨c1, c2, c3, c4⟩ := renorm_spec 8 (BoolDec.St.mk s.data s.pos (s.value - Arith.splitOf s.range p * 256)
        (s.range - Arith.splitOf s.range p) s.bitCount (max s.need (BoolDec.neededAtDecision s))) hb hsinv
      (by simp only; omega) (by simp only; omega)
      (by simp only; simp only [absS] at hd'; omega)
      (by have := (Arith.normShift_spec (s.range - Arith.splitOf s.range p) (by omega) (by omega)).2.2; simp only; omega)
    refine ⟨by simp, ?_, c1, c3, ?_⟩
    · rw [c2]
      simp only [absS]
      congr 2
      omega
    · rw [c4]; simp only [hnd]
  · have hd' : ¬ (absS s).hi ≥ Arith.splitOf (absS s).range p := fun h => hd (hcmp.mpr h)
    simp only [hd, hd', if_false]
    have hsinv : SInv (BoolDec.St.mk s.data s.pos s.value (Arith.splitOf s.range p) s.bitCount
        (max s.need (BoolDec.neededAtDecision s))) := hs
    obtain ⟨c1, c2, c3, c4⟩ := renorm_spec 8 (BoolDec.St.mk s.data s.pos s.value (Arith.splitOf s.range p) s.bitCount
        (max s.need (BoolDec.neededAtDecision s))) hb hsinv (by simp only; omega) (by simp only; omega)
      (by simp only; simp only [absS] at hd'; omega)
      (by have := (Arith.normShift_spec (Arith.splitOf s.range p) a (by omega)).2.2; simp only; omega)
    refine ⟨by simp, ?_, c1, c3, ?_⟩
    · rw [c2]; rfl
    · rw [c4]; simp only [hnd]

/-! ### the crate's decoder is the ideal decoder with a 64-bit register loaded in chunks -/

def nC (data : List Nat) : Nat := data.length / 4
def nT (data : List Nat) : Nat := data.length % 4
/-- bytes taken from the trailing 0..3 bytes so far (the tolerated zero pad byte counts) -/
def tailLoaded (data : List Nat) (d : Arith.Dec) : Nat := ((nT data : Int) - d.finalBytesRemaining).toNat
/-- bytes shifted into `value` so far -/
def loadedBytes (data : List Nat) (d : Arith.Dec) : Nat := 4 * d.state.chunkIndex + tailLoaded data d

structure Rel (data : List Nat) (d : Arith.Dec) (I : Ideal) : Prop where
  hc : d.chunks = (Arith.splitChunks data #[]).1
  hidx : d.state.chunkIndex ≤ nC data
  hf1 : -1 ≤ d.finalBytesRemaining
  hf2 : d.finalBytesRemaining ≤ nT data
  hpre : d.state.chunkIndex < nC data → d.finalBytesRemaining = nT data
  hlen : d.finalBytes.length = 3
  hfb : ∀ k : Nat, (k : Int) < d.finalBytesRemaining →
      d.finalBytes.getD k 0 = byteAt data (4 * nC data + tailLoaded data d + k)
  hr : d.state.range = I.range
  hbc : -8 ≤ d.state.bitCount ∧ d.state.bitCount ≤ 31
  hpos : (I.tpos : Int) + d.state.bitCount = 8 * (loadedBytes data d : Int)
  hv1 : ∀ b : Nat, d.state.bitCount = (b : Int) → d.state.value = I.hi * 2 ^ b + win data I.tpos b
  hv2 : ∀ m : Nat, d.state.bitCount = -(m : Int) → 0 < m →
      I.hi = d.state.value * 2 ^ m + win data (8 * loadedBytes data d) m
  hi : IInv I

theorem chunks_size (data : List Nat) : (Arith.splitChunks data #[]).1.size = nC data := by
  have := (splitChunks_spec data #[]).1; simpa [nC] using this

theorem chunk_eq (data : List Nat) (hb : ∀ b ∈ data, b < 256) (i : Nat) (hi : i < nC data) :
    (Arith.splitChunks data #[]).1[i]? = some (win data (32 * i) 32) := by
  have := (splitChunks_spec data #[]).2.2.2.1 i hi
  simp only [Array.size_empty, Nat.zero_add] at this
  rw [this, win_bytes4 data hb]; rfl

theorem len_eq (data : List Nat) : data.length = 4 * nC data + nT data := by
  unfold nC nT; omega

theorem load_core (data : List Nat) (t value hi m K : Nat) (hmK : m ≤ K)
    (h : hi = value * 2 ^ m + win data t m) :
    value * 2 ^ K + win data t K = hi * 2 ^ (K - m) + win data (t + m) (K - m) := by
  have e : K = m + (K - m) := by omega
  have hw := win_add data t m (K - m)
  rw [← e] at hw
  have hp : 2 ^ K = 2 ^ m * 2 ^ (K - m) := by rw [← Nat.pow_add, ← e]
  rw [hw, h, hp]; ring

theorem loadedBytes_le (data : List Nat) (d : Arith.Dec) (I : Ideal) (h : Rel data d I) :
    loadedBytes data d ≤ data.length + 1 := by
  have hl := len_eq data
  have h1 := h.hf1; have h2 := h.hf2; have h3 := h.hidx; have h4 := h.hpre
  unfold loadedBytes tailLoaded
  by_cases hlt : d.state.chunkIndex < nC data
  · rw [h4 hlt]; simp; omega
  · omega

theorem rel_need_le (data : List Nat) (d : Arith.Dec) (I : Ideal) (h : Rel data d I) (h0 : 0 ≤ d.state.bitCount) :
    needOf I.tpos ≤ data.length + 1 := by
  have := loadedBytes_le data d I h
  have := h.hpos
  unfold needOf; omega

/-- the arithmetic of one decision (comparison, subtraction, renormalisation) -/
theorem coldDecide_rel (data : List Nat) (d : Arith.Dec) (I : Ideal) (p : Nat) (hp : p < 256)
    (h : Rel data d I) (h0 : 0 ≤ d.state.bitCount) :
    (Arith.coldDecide d p).1 = (Ideal.readBool data I p).1 ∧
    Rel data (Arith.coldDecide d p).2 (Ideal.readBool data I p).2 := by
  obtain ⟨b, hbq⟩ := Int.eq_ofNat_of_zero_le h0
  have hval := h.hv1 b hbq
  have hwl := win_lt data I.tpos b
  obtain ⟨r1, r2, r3⟩ := h.hi
  obtain ⟨sa, sb⟩ := Arith.splitOf_bounds I.range p r1 r2 hp
  have hinv := readBool_inv data I p hp h.hi
  have hcmp : (d.state.value ≥ Arith.splitOf d.state.range p <<< d.state.bitCount.toNat) ↔ (I.hi ≥ Arith.splitOf I.range p) := by
    rw [h.hr, hbq, Int.toNat_natCast, Nat.shiftLeft_eq, hval]
    constructor
    · intro hge
      by_contra hlt
      have : (I.hi + 1) * 2 ^ b ≤ Arith.splitOf I.range p * 2 ^ b := Nat.mul_le_mul_right _ (by omega)
      rw [Nat.add_mul] at this; omega
    · intro hge
      have : Arith.splitOf I.range p * 2 ^ b ≤ I.hi * 2 ^ b := Nat.mul_le_mul_right _ hge
      omega
  -- what the relation looks like after a decision that leaves `hi'` inside the new range `rt`
  have key : ∀ (hi' rt value' : Nat), 1 ≤ rt → rt ≤ 255 → value' = hi' * 2 ^ b + win data I.tpos b →
      IInv (Ideal.norm data (Arith.normShift rt) ⟨rt, hi', I.tpos⟩) →
      Rel data { d with state := ⟨d.state.chunkIndex, value', rt <<< Arith.normShift rt,
                                    d.state.bitCount - (Arith.normShift rt : Int)⟩ }
        (Ideal.norm data (Arith.normShift rt) ⟨rt, hi', I.tpos⟩) := by
    intro hi' rt value' h1 h2 hv' hiv
    obtain ⟨_, _, n7⟩ := Arith.normShift_spec rt h1 h2
    generalize Arith.normShift rt = n at *
    have hpos := h.hpos
    have hbc := h.hbc
    refine { hc := h.hc, hidx := h.hidx, hf1 := h.hf1, hf2 := h.hf2, hpre := h.hpre, hlen := h.hlen, hfb := h.hfb,
             hr := ?_, hbc := ?_, hpos := ?_, hv1 := ?_, hv2 := ?_, hi := hiv }
    · simp only [Ideal.norm, Nat.shiftLeft_eq]
    · simp only; omega
    · simp only [Ideal.norm, loadedBytes, tailLoaded] at hpos ⊢; push_cast; omega
    · intro b' hb'
      simp only at hb'
      have hnb : n ≤ b := by omega
      have hb'' : b' = b - n := by omega
      subst hb''
      simp only [Ideal.norm]
      have hw := win_add data I.tpos n (b - n)
      rw [show n + (b - n) = b by omega] at hw
      have hp2 : 2 ^ b = 2 ^ n * 2 ^ (b - n) := by rw [← Nat.pow_add]; congr 1; omega
      rw [hv', hw, hp2]; ring
    · intro m hm hm0
      simp only at hm
      have hbn : b < n := by omega
      have hm' : m = n - b := by omega
      subst hm'
      simp only [Ideal.norm]
      have hw := win_add data I.tpos b (n - b)
      rw [show b + (n - b) = n by omega] at hw
      have hp2 : 2 ^ n = 2 ^ b * 2 ^ (n - b) := by rw [← Nat.pow_add]; congr 1; omega
      have htp : 8 * loadedBytes data d = I.tpos + b := by
        have : ((8 * loadedBytes data d : Nat) : Int) = ((I.tpos + b : Nat) : Int) := by push_cast; omega
        exact_mod_cast this
      have hlb : loadedBytes data { d with state := ⟨d.state.chunkIndex, value', rt <<< n, d.state.bitCount - (n : Int)⟩ }
          = loadedBytes data d := rfl
      rw [hlb, htp, hv', hw, hp2]; ring
  unfold Arith.coldDecide Arith.decide Ideal.readBool
  by_cases hd : d.state.value ≥ Arith.splitOf d.state.range p <<< d.state.bitCount.toNat
  · have hd' := hcmp.mp hd
    simp only [hd, hd', if_true]
    refine ⟨trivial, ?_⟩
    unfold Ideal.readBool at hinv
    simp only [hd', if_true] at hinv
    have := key (I.hi - Arith.splitOf I.range p) (I.range - Arith.splitOf I.range p)
      (d.state.value - Arith.splitOf I.range p <<< d.state.bitCount.toNat) (by omega) (by omega)
      (by rw [hbq, Int.toNat_natCast, Nat.shiftLeft_eq, hval, Nat.sub_mul]
          have : Arith.splitOf I.range p * 2 ^ b ≤ I.hi * 2 ^ b := Nat.mul_le_mul_right _ hd'
          omega) hinv
    rw [h.hr]; exact this
  · have hd' : ¬ I.hi ≥ Arith.splitOf I.range p := fun hh => hd (hcmp.mpr hh)
    simp only [hd, hd', if_false]
    refine ⟨trivial, ?_⟩
    unfold Ideal.readBool at hinv
    simp only [hd', if_false] at hinv
    have := key I.hi (Arith.splitOf I.range p) d.state.value sa (by omega) hval hinv
    rw [h.hr]; exact this

/-- `K` more bits (8 or 32) shifted into the register of a decoder that owes bits -/
theorem load_rel (data : List Nat) (d d1 : Arith.Dec) (I : Ideal) (K : Nat) (h : Rel data d I)
    (hneg : d.state.bitCount < 0) (hK8 : 8 ≤ K) (hK32 : K ≤ 32)
    (e_chunks : d1.chunks = d.chunks)
    (hidx : d1.state.chunkIndex ≤ nC data) (hf1 : -1 ≤ d1.finalBytesRemaining) (hf2 : d1.finalBytesRemaining ≤ nT data)
    (hpre : d1.state.chunkIndex < nC data → d1.finalBytesRemaining = nT data)
    (hlen : d1.finalBytes.length = 3)
    (hfb : ∀ k : Nat, (k : Int) < d1.finalBytesRemaining →
      d1.finalBytes.getD k 0 = byteAt data (4 * nC data + tailLoaded data d1 + k))
    (e_range : d1.state.range = d.state.range)
    (e_bc : d1.state.bitCount = d.state.bitCount + K)
    (e_lb : 8 * loadedBytes data d1 = 8 * loadedBytes data d + K)
    (e_val : d1.state.value = d.state.value * 2 ^ K + win data (8 * loadedBytes data d) K) :
    Rel data d1 I := by
  have hbc := h.hbc
  have hpos := h.hpos
  obtain ⟨m, hm⟩ : ∃ m : Nat, d.state.bitCount = -(m : Int) := ⟨(-d.state.bitCount).toNat, by omega⟩
  have hm0 : 0 < m := by omega
  have hm8 : m ≤ 8 := by omega
  have hhi := h.hv2 m hm hm0
  have htp : I.tpos = 8 * loadedBytes data d + m := by
    have : ((I.tpos : Nat) : Int) = ((8 * loadedBytes data d + m : Nat) : Int) := by push_cast; omega
    exact_mod_cast this
  refine { hc := by rw [e_chunks]; exact h.hc, hidx := hidx, hf1 := hf1, hf2 := hf2, hpre := hpre, hlen := hlen, hfb := hfb,
           hr := by rw [e_range]; exact h.hr, hbc := by omega, hpos := ?_, hv1 := ?_, hv2 := ?_, hi := h.hi }
  · have : ((8 * loadedBytes data d1 : Nat) : Int) = ((8 * loadedBytes data d + K : Nat) : Int) := by rw [e_lb]
    push_cast at this; omega
  · intro b hb
    have hbK : b = K - m := by omega
    subst hbK
    rw [e_val, htp]
    exact load_core data (8 * loadedBytes data d) d.state.value I.hi m K (by omega) hhi
  · intro m' hm' hm'0; omega

theorem value_small (data : List Nat) (d : Arith.Dec) (I : Ideal) (h : Rel data d I) (hneg : d.state.bitCount < 0) :
    d.state.value < 256 := by
  have hbc := h.hbc
  obtain ⟨m, hm⟩ : ∃ m : Nat, d.state.bitCount = -(m : Int) := ⟨(-d.state.bitCount).toNat, by omega⟩
  have hhi := h.hv2 m hm (by omega)
  obtain ⟨_, r2, r3⟩ := h.hi
  have : d.state.value * 1 ≤ d.state.value * 2 ^ m := Nat.mul_le_mul_left _ (Nat.one_le_two_pow)
  omega

theorem shl_or (value K v : Nat) (hv : value < 256) (hK : K ≤ 32) (hvv : v < 2 ^ K) :
    Arith.u64 (value <<< K) ||| v = value * 2 ^ K + v := by
  have h1 : value <<< K < 2 ^ 64 := by
    rw [Nat.shiftLeft_eq]
    calc value * 2 ^ K < 256 * 2 ^ K := Nat.mul_lt_mul_of_pos_right hv (Nat.two_pow_pos K)
      _ ≤ 256 * 2 ^ 32 := Nat.mul_le_mul_left _ (Nat.pow_le_pow_right (by decide) hK)
      _ ≤ 2 ^ 64 := by decide
  unfold Arith.u64
  rw [Nat.mod_eq_of_lt h1, ← Nat.shiftLeft_add_eq_or_of_lt hvv, Nat.shiftLeft_eq]

theorem shl_only (value K : Nat) (hv : value < 256) (hK : K ≤ 32) : Arith.u64 (value <<< K) = value * 2 ^ K := by
  have := shl_or value K 0 hv hK (Nat.two_pow_pos K)
  simpa using this

/-- one read of the crate's cold path against one read of the ideal decoder -/
theorem coldReadBit_rel (data : List Nat) (hb : ∀ b ∈ data, b < 256) (d : Arith.Dec) (I : Ideal) (p : Nat)
    (hp : p < 256) (h : Rel data d I) :
    (Arith.isPastEof (Arith.coldReadBit d p).2 = false ∧ (Arith.coldReadBit d p).1 = (Ideal.readBool data I p).1 ∧
      Rel data (Arith.coldReadBit d p).2 (Ideal.readBool data I p).2 ∧ needOf I.tpos ≤ data.length + 1) ∨
    (Arith.isPastEof (Arith.coldReadBit d p).2 = true ∧ (Arith.coldReadBit d p).1 = false ∧
      needOf I.tpos > data.length + 1) := by
  have noteof : ∀ d' I', Rel data d' I' → Arith.isPastEof d' = false := by
    intro d' I' h'
    have := h'.hf1
    unfold Arith.isPastEof Arith.EOF
    simp only [beq_eq_false_iff_ne, ne_eq]; omega
  have ready : ∀ d1, Rel data d1 I → 0 ≤ d1.state.bitCount →
      (Arith.isPastEof (Arith.coldDecide d1 p).2 = false ∧ (Arith.coldDecide d1 p).1 = (Ideal.readBool data I p).1 ∧
        Rel data (Arith.coldDecide d1 p).2 (Ideal.readBool data I p).2 ∧ needOf I.tpos ≤ data.length + 1) := by
    intro d1 h1 h0
    obtain ⟨e1, e2⟩ := coldDecide_rel data d1 I p hp h1 h0
    exact ⟨noteof _ _ e2, e1, e2, rel_need_le data d1 I h1 h0⟩
  unfold Arith.coldReadBit
  by_cases hneg : d.state.bitCount < 0
  · simp only [hneg, if_true]
    have hvs := value_small data d I h hneg
    have hsz := chunks_size data
    cases hch : d.chunks[d.state.chunkIndex]? with
    | some v =>
      simp only
      have hlt : d.state.chunkIndex < nC data := by
        rw [← hsz, ← h.hc]
        by_contra hge; simp [Nat.not_lt.mp hge] at hch
      have hv : v = win data (32 * d.state.chunkIndex) 32 := by
        have := chunk_eq data hb _ hlt
        rw [← h.hc, hch] at this; exact Option.some.inj this
      have hfr := h.hpre hlt
      have htl : tailLoaded data d = 0 := by unfold tailLoaded; rw [hfr]; simp
      left
      apply ready
      · refine load_rel data d _ I 32 h hneg (by omega) (by omega) ?_ ?_ ?_ ?_ ?_ ?_ ?_ ?_ ?_ ?_ ?_
        · rfl
        · simp only; omega
        · exact h.hf1
        · exact h.hf2
        · intro _; exact hfr
        · exact h.hlen
        · exact h.hfb
        · rfl
        · simp only; omega
        · simp only [loadedBytes, tailLoaded]; omega
        · simp only
          rw [shl_or _ 32 v hvs (by omega) (by rw [hv]; exact win_lt _ _ _), hv]
          congr 2
          simp only [loadedBytes, htl]; omega
      · simp only; have := h.hbc; omega
    | none =>
      simp only
      have hge : nC data ≤ d.state.chunkIndex := by
        rw [← hsz, ← h.hc]
        by_contra hlt; simp [Nat.lt_of_not_le hlt] at hch
      have hci : d.state.chunkIndex = nC data := Nat.le_antisymm h.hidx hge
      have hl3 := h.hlen
      obtain ⟨x0, x1, x2, hfbs⟩ : ∃ x0 x1 x2, d.finalBytes = [x0, x1, x2] := by
        match hq : d.finalBytes, hl3 with
        | [a, b, c], _ => exact ⟨a, b, c, rfl⟩
      have hLB : loadedBytes data d = 4 * nC data + tailLoaded data d := by simp only [loadedBytes, hci]
      by_cases hf1 : d.finalBytesRemaining ≥ 1
      · -- a real trailing byte
        have hbyte : x0 = byteAt data (loadedBytes data d) := by
          have := h.hfb 0 (by omega)
          rw [hfbs] at this; simp at this; rw [hLB]; exact this
        have hload : Arith.loadFromFinalBytes d =
            { d with finalBytesRemaining := d.finalBytesRemaining - 1, finalBytes := [x1, x2, x0],
                     state := ⟨d.state.chunkIndex, Arith.u64 (d.state.value <<< 8) ||| x0, d.state.range, d.state.bitCount + 8⟩ } := by
          unfold Arith.loadFromFinalBytes; rw [if_pos hf1, hfbs]; rfl
        have hrel : Rel data (Arith.loadFromFinalBytes d) I := by
          rw [hload]
          refine load_rel data d _ I 8 h hneg (by omega) (by omega) ?_ ?_ ?_ ?_ ?_ ?_ ?_ ?_ ?_ ?_ ?_
          · rfl
          · exact h.hidx
          · simp only; omega
          · simp only; have := h.hf2; omega
          · intro hlt; simp only at hlt; omega
          · rfl
          · intro k hk
            simp only at hk ⊢
            have hk2 : (k + 1 : Nat) < d.finalBytesRemaining := by push_cast; omega
            have := h.hfb (k + 1) (by exact_mod_cast hk2)
            rw [hfbs] at this
            have hf2 := h.hf2
            have hnt : nT data ≤ 3 := by unfold nT; omega
            have etl : ∀ d1 : Arith.Dec, d1.finalBytesRemaining = d.finalBytesRemaining - 1 →
                tailLoaded data d1 = tailLoaded data d + 1 := by
              intro d1 e1; unfold tailLoaded; rw [e1]; omega
            rw [etl _ rfl, show 4 * nC data + (tailLoaded data d + 1) + k = 4 * nC data + tailLoaded data d + (k + 1) by omega, ← this]
            have hk3 : k + 1 < 3 := by omega
            match k, hk3 with
            | 0, _ => rfl
            | 1, _ => rfl
          · rfl
          · simp only; omega
          · simp only [loadedBytes, tailLoaded]
            have := h.hf2; omega
          · simp only
            have hx : x0 < 256 := by rw [hbyte]; exact byteAt_lt data hb _
            rw [shl_or _ 8 x0 hvs (by omega) (by omega), hbyte, ← win_byte data hb]
        have hne := noteof _ _ hrel
        simp only [hne, Bool.false_eq_true, if_false]
        left
        apply ready _ hrel
        rw [hload]; simp only; have := h.hbc; omega
      · by_cases hf0 : d.finalBytesRemaining = 0
        · -- the one tolerated zero byte past the end
          have hload : Arith.loadFromFinalBytes d =
              { d with finalBytesRemaining := -1,
                       state := ⟨d.state.chunkIndex, Arith.u64 (d.state.value <<< 8), d.state.range, d.state.bitCount + 8⟩ } := by
            unfold Arith.loadFromFinalBytes; rw [if_neg hf1, if_pos hf0]
          have hrel : Rel data (Arith.loadFromFinalBytes d) I := by
            rw [hload]
            refine load_rel data d _ I 8 h hneg (by omega) (by omega) ?_ ?_ ?_ ?_ ?_ ?_ ?_ ?_ ?_ ?_ ?_
            · rfl
            · exact h.hidx
            · simp only; omega
            · simp only; omega
            · intro hlt; simp only at hlt; omega
            · exact h.hlen
            · intro k hk; simp only at hk; omega
            · rfl
            · simp only; omega
            · simp only [loadedBytes, tailLoaded]; rw [hf0]; omega
            · simp only
              rw [shl_only _ 8 hvs (by omega)]
              have hz : win data (8 * loadedBytes data d) 8 = 0 := by
                rw [win_byte data hb]
                unfold byteAt
                rw [List.getD_eq_getElem?_getD, List.getElem?_eq_none (by
                  have := len_eq data
                  rw [hLB]; unfold tailLoaded; rw [hf0]; omega)]
                rfl
              rw [hz, Nat.add_zero]
          have hne := noteof _ _ hrel
          simp only [hne, Bool.false_eq_true, if_false]
          left
          apply ready _ hrel
          rw [hload]; simp only; have := h.hbc; omega
        · -- nothing left: past the end
          have hfm : d.finalBytesRemaining = -1 := by have := h.hf1; omega
          have hload : Arith.loadFromFinalBytes d = { d with finalBytesRemaining := Arith.EOF } := by
            unfold Arith.loadFromFinalBytes; rw [if_neg hf1, if_neg hf0]
          have he : Arith.isPastEof (Arith.loadFromFinalBytes d) = true := by rw [hload]; simp [Arith.isPastEof]
          simp only [he, if_true]
          right
          refine ⟨trivial, trivial, ?_⟩
          have hpos := h.hpos
          have := len_eq data
          have htl : tailLoaded data d = nT data + 1 := by unfold tailLoaded; rw [hfm]; omega
          rw [hLB, htl] at hpos
          unfold needOf; omega
  · simp only [hneg, if_false]
    left
    exact ready d h (by omega)

/-! ### simulation over whole requests -/

theorem renorm_need_data (fuel : Nat) : ∀ s : BoolDec.St,
    (BoolDec.renorm fuel s).need = s.need ∧ (BoolDec.renorm fuel s).data = s.data := by
  induction fuel with
  | zero => intro s; exact ⟨rfl, rfl⟩
  | succ fuel ih =>
    intro s
    rw [renorm_unfold]
    by_cases h : s.range < 128
    · rw [if_pos h]
      obtain ⟨a, b⟩ := ih (specShift s)
      have : (specShift s).need = s.need ∧ (specShift s).data = s.data := by
        unfold specShift; split <;> exact ⟨rfl, rfl⟩
      rw [a, b]; exact this
    · rw [if_neg h]; exact ⟨rfl, rfl⟩

theorem spec_bool_mono (s : BoolDec.St) (p : Nat) :
    s.need ≤ (BoolDec.readBool s p).2.need ∧ (BoolDec.readBool s p).2.data = s.data := by
  unfold BoolDec.readBool
  simp only
  split
  · obtain ⟨a, b⟩ := renorm_need_data 8 (BoolDec.St.mk s.data s.pos
      (s.value - (1 + (s.range - 1) * p / 256) * 256) (s.range - (1 + (s.range - 1) * p / 256)) s.bitCount
      (max s.need (BoolDec.neededAtDecision s)))
    exact ⟨by rw [a]; exact Nat.le_max_left _ _, b⟩
  · obtain ⟨a, b⟩ := renorm_need_data 8 (BoolDec.St.mk s.data s.pos s.value (1 + (s.range - 1) * p / 256) s.bitCount
      (max s.need (BoolDec.neededAtDecision s)))
    exact ⟨by rw [a]; exact Nat.le_max_left _ _, b⟩

theorem spec_literal_mono (n : Nat) : ∀ (s : BoolDec.St) (v : Nat),
    s.need ≤ (BoolDec.readLiteral n s v).2.need ∧ (BoolDec.readLiteral n s v).2.data = s.data := by
  induction n with
  | zero => intro s v; exact ⟨Nat.le_refl _, rfl⟩
  | succ n ih =>
    intro s v
    unfold BoolDec.readLiteral BoolDec.readFlag
    obtain ⟨a, b⟩ := spec_bool_mono s 128
    obtain ⟨c, e⟩ := ih (BoolDec.readBool s 128).2 (v * 2 + (BoolDec.readBool s 128).1.toNat)
    exact ⟨Nat.le_trans a c, by rw [e, b]⟩

/-- the simulation: while the crate's decoder has not run out, both are views of one ideal
    decoder; once it has, the RFC decoder's decisions have needed more than one byte past the end -/
def Sim (data : List Nat) (d : Arith.Dec) (s : BoolDec.St) : Prop :=
  s.data = data ∧ Arith.WF d ∧
  ((Arith.isPastEof d = false ∧ Rel data d (absS s) ∧ SInv s ∧ s.need ≤ data.length + 1) ∨
   (Arith.isPastEof d = true ∧ s.need > data.length + 1))

theorem sim_flags (data : List Nat) (d : Arith.Dec) (s : BoolDec.St) (h : Sim data d s) :
    Arith.isPastEof d = BoolDec.exhausted s := by
  obtain ⟨hd, _, h | h⟩ := h
  · rw [h.1]; unfold BoolDec.exhausted; rw [hd]; simp; omega
  · rw [h.1]; unfold BoolDec.exhausted; rw [hd]; simp; omega

theorem sim_bit (data : List Nat) (hb : ∀ b ∈ data, b < 256) (d : Arith.Dec) (s : BoolDec.St) (p : Nat) (hp : p < 256)
    (h : Sim data d s) :
    Sim data (Arith.coldReadBit d p).2 (BoolDec.readBool s p).2 ∧
    (Arith.isPastEof (Arith.coldReadBit d p).2 = false →
      Arith.isPastEof d = false ∧ (Arith.coldReadBit d p).1 = (BoolDec.readBool s p).1) ∧
    (Arith.isPastEof (Arith.coldReadBit d p).2 = true → (Arith.coldReadBit d p).1 = false) := by
  obtain ⟨hd, hwf, hcase⟩ := h
  obtain ⟨m1, m2⟩ := spec_bool_mono s p
  have hwf' := Arith.coldReadBit_wf d p hp hwf
  rcases hcase with ⟨hlive, hrel, hsinv, hneed⟩ | ⟨heof, hneed⟩
  · have hbs : ∀ b ∈ s.data, b < 256 := by rw [hd]; exact hb
    obtain ⟨s1, s2, s3, s4, s5⟩ := spec_readBool s p hp hbs hsinv hrel.hi
    rw [hd] at s1 s2
    rcases coldReadBit_rel data hb d (absS s) p hp hrel with ⟨c1, c2, c3, c4⟩ | ⟨c1, c2, c3⟩
    · refine ⟨⟨by rw [m2, hd], hwf', Or.inl ⟨c1, by rw [s2]; exact c3, s3, ?_⟩⟩, ?_, ?_⟩
      · rw [s5]; exact Nat.max_le.mpr ⟨hneed, c4⟩
      · intro _; exact ⟨hlive, by rw [c2, s1]⟩
      · intro he; rw [c1] at he; exact absurd he (by decide)
    · refine ⟨⟨by rw [m2, hd], hwf', Or.inr ⟨c1, ?_⟩⟩, ?_, ?_⟩
      · rw [s5]; exact Nat.lt_of_lt_of_le c3 (Nat.le_max_right _ _)
      · intro he; rw [c1] at he; exact absurd he (by decide)
      · intro _; exact c2
  · have hst := Arith.eof_sticky d p hwf (by simpa [Arith.isPastEof] using heof)
    rw [hst]
    refine ⟨⟨by rw [m2, hd], hwf, Or.inr ⟨heof, by omega⟩⟩, ?_, ?_⟩
    · intro he; simp only at he; rw [heof] at he; exact absurd he (by decide)
    · intro _; rfl

theorem u8_step (v k : Nat) (b : Bool) (hv : v < 2 ^ k) (hk : k + 1 ≤ 8) :
    Arith.u8 (v <<< 1) + b.toNat = v * 2 + b.toNat ∧ v * 2 + b.toNat < 2 ^ (k + 1) := by
  have hb : b.toNat ≤ 1 := by cases b <;> simp
  have h256 : 2 ^ (k + 1) ≤ 256 := by
    calc 2 ^ (k + 1) ≤ 2 ^ 8 := Nat.pow_le_pow_right (by decide) hk
      _ = 256 := by decide
  have : v * 2 + 1 < 2 ^ (k + 1) := by rw [Nat.pow_succ]; omega
  unfold Arith.u8
  rw [Nat.shiftLeft_eq, Nat.pow_one, Nat.mod_eq_of_lt (by omega)]
  exact ⟨rfl, by omega⟩

theorem sim_literal (data : List Nat) (hb : ∀ b ∈ data, b < 256) (n : Nat) :
    ∀ (d : Arith.Dec) (s : BoolDec.St) (v v' k : Nat), Sim data d s → v < 2 ^ k → n + k ≤ 8 →
      (Arith.isPastEof d = false → v = v') →
      Sim data (Arith.coldReadLiteral n d v).2 (BoolDec.readLiteral n s v').2 ∧
      (Arith.isPastEof (Arith.coldReadLiteral n d v).2 = false →
        Arith.isPastEof d = false ∧ (Arith.coldReadLiteral n d v).1 = (BoolDec.readLiteral n s v').1) := by
  induction n with
  | zero =>
    intro d s v v' k h _ _ hv
    exact ⟨h, fun he => ⟨he, hv he⟩⟩
  | succ n ih =>
    intro d s v v' k h hvk hnk hv
    unfold Arith.coldReadLiteral BoolDec.readLiteral BoolDec.readFlag
    obtain ⟨b1, b2, _⟩ := sim_bit data hb d s 128 (by omega) h
    obtain ⟨u1, u2⟩ := u8_step v k (Arith.coldReadBit d 128).1 hvk (by omega)
    have := ih (Arith.coldReadBit d 128).2 (BoolDec.readBool s 128).2
      (Arith.u8 (v <<< 1) + (Arith.coldReadBit d 128).1.toNat) (v' * 2 + (BoolDec.readBool s 128).1.toNat) (k + 1)
      b1 (by rw [u1]; exact u2) (by omega)
      (by intro he
          obtain ⟨l1, l2⟩ := b2 he
          rw [u1, hv l1, l2])
    refine ⟨this.1, fun he => ?_⟩
    obtain ⟨l1, l2⟩ := this.2 he
    exact ⟨(b2 l1).1, l2⟩

theorem literal_eof_mono (n : Nat) : ∀ (d : Arith.Dec) (v : Nat), Arith.WF d → Arith.isPastEof d = true →
    Arith.isPastEof (Arith.coldReadLiteral n d v).2 = true := by
  induction n with
  | zero => intro d v _ h; exact h
  | succ n ih =>
    intro d v hwf h
    unfold Arith.coldReadLiteral
    have hst := Arith.eof_sticky d 128 hwf (by simpa [Arith.isPastEof] using h)
    rw [hst]
    exact ih d _ hwf h

theorem sim_signed (data : List Nat) (hb : ∀ b ∈ data, b < 256) (n : Nat) (hn : n ≤ 8)
    (d : Arith.Dec) (s : BoolDec.St) (h : Sim data d s) :
    Sim data (Arith.coldReadSigned d n).2 (BoolDec.readSigned s n).2 ∧
    (Arith.isPastEof (Arith.coldReadSigned d n).2 = false → (Arith.coldReadSigned d n).1 = (BoolDec.readSigned s n).1) := by
  obtain ⟨b1, b2, b3⟩ := sim_bit data hb d s 128 (by omega) h
  unfold Arith.coldReadSigned BoolDec.readSigned BoolDec.readFlag
  simp only
  cases hE : Arith.isPastEof (Arith.coldReadBit d 128).2 with
  | true =>
    -- ran out on the flag: the crate answers 0 and stops; the RFC decoder's need only grows
    have hf := b3 hE
    rw [hf]
    simp only [Bool.not_false, if_true]
    obtain ⟨sd, swf, scase⟩ := b1
    have hneed : (BoolDec.readBool s 128).2.need > data.length + 1 := by
      rcases scase with ⟨c, _⟩ | ⟨_, c⟩
      · rw [hE] at c; exact absurd c (by decide)
      · exact c
    refine ⟨?_, fun he => by rw [hE] at he; exact absurd he (by decide)⟩
    by_cases hsf : (!(BoolDec.readBool s 128).1) = true
    · rw [if_pos hsf]; exact ⟨sd, swf, Or.inr ⟨hE, hneed⟩⟩
    · rw [if_neg hsf]
      obtain ⟨l1, l2⟩ := spec_literal_mono n (BoolDec.readBool s 128).2 0
      obtain ⟨m1, m2⟩ := spec_bool_mono (BoolDec.readLiteral n (BoolDec.readBool s 128).2 0).2 128
      exact ⟨by simp only; rw [m2, l2, sd], swf, Or.inr ⟨hE, by simp only; omega⟩⟩
  | false =>
    obtain ⟨_, hbit⟩ := b2 hE
    rw [← hbit]
    by_cases hf : (!(Arith.coldReadBit d 128).1) = true
    · rw [if_pos hf, if_pos hf]
      exact ⟨b1, fun _ => rfl⟩
    · rw [if_neg hf, if_neg hf]
      obtain ⟨l1, l2⟩ := sim_literal data hb n (Arith.coldReadBit d 128).2 (BoolDec.readBool s 128).2 0 0 0 b1
        (by decide) (by omega) (fun _ => rfl)
      obtain ⟨g1, g2, _⟩ := sim_bit data hb _ _ 128 (by omega) l1
      refine ⟨g1, fun he => ?_⟩
      obtain ⟨e1, e2⟩ := g2 he
      obtain ⟨_, e4⟩ := l2 e1
      rw [e2, e4]; rfl

theorem sim_init (data : List Nat) (hb : ∀ b ∈ data, b < 256) (h255 : data.head? ≠ some 255) :
    Sim data (Arith.init data) (BoolDec.init data) := by
  have hsp := splitChunks_spec data #[]
  obtain ⟨_, htl, _, _, htail⟩ := hsp
  have hb0 := byteAt_lt data hb 0
  have hb1 := byteAt_lt data hb 1
  have hne : byteAt data 0 ≠ 255 := by
    intro he
    apply h255
    unfold byteAt at he
    cases data with
    | nil => simp at he
    | cons a t => simp at he; simp [he]
  have habs : absS (BoolDec.init data) = ⟨255, byteAt data 0, 8⟩ := by
    simp only [absS, BoolDec.init]
    refine congr (congr (congrArg Ideal.mk rfl) ?_) rfl
    omega
  have hinit_f : (Arith.init data).finalBytesRemaining = (nT data : Int) := by
    show (((Arith.splitChunks data #[]).2.length : Nat) : Int) = _
    rw [htl]; rfl
  have htl0 : tailLoaded data (Arith.init data) = 0 := by unfold tailLoaded; rw [hinit_f]; simp
  have hnt : nT data ≤ 3 := by unfold nT; omega
  refine ⟨rfl, Arith.init_wf data, Or.inl ⟨?_, ?_, ?_, ?_⟩⟩
  · unfold Arith.isPastEof Arith.EOF; rw [hinit_f]; simp only [beq_eq_false_iff_ne, ne_eq]; omega
  · rw [habs]
    refine { hc := rfl, hidx := Nat.zero_le _, hf1 := by rw [hinit_f]; omega, hf2 := Int.le_of_eq hinit_f,
             hpre := fun _ => hinit_f, hlen := ?_, hfb := ?_, hr := rfl, hbc := by have : (Arith.init data).state.bitCount = -8 := rfl; omega, hpos := ?_, hv1 := ?_, hv2 := ?_,
             hi := ⟨by show 128 ≤ 255; decide, by show 255 ≤ 255; decide, by show byteAt data 0 < 255; omega⟩ }
    · show (((Arith.splitChunks data #[]).2 ++ [0, 0, 0]).take 3).length = 3
      rw [List.length_take, List.length_append, htl]; simp
    · intro k hk
      rw [hinit_f] at hk
      have hk' : k < nT data := by exact_mod_cast hk
      rw [htl0]
      show (((Arith.splitChunks data #[]).2 ++ [0, 0, 0]).take 3).getD k 0 = _
      rw [List.getD_eq_getElem?_getD, List.getElem?_take_of_lt (by omega), List.getElem?_append_left (by rw [htl]; exact hk'),
        ← List.getD_eq_getElem?_getD, htail k]
      unfold byteAt nC; rw [Nat.add_zero]
    · show ((8 : Nat) : Int) + (-8) = 8 * ((loadedBytes data (Arith.init data) : Nat) : Int)
      have : loadedBytes data (Arith.init data) = 0 := by unfold loadedBytes; rw [htl0]; rfl
      rw [this]; simp
    · intro b hbq
      have : (Arith.init data).state.bitCount = -8 := rfl
      omega
    · intro m hm _
      have hbc8 : (Arith.init data).state.bitCount = -8 := rfl
      have hm8 : m = 8 := by omega
      subst hm8
      have hlb : loadedBytes data (Arith.init data) = 0 := by unfold loadedBytes; rw [htl0]; rfl
      rw [hlb]
      have := win_byte data hb 0
      simp only [Nat.mul_zero] at this ⊢
      rw [this]
      show byteAt data 0 = 0 * 2 ^ 8 + byteAt data 0
      omega
  · refine ⟨by show 2 ≤ 2; decide, by show 0 < 8; decide, ?_⟩
    show (byteAt data 0 * 256 + byteAt data 1) % 256 = win data (8 * (2 - 1) + 0) (8 - 0) * 2 ^ 0
    have := win_byte data hb 1
    simp only [Nat.mul_one] at this
    rw [show 8 * (2 - 1) + 0 = 8 from rfl, show 8 - 0 = 8 from rfl, this]
    omega
  · show 0 ≤ data.length + 1
    omega

/-! ### tree-coded reads -/

def entryGood (len i : Nat) (e : Int) : Bool :=
  if e > 0 then e.toNat % 2 == 0 && decide (e.toNat < len) && decide (i < e.toNat) else decide ((-e).toNat < 128)

/-- shape of an RFC tree: pairs of entries, positive entries are even indices further down the
    array (the trees are written top-down), other entries are negated leaves below 128; one byte
    probability per pair -/
def treeGood (t : List Int) (ps : List Nat) : Bool :=
  t.length % 2 == 0 && decide (t.length / 2 ≤ ps.length) && decide (t.length / 2 ≤ 128) && decide (0 < t.length) &&
  (List.range t.length).all (fun i => entryGood t.length i (t.getD i 0)) && ps.all (· < 256)

def nodesOf (t : List Int) (ps : List Nat) : Array Arith.Node := (Arith.treeNodesFrom t ps).toArray

theorem treeNodes_get : ∀ (t : List Int) (ps : List Nat) (k : Nat), 2 * k + 1 < t.length → k < ps.length →
    (Arith.treeNodesFrom t ps)[k]? =
      some ⟨Arith.prepareBranch (t.getD (2 * k) 0), Arith.prepareBranch (t.getD (2 * k + 1) 0), ps.getD k 0⟩ := by
  intro t ps
  fun_induction Arith.treeNodesFrom t ps with
  | case1 l r ts p ps ih =>
    intro k hk hp
    cases k with
    | zero => simp
    | succ k =>
      have := ih k (by simp at hk; omega) (by simp at hp; omega)
      simp only [List.getElem?_cons_succ, this]
      rw [show 2 * (k + 1) = 2 * k + 1 + 1 by omega, show 2 * k + 1 + 1 + 1 = (2 * k + 1) + 1 + 1 by omega]
      simp
  | case2 t ps hno =>
    intro k hk hp
    exfalso
    match t, ps, hno with
    | l :: r :: ts, p :: ps, hno => exact hno l r ts p ps rfl rfl
    | [], _, _ => simp at hk
    | [_], _, _ => simp at hk
    | _ :: _ :: _, [], _ => simp at hp

theorem treeNodes_length : ∀ (t : List Int) (ps : List Nat), (Arith.treeNodesFrom t ps).length = min (t.length / 2) ps.length := by
  intro t ps
  fun_induction Arith.treeNodesFrom t ps with
  | case1 l r ts p ps ih => simp only [List.length_cons, ih]; omega
  | case2 t ps hno =>
    match t, ps, hno with
    | l :: r :: ts, p :: ps, hno => exact (hno l r ts p ps rfl rfl).elim
    | [], _, _ => simp
    | [_], _, _ => simp
    | _ :: _ :: _, [], _ => simp

/-- everything the walks need to know about a good tree -/
structure TreeFacts (t : List Int) (ps : List Nat) : Prop where
  size : (nodesOf t ps).size = t.length / 2
  pos : 0 < t.length / 2
  len : t.length = 2 * (t.length / 2)
  small : t.length / 2 ≤ 128
  node : ∀ k, k < t.length / 2 → (nodesOf t ps)[k]? =
      some ⟨Arith.prepareBranch (t.getD (2 * k) 0), Arith.prepareBranch (t.getD (2 * k + 1) 0), ps.getD k 0⟩
  prob : ∀ k, k < t.length / 2 → ps.getD k 0 < 256
  entry : ∀ i, i < t.length → entryGood t.length i (t.getD i 0) = true

theorem treeFacts (t : List Int) (ps : List Nat) (h : treeGood t ps = true) : TreeFacts t ps := by
  unfold treeGood at h
  simp only [Bool.and_eq_true, beq_iff_eq, decide_eq_true_eq, List.all_eq_true, List.mem_range] at h
  obtain ⟨⟨⟨⟨⟨h1, h2⟩, h3⟩, h4⟩, h5⟩, h6⟩ := h
  have hsz : (nodesOf t ps).size = t.length / 2 := by
    unfold nodesOf; rw [List.size_toArray, treeNodes_length]; omega
  refine ⟨hsz, by omega, by omega, h3, ?_, ?_, h5⟩
  · intro k hk
    unfold nodesOf
    rw [List.getElem?_toArray]
    exact treeNodes_get t ps k (by omega) (by omega)
  · intro k hk
    have hk' : k < ps.length := by omega
    rw [List.getD_eq_getElem?_getD, List.getElem?_eq_getElem hk']
    exact h6 _ (List.getElem_mem hk')

/-- what a branch entry means for both walks -/
theorem branch_cases (t : List Int) (ps : List Nat) (f : TreeFacts t ps) (i : Nat) (hi : i < t.length) :
    (t.getD i 0 > 0 ∧ Arith.prepareBranch (t.getD i 0) = (t.getD i 0).toNat / 2 ∧
      (t.getD i 0).toNat / 2 < t.length / 2 ∧ i / 2 < (t.getD i 0).toNat / 2 ∧
      (t.getD i 0).toNat = 2 * ((t.getD i 0).toNat / 2)) ∨
    (¬ t.getD i 0 > 0 ∧ t.length / 2 ≤ Arith.prepareBranch (t.getD i 0) ∧
      Arith.valueFromBranch (Arith.prepareBranch (t.getD i 0)) = (-(t.getD i 0)).toNat) := by
  have he := f.entry i hi
  have hlen := f.len
  unfold entryGood at he
  by_cases hpos : t.getD i 0 > 0
  · left
    simp only [hpos, if_true, Bool.and_eq_true, beq_iff_eq, decide_eq_true_eq] at he
    obtain ⟨⟨e1, e2⟩, e3⟩ := he
    refine ⟨hpos, by unfold Arith.prepareBranch; rw [if_pos hpos], by omega, by omega, by omega⟩
  · right
    simp only [hpos, if_false, decide_eq_true_eq] at he
    have hor : 128 ||| (-(t.getD i 0)).toNat = 128 + (-(t.getD i 0)).toNat := by
      have := Nat.two_pow_add_eq_or_of_lt (i := 7) (b := (-(t.getD i 0)).toNat) (by simpa using he) 1
      simpa using this.symm
    have hs := f.small
    refine ⟨hpos, ?_, ?_⟩
    · unfold Arith.prepareBranch; rw [if_neg hpos, hor]; omega
    · unfold Arith.prepareBranch Arith.valueFromBranch; rw [if_neg hpos, hor]; omega

theorem getElem?_getD (t : List Int) (i : Nat) (hi : i < t.length) : t[i]? = some (t.getD i 0) := by
  rw [List.getD_eq_getElem?_getD, List.getElem?_eq_getElem hi]; rfl

/-- the cold walk of a decoder that has run out: always left, ends at a leaf, decoder untouched -/
theorem cold_tree_eof (t : List Int) (ps : List Nat) (f : TreeFacts t ps) (n : Nat) :
    ∀ (fc k : Nat) (d : Arith.Dec), t.length / 2 - k ≤ n → n ≤ fc → k < t.length / 2 → Arith.WF d →
      Arith.isPastEof d = true → ∃ v, Arith.coldReadTree (nodesOf t ps) fc d k = some (v, d) := by
  induction n with
  | zero => intro fc k d h1 _ h3; omega
  | succ n ih =>
    intro fc k d h1 h2 h3 hwf he
    obtain ⟨fc', rfl⟩ : ∃ fc', fc = fc' + 1 := ⟨fc - 1, by omega⟩
    unfold Arith.coldReadTree
    rw [f.node k h3]
    simp only
    have hst := Arith.eof_sticky d (ps.getD k 0) hwf (by simpa [Arith.isPastEof] using he)
    rw [hst]
    simp only [Bool.false_eq_true, if_false, f.size]
    rcases branch_cases t ps f (2 * k) (by have := f.len; omega) with ⟨_, e2, e3, e4, _⟩ | ⟨_, e2, _⟩
    · rw [e2, if_pos e3]
      exact ih fc' _ d (by omega) (by omega) e3 hwf he
    · rw [if_neg (by omega)]
      exact ⟨_, rfl⟩

/-- the RFC walk always ends at a leaf; its ghost `need` only grows -/
theorem spec_tree_total (t : List Int) (ps : List Nat) (f : TreeFacts t ps) (n : Nat) :
    ∀ (fs k : Nat) (s : BoolDec.St), t.length / 2 - k ≤ n → n ≤ fs → k < t.length / 2 →
      ∃ v s', BoolDec.readTree t ps fs s (2 * k) = some (v, s') ∧ s.need ≤ s'.need ∧ s'.data = s.data := by
  induction n with
  | zero => intro fs k s h1 _ h3; omega
  | succ n ih =>
    intro fs k s h1 h2 h3
    obtain ⟨fs', rfl⟩ : ∃ fs', fs = fs' + 1 := ⟨fs - 1, by omega⟩
    unfold BoolDec.readTree
    simp only
    obtain ⟨m1, m2⟩ := spec_bool_mono s (ps.getD (2 * k / 2) 0)
    have hlen := f.len
    have hb1 : (BoolDec.readBool s (ps.getD (2 * k / 2) 0)).1.toNat ≤ 1 := by
      cases (BoolDec.readBool s (ps.getD (2 * k / 2) 0)).1 <;> simp
    have hi : 2 * k + (BoolDec.readBool s (ps.getD (2 * k / 2) 0)).1.toNat < t.length := by omega
    rw [getElem?_getD t _ hi]
    simp only
    rcases branch_cases t ps f _ hi with ⟨e1, _, e3, e4, e5⟩ | ⟨e1, _, _⟩
    · rw [if_pos e1, e5]
      obtain ⟨v, s', r1, r2, r3⟩ := ih fs' _ (BoolDec.readBool s (ps.getD (2 * k / 2) 0)).2 (by omega) (by omega) e3
      exact ⟨v, s', r1, by omega, by rw [r3, m2]⟩
    · rw [if_neg e1]
      exact ⟨_, _, rfl, m1, m2⟩

/-- the speculative walk always finishes within `size + 1` steps -/
theorem fast_tree_total (t : List Int) (ps : List Nat) (f : TreeFacts t ps) (chunks : Array Nat) (n : Nat) :
    ∀ (fuel k : Nat) (st : Arith.State) (node : Arith.Node), t.length / 2 - k ≤ n → n ≤ fuel → k < t.length / 2 →
      (nodesOf t ps)[k]? = some node → ∃ r, Arith.fastReadTree chunks (nodesOf t ps) fuel st node = some r := by
  induction n with
  | zero => intro fuel k st node h1 _ h3; omega
  | succ n ih =>
    intro fuel k st node h1 h2 h3 hn
    obtain ⟨fuel', rfl⟩ : ∃ fuel', fuel = fuel' + 1 := ⟨fuel - 1, by omega⟩
    rw [f.node k h3] at hn
    have hnode := (Option.some.inj hn).symm
    unfold Arith.fastReadTree
    simp only
    have hlen := f.len
    cases hbit : (Arith.fastReadBit chunks st node.prob).1 with
    | true =>
      simp only [if_true]
      rcases branch_cases t ps f (2 * k + 1) (by omega) with ⟨_, e2, e3, e4, _⟩ | ⟨_, e2, _⟩
      · have : node.right = (t.getD (2 * k + 1) 0).toNat / 2 := by rw [hnode]; exact e2
        rw [this, f.node _ e3]
        exact ih fuel' _ _ _ (by omega) (by omega) e3 (f.node _ e3)
      · have : t.length / 2 ≤ node.right := by rw [hnode]; exact e2
        rw [Array.getElem?_eq_none (by rw [f.size]; exact this)]
        exact ⟨_, rfl⟩
    | false =>
      simp only [Bool.false_eq_true, if_false]
      rcases branch_cases t ps f (2 * k) (by omega) with ⟨_, e2, e3, e4, _⟩ | ⟨_, e2, _⟩
      · have : node.left = (t.getD (2 * k) 0).toNat / 2 := by rw [hnode]; exact e2
        rw [this, f.node _ e3]
        exact ih fuel' _ _ _ (by omega) (by omega) e3 (f.node _ e3)
      · have : t.length / 2 ≤ node.left := by rw [hnode]; exact e2
        rw [Array.getElem?_eq_none (by rw [f.size]; exact this)]
        exact ⟨_, rfl⟩

/-- the cold walk against the RFC walk -/
theorem tree_sim (t : List Int) (ps : List Nat) (f : TreeFacts t ps) (data : List Nat) (hb : ∀ b ∈ data, b < 256) (n : Nat) :
    ∀ (fc fs k : Nat) (d : Arith.Dec) (s : BoolDec.St), t.length / 2 - k ≤ n → n ≤ fc → n ≤ fs → k < t.length / 2 →
      Sim data d s →
      ∃ v d' v' s', Arith.coldReadTree (nodesOf t ps) fc d k = some (v, d') ∧
        BoolDec.readTree t ps fs s (2 * k) = some (v', s') ∧ Sim data d' s' ∧
        (Arith.isPastEof d' = false → v = v') := by
  induction n with
  | zero => intro fc fs k d s h1 _ _ h3; omega
  | succ n ih =>
    intro fc fs k d s h1 h2 h2' h3 hsim
    obtain ⟨fc', rfl⟩ : ∃ fc', fc = fc' + 1 := ⟨fc - 1, by omega⟩
    obtain ⟨fs', rfl⟩ : ∃ fs', fs = fs' + 1 := ⟨fs - 1, by omega⟩
    have hlen := f.len
    have hp := f.prob k h3
    have hk2 : 2 * k / 2 = k := by omega
    obtain ⟨b1, b2, b3⟩ := sim_bit data hb d s (ps.getD k 0) hp hsim
    unfold Arith.coldReadTree BoolDec.readTree
    rw [f.node k h3]
    simp only [hk2, f.size]
    have hbs : (BoolDec.readBool s (ps.getD k 0)).1.toNat ≤ 1 := by
      cases (BoolDec.readBool s (ps.getD k 0)).1 <;> simp
    have hi : 2 * k + (BoolDec.readBool s (ps.getD k 0)).1.toNat < t.length := by omega
    rw [getElem?_getD t _ hi]
    simp only
    cases hE : Arith.isPastEof (Arith.coldReadBit d (ps.getD k 0)).2 with
    | true =>
      -- the crate ran out on this bit: it walks left to a leaf; the RFC walk ends somewhere
      have hf := b3 hE
      rw [hf]
      simp only [Bool.false_eq_true, if_false]
      obtain ⟨sd, swf, scase⟩ := b1
      have hneed : (BoolDec.readBool s (ps.getD k 0)).2.need > data.length + 1 := by
        rcases scase with ⟨c, _⟩ | ⟨_, c⟩
        · rw [hE] at c; exact absurd c (by decide)
        · exact c
      -- crate side
      have hcr : ∃ v, (if Arith.prepareBranch (t.getD (2 * k) 0) < t.length / 2
          then Arith.coldReadTree (nodesOf t ps) fc' (Arith.coldReadBit d (ps.getD k 0)).2 (Arith.prepareBranch (t.getD (2 * k) 0))
          else some (Arith.valueFromBranch (Arith.prepareBranch (t.getD (2 * k) 0)), (Arith.coldReadBit d (ps.getD k 0)).2))
          = some (v, (Arith.coldReadBit d (ps.getD k 0)).2) := by
        rcases branch_cases t ps f (2 * k) (by omega) with ⟨_, e2, e3, e4, _⟩ | ⟨_, e2, _⟩
        · rw [e2, if_pos e3]
          exact cold_tree_eof t ps f n fc' _ _ (by omega) (by omega) e3 swf hE
        · rw [if_neg (by omega)]; exact ⟨_, rfl⟩
      obtain ⟨v, hv⟩ := hcr
      -- RFC side
      have hsp : ∃ v' s', (if t.getD (2 * k + (BoolDec.readBool s (ps.getD k 0)).1.toNat) 0 > 0
          then BoolDec.readTree t ps fs' (BoolDec.readBool s (ps.getD k 0)).2
            (t.getD (2 * k + (BoolDec.readBool s (ps.getD k 0)).1.toNat) 0).toNat
          else some ((-(t.getD (2 * k + (BoolDec.readBool s (ps.getD k 0)).1.toNat) 0)).toNat, (BoolDec.readBool s (ps.getD k 0)).2))
          = some (v', s') ∧ (BoolDec.readBool s (ps.getD k 0)).2.need ≤ s'.need ∧ s'.data = (BoolDec.readBool s (ps.getD k 0)).2.data := by
        rcases branch_cases t ps f _ hi with ⟨e1, _, e3, e4, e5⟩ | ⟨e1, _, _⟩
        · rw [if_pos e1, e5]
          exact spec_tree_total t ps f n fs' _ _ (by omega) (by omega) e3
        · rw [if_neg e1]; exact ⟨_, _, rfl, Nat.le_refl _, rfl⟩
      obtain ⟨v', s', hs1, hs2, hs3⟩ := hsp
      refine ⟨v, _, v', s', hv, hs1, ⟨by rw [hs3, sd], swf, Or.inr ⟨hE, by omega⟩⟩, ?_⟩
      intro he; rw [hE] at he; exact absurd he (by decide)
    | false =>
      obtain ⟨_, hbit⟩ := b2 hE
      rw [← hbit]
      cases hb' : (Arith.coldReadBit d (ps.getD k 0)).1 with
      | true =>
        simp only [if_true, Bool.toNat_true]
        rcases branch_cases t ps f (2 * k + 1) (by omega) with ⟨e1, e2, e3, e4, e5⟩ | ⟨e1, e2, e6⟩
        · rw [e2, if_pos e3, if_pos e1, e5, Nat.mul_div_cancel_left _ (by decide : 0 < 2)]
          exact ih fc' fs' _ _ _ (by omega) (by omega) (by omega) e3 b1
        · rw [if_neg (by omega), if_neg e1]
          exact ⟨_, _, _, _, rfl, rfl, b1, fun _ => e6⟩
      | false =>
        simp only [Bool.false_eq_true, if_false, Bool.toNat_false, Nat.add_zero]
        rcases branch_cases t ps f (2 * k) (by omega) with ⟨e1, e2, e3, e4, e5⟩ | ⟨e1, e2, e6⟩
        · rw [e2, if_pos e3, if_pos e1, e5, Nat.mul_div_cancel_left _ (by decide : 0 < 2)]
          exact ih fc' fs' _ _ _ (by omega) (by omega) (by omega) e3 b1
        · rw [if_neg (by omega), if_neg e1]
          exact ⟨_, _, _, _, rfl, rfl, b1, fun _ => e6⟩

end ArithRfc
