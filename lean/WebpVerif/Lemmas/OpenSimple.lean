import WebpVerif.Lemmas.OpenFile

/-!
Whole-file parse-after-print for the two simple layouts: `WebPDecoder::new` on a RIFF header
followed by one VP8L (or VP8) chunk reports exactly the size (and alpha bit) the image header
encodes, for every legal size, whatever the declared RIFF / chunk sizes and whatever follows.
-/
namespace ScanProof
open Container

def vp8lWord (w h : Nat) (alpha : Bool) : Nat := (w - 1) + (h - 1) * 2 ^ 14 + (if alpha then 1 else 0) * 2 ^ 28

/-- a simple lossless file: RIFF header, `VP8L` chunk header, signature byte, header word, anything -/
def simpleLossless (riffSize plen w h : Nat) (alpha : Bool) (body : List Nat) : List Nat :=
  RIFF ++ (EncContainer.le32 riffSize ++ (WEBP ++ (VP8L ++ (EncContainer.le32 plen ++ ([0x2f] ++
    (EncContainer.le32 (vp8lWord w h alpha) ++ body))))))

def le16 (n : Nat) : List Nat := [n % 256, n / 256 % 256]

theorem le_le16 (n : Nat) (h : n < 2 ^ 16) : le (le16 n) = n := by
  unfold le le16; simp only [List.foldr]; omega

/-- a simple lossy file: RIFF header, `VP8 ` chunk header, 3-byte frame tag (key frame: first
    byte even), start code, the two 16-bit size fields (14-bit size + 2-bit scale), anything -/
def simpleLossy (riffSize plen t0 t1 t2 w sx h sy : Nat) (body : List Nat) : List Nat :=
  RIFF ++ (EncContainer.le32 riffSize ++ (WEBP ++ (VP8 ++ (EncContainer.le32 plen ++ ([t0, t1, t2] ++
    ([0x9d, 0x01, 0x2a] ++ (le16 (w + sx * 2 ^ 14) ++ (le16 (h + sy * 2 ^ 14) ++ body))))))))

theorem fourcc_simple : RIFF.length = 4 ∧ WEBP.length = 4 ∧ VP8L.length = 4 ∧ VP8.length = 4 ∧
    (VP8L == VP8) = false ∧ (VP8L == VP8L) = true ∧ (VP8 == VP8) = true := by decide

theorem riff_header (F rest : List Nat) (riffSize : Nat) (hs : riffSize < 2 ^ 32)
    (hF : F = RIFF ++ (EncContainer.le32 riffSize ++ rest)) :
    readChunkHeader { data := F, pos := 0 } =
      .ok ((RIFF, riffSize, min (riffSize + riffSize % 2) (2 ^ 32 - 1)), { data := F, pos := 8 }) := by
  obtain ⟨l1, _⟩ := fourcc_simple
  unfold readChunkHeader
  rw [read_at F [] RIFF (EncContainer.le32 riffSize ++ rest) (by rw [hF]; rfl) 0 4 rfl l1.symm]
  simp only
  unfold readLE
  rw [read_at F RIFF (EncContainer.le32 riffSize) rest hF (0 + 4) 4 (by rw [l1]) rfl]
  simp only
  rw [le_le32 _ hs]

theorem chunk_header (F pre cc rest : List Nat) (size : Nat) (hs : size < 2 ^ 32) (hcc : cc.length = 4)
    (hF : F = pre ++ (cc ++ (EncContainer.le32 size ++ rest))) (p : Nat) (hp : p = pre.length) :
    readChunkHeader { data := F, pos := p } =
      .ok ((cc, size, min (size + size % 2) (2 ^ 32 - 1)), { data := F, pos := p + 4 + 4 }) := by
  unfold readChunkHeader
  rw [read_at F pre cc (EncContainer.le32 size ++ rest) hF p 4 hp hcc.symm]
  simp only
  unfold readLE
  rw [read_at F (pre ++ cc) (EncContainer.le32 size) rest (by rw [hF]; simp only [List.append_assoc]) (p + 4) 4
    (by rw [List.length_append, hcc, hp]) rfl]
  simp only
  rw [le_le32 _ hs]

theorem readLE_at (F pre a rest : List Nat) (hF : F = pre ++ (a ++ rest)) (p n : Nat) (hp : p = pre.length) (hn : n = a.length) :
    readLE n { data := F, pos := p } = .ok (le a, { data := F, pos := p + n }) := by
  unfold readLE
  rw [read_at F pre a rest hF p n hp hn]

theorem vp8l_lt (w h : Nat) (alpha : Bool) (hw : 1 ≤ w ∧ w ≤ 16384) (hh : 1 ≤ h ∧ h ≤ 16384) : vp8lWord w h alpha < 2 ^ 32 := by
  unfold vp8lWord; cases alpha <;> simp <;> omega
theorem vp8l_f1 (w h : Nat) (alpha : Bool) (hw : 1 ≤ w ∧ w ≤ 16384) (hh : 1 ≤ h ∧ h ≤ 16384) : vp8lWord w h alpha / 2 ^ 29 = 0 := by
  unfold vp8lWord; cases alpha <;> simp <;> omega
theorem vp8l_f2 (w h : Nat) (alpha : Bool) (hw : 1 ≤ w ∧ w ≤ 16384) (hh : 1 ≤ h ∧ h ≤ 16384) : vp8lWord w h alpha % 2 ^ 14 + 1 = w := by
  unfold vp8lWord; cases alpha <;> simp <;> omega
theorem vp8l_f3 (w h : Nat) (alpha : Bool) (hw : 1 ≤ w ∧ w ≤ 16384) (hh : 1 ≤ h ∧ h ≤ 16384) : vp8lWord w h alpha / 2 ^ 14 % 2 ^ 14 + 1 = h := by
  unfold vp8lWord; cases alpha <;> simp <;> omega
theorem vp8l_f4 (w h : Nat) (alpha : Bool) (hw : 1 ≤ w ∧ w ≤ 16384) (hh : 1 ≤ h ∧ h ≤ 16384) : (vp8lWord w h alpha / 2 ^ 28 % 2 == 1) = alpha := by
  unfold vp8lWord; cases alpha <;> simp <;> omega
theorem sig_ok : (le [0x2f] != 0x2f) = false := by decide

/-- the `VP8L` arm on a payload that starts with the signature and the header word -/
theorem vp8lInfo_at (F pre body : List Nat) (w h : Nat) (alpha : Bool) (start size p : Nat)
    (hF : F = pre ++ ([0x2f] ++ (EncContainer.le32 (vp8lWord w h alpha) ++ body))) (hp : p = pre.length)
    (hw : 1 ≤ w ∧ w ≤ 16384) (hh : 1 ≤ h ∧ h ≤ 16384) :
    vp8lInfo start size { data := F, pos := p } =
      .ok ({ emptyInfo with width := w, height := h, hasAlpha := alpha, chunks := [(VP8L, (start, start + size))] },
           { data := F, pos := p + 1 + 4 }) := by
  have hword := vp8l_lt w h alpha hw hh
  have g1 := vp8l_f1 w h alpha hw hh
  have g2 := vp8l_f2 w h alpha hw hh
  have g3 := vp8l_f3 w h alpha hw hh
  have g4 := vp8l_f4 w h alpha hw hh
  generalize vp8lWord w h alpha = hdr at hF hword g1 g2 g3 g4
  unfold vp8lInfo readU8
  rw [read_at F pre [0x2f] (EncContainer.le32 hdr ++ body) hF p 1 hp rfl]
  simp only
  rw [sig_ok]
  simp only [Bool.false_eq_true, if_false]
  rw [readLE_at F (pre ++ [0x2f]) (EncContainer.le32 hdr) body (by rw [hF]; simp only [List.append_assoc]) (p + 1) 4
    (by rw [List.length_append, hp]; rfl) rfl]
  rw [le_le32 _ hword]
  simp only
  rw [g1, g2, g3, g4]
  rfl

theorem open_simple_lossless_F (F : List Nat) (riffSize plen w h : Nat) (alpha : Bool) (body : List Nat)
    (hflat : F = RIFF ++ (EncContainer.le32 riffSize ++ (WEBP ++ (VP8L ++ (EncContainer.le32 plen ++ ([0x2f] ++
      (EncContainer.le32 (vp8lWord w h alpha) ++ body)))))))
    (hrs : riffSize < 2 ^ 32) (hpl : plen < 2 ^ 32) (hw : 1 ≤ w ∧ w ≤ 16384) (hh : 1 ≤ h ∧ h ≤ 16384) :
    openFile F =
      .ok { emptyInfo with width := w, height := h, hasAlpha := alpha, chunks := [(VP8L, (20, 20 + plen))] } := by
  obtain ⟨l1, l2, l3, _, n1, n2, _⟩ := fourcc_simple
  unfold openFile readData
  rw [riff_header F _ riffSize hrs hflat]
  simp only [bne_self_eq_false, Bool.false_eq_true, if_false]
  rw [read_at F (RIFF ++ EncContainer.le32 riffSize) WEBP _ (by rw [hflat]; simp only [List.append_assoc] <;> rfl) 8 4
    (by rw [List.length_append, l1, EncContainer.le32_length]) l2.symm]
  simp only [bne_self_eq_false, Bool.false_eq_true, if_false]
  rw [chunk_header F (RIFF ++ EncContainer.le32 riffSize ++ WEBP) VP8L _ plen hpl l3
    (by rw [hflat]; simp only [List.append_assoc] <;> rfl) (8 + 4)
    (by simp only [List.length_append, l1, l2, EncContainer.le32_length])]
  simp only [n1, n2, Bool.false_eq_true, if_false, if_true]
  rw [vp8lInfo_at F (RIFF ++ EncContainer.le32 riffSize ++ WEBP ++ VP8L ++ EncContainer.le32 plen) body w h alpha _ _ _
    (by rw [hflat]; simp only [List.append_assoc]) (by simp only [List.length_append, l1, l2, l3, EncContainer.le32_length]) hw hh]

/-- **Whole file, simple lossless.** -/
theorem open_simple_lossless (riffSize plen w h : Nat) (alpha : Bool) (body : List Nat)
    (hrs : riffSize < 2 ^ 32) (hpl : plen < 2 ^ 32) (hw : 1 ≤ w ∧ w ≤ 16384) (hh : 1 ≤ h ∧ h ≤ 16384) :
    openFile (simpleLossless riffSize plen w h alpha body) =
      .ok { emptyInfo with width := w, height := h, hasAlpha := alpha, chunks := [(VP8L, (20, 20 + plen))] } :=
  open_simple_lossless_F _ riffSize plen w h alpha body rfl hrs hpl hw hh

/-- **Whole file, simple lossy.** -/
theorem open_simple_lossy (riffSize plen t0 t1 t2 w sx h sy : Nat) (body : List Nat)
    (hrs : riffSize < 2 ^ 32) (hpl : plen < 2 ^ 32) (ht : t0 < 256 ∧ t1 < 256 ∧ t2 < 256) (hkey : t0 % 2 = 0)
    (hw : 1 ≤ w ∧ w < 2 ^ 14) (hh : 1 ≤ h ∧ h < 2 ^ 14) (hsx : sx < 4) (hsy : sy < 4) :
    openFile (simpleLossy riffSize plen t0 t1 t2 w sx h sy body) =
      .ok { emptyInfo with width := w, height := h, isLossy := true, chunks := [(VP8, (20, 20 + plen))] } := by
  obtain ⟨l1, l2, _, l4, _, _, n3⟩ := fourcc_simple
  generalize hF : simpleLossy riffSize plen t0 t1 t2 w sx h sy body = F
  have hflat : F = RIFF ++ (EncContainer.le32 riffSize ++ (WEBP ++ (VP8 ++ (EncContainer.le32 plen ++ ([t0, t1, t2] ++
      ([0x9d, 0x01, 0x2a] ++ (le16 (w + sx * 2 ^ 14) ++ (le16 (h + sy * 2 ^ 14) ++ body)))))))) := by rw [← hF]; rfl
  unfold openFile readData
  rw [riff_header F _ riffSize hrs hflat]
  simp only [bne_self_eq_false, Bool.false_eq_true, if_false]
  rw [read_at F (RIFF ++ EncContainer.le32 riffSize) WEBP _ (by rw [hflat]; simp only [List.append_assoc] <;> rfl) 8 4
    (by rw [List.length_append, l1, EncContainer.le32_length]) l2.symm]
  simp only [bne_self_eq_false, Bool.false_eq_true, if_false]
  rw [chunk_header F (RIFF ++ EncContainer.le32 riffSize ++ WEBP) VP8 _ plen hpl l4
    (by rw [hflat]; simp only [List.append_assoc] <;> rfl) (8 + 4)
    (by simp only [List.length_append, l1, l2, EncContainer.le32_length])]
  simp only [n3, if_true]
  unfold readLE
  rw [read_at F (RIFF ++ EncContainer.le32 riffSize ++ WEBP ++ VP8 ++ EncContainer.le32 plen) [t0, t1, t2] _
    (by rw [hflat]; simp only [List.append_assoc] <;> rfl) (8 + 4 + 4 + 4) 3
    (by simp only [List.length_append, l1, l2, l4, EncContainer.le32_length]) rfl]
  simp only
  have htag : (le [t0, t1, t2] % 2 != 0) = false := by
    unfold le; simp only [List.foldr]
    have : (t0 + 256 * (t1 + 256 * (t2 + 256 * 0))) % 2 = 0 := by omega
    rw [this]; rfl
  rw [htag]
  simp only [Bool.false_eq_true, if_false]
  rw [read_at F (RIFF ++ EncContainer.le32 riffSize ++ WEBP ++ VP8 ++ EncContainer.le32 plen ++ [t0, t1, t2]) [0x9d, 0x01, 0x2a] _
    (by rw [hflat]; simp only [List.append_assoc] <;> rfl) (8 + 4 + 4 + 4 + 3) 3
    (by simp only [List.length_append, l1, l2, l4, EncContainer.le32_length, List.length_cons, List.length_nil]) rfl]
  simp only [bne_self_eq_false, Bool.false_eq_true, if_false]
  rw [read_at F (RIFF ++ EncContainer.le32 riffSize ++ WEBP ++ VP8 ++ EncContainer.le32 plen ++ [t0, t1, t2] ++ [0x9d, 0x01, 0x2a])
    (le16 (w + sx * 2 ^ 14)) _
    (by rw [hflat]; simp only [List.append_assoc] <;> rfl) (8 + 4 + 4 + 4 + 3 + 3) 2
    (by simp only [List.length_append, l1, l2, l4, EncContainer.le32_length, List.length_cons, List.length_nil]) rfl]
  simp only
  rw [read_at F (RIFF ++ EncContainer.le32 riffSize ++ WEBP ++ VP8 ++ EncContainer.le32 plen ++ [t0, t1, t2] ++ [0x9d, 0x01, 0x2a] ++
      le16 (w + sx * 2 ^ 14)) (le16 (h + sy * 2 ^ 14)) body
    (by rw [hflat]; simp only [List.append_assoc] <;> rfl) (8 + 4 + 4 + 4 + 3 + 3 + 2) 2
    (by simp only [List.length_append, l1, l2, l4, EncContainer.le32_length, List.length_cons, List.length_nil, le16]) rfl]
  simp only
  rw [le_le16 _ (by omega), le_le16 _ (by omega)]
  have g1 : (w + sx * 2 ^ 14) % 2 ^ 14 = w := by omega
  have g2 : (h + sy * 2 ^ 14) % 2 ^ 14 = h := by omega
  rw [g1, g2]
  have g3 : (decide (w = 0) || decide (h = 0)) = false := by simp; omega
  simp only [g3, Bool.false_eq_true, if_false]

end ScanProof
