import WebpVerif.Model.EncContainer
import WebpVerif.Spec.Riff

namespace EncContainer
open Riff

theorem le_le32 (n : Nat) (h : n < 2 ^ 32) : le (le32 n) = n := by
  unfold le le32; simp only [List.foldr]; omega

theorem le32_length (n : Nat) : (le32 n).length = 4 := rfl

/-- the bytes one `write_chunk` call produces -/
def chunkBytes (name data : List Nat) : List Nat := (writeChunk name data).flatten

theorem chunkBytes_eq (name data : List Nat) :
    chunkBytes name data = name ++ le32 (data.length % 2 ^ 32) ++ data ++ (if data.length % 2 = 1 then [0] else []) := by
  unfold chunkBytes writeChunk
  by_cases h : data.length % 2 = 1 <;> simp [h]

theorem chunkBytes_length (name data : List Nat) (hn : name.length = 4) (hd : data.length + 1 < 2 ^ 32) :
    (chunkBytes name data).length = chunkSize data.length := by
  rw [chunkBytes_eq]; unfold chunkSize
  by_cases h : data.length % 2 = 1
  · simp only [h, if_true, List.length_append, hn, le32_length, List.length_cons, List.length_nil]; omega
  · simp only [h, if_false, List.length_append, hn, le32_length, List.length_nil]; omega

/-- a well-formed chunk description: 4-byte name, payload below the 32-bit limit -/
def ChunkOk (c : List Nat × List Nat) : Prop := c.1.length = 4 ∧ c.2.length + 1 < 2 ^ 32

theorem parseChunks_succ (fuel : Nat) (b : Nat) (bs : List Nat) :
    parseChunks (fuel + 1) (b :: bs) =
      (if (b :: bs).length < 8 then none else
       if ((b :: bs).drop 8).length < le (((b :: bs).drop 4).take 4) + le (((b :: bs).drop 4).take 4) % 2 then none else
       if le (((b :: bs).drop 4).take 4) % 2 = 1 ∧ ((b :: bs).drop 8)[le (((b :: bs).drop 4).take 4)]? ≠ some 0 then none else
       match parseChunks fuel (((b :: bs).drop 8).drop (le (((b :: bs).drop 4).take 4) + le (((b :: bs).drop 4).take 4) % 2)) with
       | none => none
       | some rest => some (((b :: bs).take 4, ((b :: bs).drop 8).take (le (((b :: bs).drop 4).take 4))) :: rest)) := by
  rw [parseChunks]
  · rfl
  · intro h; cases h

/-- parse ∘ print for one chunk followed by anything -/
theorem parseChunks_chunk (fuel : Nat) (name data rest : List Nat) (hok : ChunkOk (name, data)) :
    parseChunks (fuel + 1) (chunkBytes name data ++ rest) =
      (parseChunks fuel rest).map (fun r => (name, data) :: r) := by
  obtain ⟨hn, hd⟩ := hok
  simp only at hn hd
  have hmod : data.length % 2 ^ 32 = data.length := Nat.mod_eq_of_lt (by omega)
  rw [chunkBytes_eq, hmod]
  generalize hpad : (if data.length % 2 = 1 then [0] else []) = pad
  have hpadlen : pad.length = data.length % 2 := by
    rw [← hpad]; by_cases h : data.length % 2 = 1
    · simp [h]
    · have : data.length % 2 = 0 := by omega
      simp [this]
  have hbytes : (name ++ le32 data.length ++ data ++ pad ++ rest) =
      name ++ (le32 data.length ++ (data ++ (pad ++ rest))) := by simp [List.append_assoc]
  rw [hbytes]
  have hne : name ++ (le32 data.length ++ (data ++ (pad ++ rest))) ≠ [] := by
    intro h; have := congrArg List.length h; simp [hn] at this
  obtain ⟨b, bs, hb⟩ : ∃ b bs, name ++ (le32 data.length ++ (data ++ (pad ++ rest))) = b :: bs := by
    cases hc : name ++ (le32 data.length ++ (data ++ (pad ++ rest))) with
    | nil => exact absurd hc hne
    | cons b bs => exact ⟨b, bs, rfl⟩
  rw [hb, parseChunks_succ, ← hb]
  · 
    have hlen : ¬ (name ++ (le32 data.length ++ (data ++ (pad ++ rest)))).length < 8 := by
      simp [hn, le32_length]; omega
    rw [if_neg hlen]
    have htake : (name ++ (le32 data.length ++ (data ++ (pad ++ rest)))).take 4 = name := by
      rw [List.take_append_of_le_length (by omega), List.take_of_length_le (by omega)]
    have hdrop4 : (name ++ (le32 data.length ++ (data ++ (pad ++ rest)))).drop 4 = le32 data.length ++ (data ++ (pad ++ rest)) := by
      rw [List.drop_append_of_le_length (by omega), List.drop_of_length_le (by omega)]; rfl
    have hsize : le ((le32 data.length ++ (data ++ (pad ++ rest))).take 4) = data.length := by
      rw [List.take_append_of_le_length (by simp [le32_length]), List.take_of_length_le (by simp [le32_length])]
      exact le_le32 _ (by omega)
    have hdrop8 : (name ++ (le32 data.length ++ (data ++ (pad ++ rest)))).drop 8 = data ++ (pad ++ rest) := by
      have : 8 = 4 + 4 := rfl
      rw [this, ← List.drop_drop, hdrop4, List.drop_append_of_le_length (by simp [le32_length]),
        List.drop_of_length_le (by simp [le32_length])]; rfl
    simp only [htake, hdrop4, hsize, hdrop8]
    have hbody : ¬ (data ++ (pad ++ rest)).length < data.length + data.length % 2 := by
      simp only [List.length_append, hpadlen]; omega
    rw [if_neg hbody]
    have hpadok : ¬ (data.length % 2 = 1 ∧ (data ++ (pad ++ rest))[data.length]? ≠ some 0) := by
      intro ⟨h1, h2⟩
      apply h2
      rw [List.getElem?_append_right (Nat.le_refl _), Nat.sub_self]
      rw [← hpad]; simp [h1]
    rw [if_neg hpadok]
    have hrest : (data ++ (pad ++ rest)).drop (data.length + data.length % 2) = rest := by
      rw [← hpadlen, ← List.drop_drop, List.drop_left, List.drop_left]
    have htk : (data ++ (pad ++ rest)).take data.length = data := List.take_left
    rw [hrest, htk]
    cases parseChunks fuel rest <;> rfl

/-- parse ∘ print for any list of well-formed chunks -/
theorem parseChunks_list (cs : List (List Nat × List Nat)) (hok : ∀ c ∈ cs, ChunkOk c) :
    ∀ fuel, cs.length ≤ fuel → parseChunks fuel (cs.flatMap fun c => chunkBytes c.1 c.2) = some cs := by
  induction cs with
  | nil => intro fuel _; cases fuel <;> simp [parseChunks]
  | cons c cs ih =>
    intro fuel hf
    match fuel with
    | 0 => simp at hf
    | fuel + 1 =>
      rw [List.flatMap_cons, parseChunks_chunk fuel c.1 c.2 _ (hok c (by simp)),
        ih (fun c' hc' => hok c' (by simp [hc'])) fuel (by simp at hf; omega)]
      rfl

end EncContainer
