use image_webp::*;
use std::io::Cursor;

fn chunk(name: &[u8;4], data: &[u8]) -> Vec<u8> {
    let mut v = name.to_vec();
    v.extend_from_slice(&(data.len() as u32).to_le_bytes());
    v.extend_from_slice(data);
    if data.len() % 2 == 1 { v.push(0); }
    v
}
fn riff(body: &[u8]) -> Vec<u8> {
    let mut v = b"RIFF".to_vec();
    v.extend_from_slice(&((body.len() + 4) as u32).to_le_bytes());
    v.extend_from_slice(b"WEBP");
    v.extend_from_slice(body);
    v
}
fn u24(x: u32) -> [u8;3] { [x as u8, (x>>8) as u8, (x>>16) as u8] }
// returns raw VP8L payload for an RGBA image
fn vp8l(data: &[u8], w: u32, h: u32) -> Vec<u8> {
    let mut out = Vec::new();
    WebPEncoder::new(&mut out).encode(data, w, h, ColorType::Rgba8).unwrap();
    // simple file: RIFF(12) + 'VP8L' + size
    let size = u32::from_le_bytes(out[16..20].try_into().unwrap()) as usize;
    out[20..20+size].to_vec()
}
fn vp8x(flags: u8, w: u32, h: u32) -> Vec<u8> {
    let mut d = vec![flags,0,0,0];
    d.extend_from_slice(&u24(w-1)); d.extend_from_slice(&u24(h-1));
    chunk(b"VP8X", &d)
}
fn anim(bg: [u8;4], loops: u16) -> Vec<u8> {
    let mut d = bg.to_vec(); d.extend_from_slice(&loops.to_le_bytes());
    chunk(b"ANIM", &d)
}
fn anmf(x: u32, y: u32, w: u32, h: u32, dur: u32, blend: bool, dispose: bool, payload: &[u8]) -> Vec<u8> {
    let mut d = Vec::new();
    d.extend_from_slice(&u24(x/2)); d.extend_from_slice(&u24(y/2));
    d.extend_from_slice(&u24(w-1)); d.extend_from_slice(&u24(h-1));
    d.extend_from_slice(&u24(dur));
    d.push((if blend {0} else {2}) | (if dispose {1} else {0}));
    d.extend_from_slice(payload);
    chunk(b"ANMF", &d)
}
fn solid(w: u32, h: u32, px: [u8;4]) -> Vec<u8> { (0..w*h).flat_map(|_| px).collect() }


fn lossy_vp8(rgb: &[u8], w: u32, h: u32, q: f32) -> Vec<u8> {
    unsafe {
        let mut out: *mut u8 = std::ptr::null_mut();
        let n = libwebp_sys::WebPEncodeRGB(rgb.as_ptr(), w as i32, h as i32, (w*3) as i32, q, &mut out);
        let v = std::slice::from_raw_parts(out, n).to_vec();
        libwebp_sys::WebPFree(out as *mut _);
        // simple file: RIFF hdr(12) + 'VP8 ' + size
        assert_eq!(&v[12..16], b"VP8 ");
        let size = u32::from_le_bytes(v[16..20].try_into().unwrap()) as usize;
        v[20..20+size].to_vec()
    }
}
fn webp_yuv(file: &[u8]) -> Option<(i32,i32,Vec<u8>,Vec<u8>,Vec<u8>)> {
    unsafe {
        let (mut w, mut h, mut stride, mut uvstride) = (0,0,0,0);
        let mut u: *mut u8 = std::ptr::null_mut(); let mut v: *mut u8 = std::ptr::null_mut();
        let y = libwebp_sys::WebPDecodeYUV(file.as_ptr(), file.len(), &mut w, &mut h, &mut u, &mut v, &mut stride, &mut uvstride);
        if y.is_null() { return None; }
        let cw = (w+1)/2; let ch = (h+1)/2;
        let mut yy = Vec::new(); let mut uu = Vec::new(); let mut vv = Vec::new();
        for r in 0..h { yy.extend_from_slice(std::slice::from_raw_parts(y.offset((r*stride) as isize), w as usize)); }
        for r in 0..ch { uu.extend_from_slice(std::slice::from_raw_parts(u.offset((r*uvstride) as isize), cw as usize));
                         vv.extend_from_slice(std::slice::from_raw_parts(v.offset((r*uvstride) as isize), cw as usize)); }
        libwebp_sys::WebPFree(y as *mut _);
        Some((w,h,yy,uu,vv))
    }
}
fn probes2() {
    // P3': reset with 3 frames
    {
        let f = |c: u8| chunk(b"VP8L", &vp8l(&solid(2,2,[c,c,c,255]), 2, 2));
        let mut body = vp8x(0x12, 4, 4);
        body.extend(anim([0,0,0,0], 0));
        body.extend(anmf(0,0,2,2,10,false,false,&f(1)));
        body.extend(anmf(2,0,2,2,10,false,false,&f(2)));
        body.extend(anmf(2,2,2,2,10,false,false,&f(3)));
        let file = riff(&body);
        let mut d = WebPDecoder::new(Cursor::new(file)).unwrap();
        let mut a = vec![0u8; d.output_buffer_size().unwrap()];
        d.read_frame(&mut a).unwrap();
        let mut b = a.clone();
        d.read_frame(&mut b).unwrap(); d.read_frame(&mut b).unwrap();
        d.reset_animation();
        let mut c = vec![0u8; a.len()];
        d.read_frame(&mut c).unwrap();
        println!("P3' reset(3 frames): first-pass frame0 == second-pass frame0 ? {}", a == c);
        // read_image in the middle
        let mut im = vec![0u8; a.len()];
        d.read_image(&mut im).unwrap();
        println!("P3' read_image == frame0 ? {}", im == a);
    }
    // P5: dispose of opaque lossy sub-frame
    {
        let rgb: Vec<u8> = (0..16*16).flat_map(|_| [200u8,100,50]).collect();
        let v0 = chunk(b"VP8 ", &lossy_vp8(&rgb, 16, 16, 90.0));
        let f1 = chunk(b"VP8L", &vp8l(&solid(2,2,[9,9,9,255]), 2, 2));
        let mut body = vp8x(0x12, 32, 32);
        body.extend(anim([0,0,0,0], 0));
        body.extend(anmf(8,8,16,16,10,false,true,&v0)); // opaque lossy, dispose
        body.extend(anmf(0,0,2,2,10,false,false,&f1));
        let file = riff(&body);
        let mut d = WebPDecoder::new(Cursor::new(file)).unwrap();
        let mut a = vec![0u8; d.output_buffer_size().unwrap()];
        d.read_frame(&mut a).unwrap();
        let r = std::panic::catch_unwind(std::panic::AssertUnwindSafe(|| { let mut d=d; let mut a2=a.clone(); d.read_frame(&mut a2).map(|_| a2) }));
        match r { Ok(Ok(a2)) => { let i=(10*32+10)*4; println!("P5 opaque-subframe dispose: px(10,10) {:?} expected [0,0,0,0]", &a2[i..i+4]); }
                  Ok(Err(e)) => println!("P5 err {e:?}"), Err(_) => println!("P5 PANIC") }
    }
    // P7: ALPH + VP8 in ANMF with mismatching VP8 size
    {
        let rgb: Vec<u8> = (0..16*16).flat_map(|_| [200u8,100,50]).collect();
        let v0 = chunk(b"VP8 ", &lossy_vp8(&rgb, 16, 16, 90.0));
        let mut alph = vec![0u8]; alph.extend(std::iter::repeat(255u8).take(8*8));
        let mut payload = chunk(b"ALPH", &alph); payload.extend(v0);
        let mut body = vp8x(0x12, 32, 32);
        body.extend(anim([0,0,0,0], 0));
        body.extend(anmf(0,0,8,8,10,false,false,&payload)); // header says 8x8, VP8 is 16x16
        let file = riff(&body);
        let r = std::panic::catch_unwind(|| {
            let mut d = WebPDecoder::new(Cursor::new(file)).unwrap();
            let mut a = vec![0u8; d.output_buffer_size().unwrap()];
            d.read_frame(&mut a).map(|_| ())
        });
        println!("P7 ALPH+VP8 size mismatch: {:?}", r.as_ref().map(|x| x.as_ref().map_err(|e| format!("{e:?}"))).map_err(|_| "PANIC"));
    }
    // P8: VP8 exactness vs libwebp on test images and sizes
    for path in ["/repo/tests/images/gallery1/1.webp","/repo/tests/images/gallery1/3.webp","/repo/tests/images/gallery2/1_webp_a.webp"] {
        let file = std::fs::read(path).unwrap();
        // find VP8 chunk
        let pos = file.windows(4).position(|w| w == b"VP8 ").unwrap();
        let size = u32::from_le_bytes(file[pos+4..pos+8].try_into().unwrap()) as usize;
        let payload = &file[pos+8..pos+8+size];
        let fr = image_webp::vp8::Vp8Decoder::decode_frame(Cursor::new(payload)).unwrap();
        let simple = riff(&chunk(b"VP8 ", payload));
        let (w,h,y,u,v) = webp_yuv(&simple).unwrap();
        let dy = fr.ybuf.iter().zip(&y).filter(|(a,b)| a!=b).count();
        let du = fr.ubuf.iter().zip(&u).filter(|(a,b)| a!=b).count();
        let dv = fr.vbuf.iter().zip(&v).filter(|(a,b)| a!=b).count();
        println!("P8 {path}: {w}x{h} ydiff {dy}/{} udiff {du}/{} vdiff {dv}/{}", y.len(), u.len(), v.len());
    }
    for (w,h,q) in [(16u32,16u32,75.0f32),(17,17,75.0),(33,20,30.0),(64,64,10.0),(5,3,50.0),(1,1,50.0),(40,40,95.0)] {
        let mut s = 12345u32;
        let rgb: Vec<u8> = (0..w*h*3).map(|i| { s = s.wrapping_mul(1664525).wrapping_add(1013904223); ((s>>24) as u8/4) + ((i/3 % w) * 200 / w) as u8 / 2 }).collect();
        let payload = lossy_vp8(&rgb, w, h, q);
        let fr = image_webp::vp8::Vp8Decoder::decode_frame(Cursor::new(&payload[..])).unwrap();
        let simple = riff(&chunk(b"VP8 ", &payload));
        let (_,_,y,u,v) = webp_yuv(&simple).unwrap();
        let dy = fr.ybuf.iter().zip(&y).filter(|(a,b)| a!=b).count();
        let du = fr.ubuf.iter().zip(&u).filter(|(a,b)| a!=b).count();
        let dv = fr.vbuf.iter().zip(&v).filter(|(a,b)| a!=b).count();
        println!("P8 synth {w}x{h} q{q}: ydiff {dy}/{} udiff {du}/{} vdiff {dv}/{}", y.len(), u.len(), v.len());
    }
}

fn probes3() {
    // D20: VP8X alpha flag + VP8 without ALPH
    let rgb: Vec<u8> = (0..16*16).flat_map(|_| [200u8,100,50]).collect();
    let v0 = chunk(b"VP8 ", &lossy_vp8(&rgb, 16, 16, 90.0));
    let mut body = vp8x(0x10, 16, 16);
    body.extend(v0.clone());
    let file = riff(&body);
    unsafe {
        let (mut w, mut h) = (0,0);
        let p = libwebp_sys::WebPDecodeRGBA(file.as_ptr(), file.len(), &mut w, &mut h);
        if p.is_null() { println!("D20 libwebp: reject"); } else { let px = std::slice::from_raw_parts(p, 4); println!("D20 libwebp: ok {w}x{h} px0 {:?}", px); libwebp_sys::WebPFree(p as *mut _); }
    }
    let mut d = WebPDecoder::new(Cursor::new(file)).unwrap();
    let mut a = vec![0u8; d.output_buffer_size().unwrap()];
    println!("D20 image-webp: has_alpha {} -> {:?}", d.has_alpha(), d.read_image(&mut a).map_err(|e| format!("{e:?}")));
    // D3: disposed frame followed by an opaque lossy sub-frame
    let f0 = chunk(b"VP8L", &vp8l(&solid(4,4,[9,9,9,255]), 4, 4));
    let mut body = vp8x(0x12, 32, 32);
    body.extend(anim([0,0,0,0], 0));
    body.extend(anmf(20,20,4,4,10,false,true,&f0)); // dispose
    body.extend(anmf(0,0,16,16,10,false,false,&v0)); // opaque lossy sub-frame
    let file = riff(&body);
    let mut d = WebPDecoder::new(Cursor::new(file)).unwrap();
    let mut a = vec![0u8; d.output_buffer_size().unwrap()];
    d.read_frame(&mut a).unwrap();
    let r = std::panic::catch_unwind(std::panic::AssertUnwindSafe(|| { let mut a2=a.clone(); d.read_frame(&mut a2).map(|_| a2) }));
    match r { Ok(Ok(a2)) => { let i=(21*32+21)*4; println!("D3: px(21,21) {:?} expected [0,0,0,0] (disposed)", &a2[i..i+4]); }
              Ok(Err(e)) => println!("D3 err {e:?}"), Err(_) => println!("D3 PANIC") }
}

fn probes4() {
    for name in ["r58_0","r58_1","r58_2","r58_3","r58_4","r58_5","r58_6","r58_7"] {
        let file = std::fs::read(format!("/tmp/probe/files/{name}.webp")).unwrap();
        let lw = unsafe {
            let (mut w, mut h) = (0,0);
            let p = libwebp_sys::WebPDecodeRGBA(file.as_ptr(), file.len(), &mut w, &mut h);
            if p.is_null() { None } else { let v = std::slice::from_raw_parts(p, (w*h*4) as usize).to_vec(); libwebp_sys::WebPFree(p as *mut _); Some(v) }
        };
        let f2 = file.clone();
        let r = std::panic::catch_unwind(move || {
            let mut d = WebPDecoder::new(Cursor::new(f2)).map_err(|e| format!("{e:?}"))?;
            let mut a = vec![0u8; d.output_buffer_size().unwrap()];
            d.read_image(&mut a).map_err(|e| format!("{e:?}"))?; Ok::<_,String>(a)
        });
        println!("{name}: libwebp {:?} | image-webp {:?}", lw.as_ref().map(|v| v.len()), r.map(|x| x.map(|v| v.len())).map_err(|_| "PANIC"));
    }
}

fn probes5() {
    let f0 = chunk(b"VP8L", &vp8l(&solid(1,1,[1,2,3,255]), 1, 1));
    let mut body = vp8x(0x02, 65536, 16384);
    body.extend(anim([0,0,0,0], 0));
    body.extend(anmf(0,0,1,1,10,false,false,&f0));
    let file = riff(&body);
    let r = std::panic::catch_unwind(|| {
        let mut d = WebPDecoder::new(Cursor::new(file)).unwrap();
        let n = d.output_buffer_size().unwrap();
        println!("F9 buffer size {n}");
        let mut a = vec![0u8; n];
        d.read_frame(&mut a).map(|_| ()).map_err(|e| format!("{e:?}"))
    });
    println!("F9 canvas overflow: {:?}", r.map_err(|_| "PANIC"));
}

fn main() {
    probes5(); return;
    probes4();
    probes3();
    probes2();
    // P1: opaque blend
    {
        let f0 = chunk(b"VP8L", &vp8l(&solid(4,4,[10,20,30,255]), 4, 4));
        let f1 = chunk(b"VP8L", &vp8l(&solid(2,2,[100,150,200,255]), 2, 2));
        let mut body = vp8x(0x12, 4, 4);
        body.extend(anim([0,0,0,0], 0));
        body.extend(anmf(0,0,4,4,10,false,false,&f0));
        body.extend(anmf(2,2,2,2,10,true,false,&f1));
        let file = riff(&body);
        let mut d = WebPDecoder::new(Cursor::new(file)).unwrap();
        let mut buf = vec![0u8; d.output_buffer_size().unwrap()];
        d.read_frame(&mut buf).unwrap();
        d.read_frame(&mut buf).unwrap();
        let i = (2*4+2)*4;
        println!("P1 opaque blend: got {:?} expected [100,150,200,255]", &buf[i..i+4]);
    }
    // P2: background colour order: ANIM bytes are B,G,R,A
    {
        let f0 = chunk(b"VP8L", &vp8l(&solid(2,2,[1,2,3,255]), 2, 2));
        let mut body = vp8x(0x12, 4, 4);
        body.extend(anim([11,22,33,44], 0)); // B=11 G=22 R=33 A=44
        body.extend(anmf(0,0,2,2,10,false,false,&f0));
        let file = riff(&body);
        let mut d = WebPDecoder::new(Cursor::new(file)).unwrap();
        let mut buf = vec![0u8; d.output_buffer_size().unwrap()];
        d.read_frame(&mut buf).unwrap();
        let i = (3*4+3)*4;
        println!("P2 background: got {:?} expected RGBA [33,22,11,44]", &buf[i..i+4]);
    }
    // P3: reset_animation with dirty canvas
    {
        let f0 = chunk(b"VP8L", &vp8l(&solid(2,2,[1,2,3,255]), 2, 2));
        let f1 = chunk(b"VP8L", &vp8l(&solid(2,2,[9,9,9,255]), 2, 2));
        let mut body = vp8x(0x12, 4, 4);
        body.extend(anim([0,0,0,0], 0));
        body.extend(anmf(0,0,2,2,10,false,false,&f0));
        body.extend(anmf(2,2,2,2,10,false,false,&f1));
        let file = riff(&body);
        let mut d = WebPDecoder::new(Cursor::new(file)).unwrap();
        let mut a = vec![0u8; d.output_buffer_size().unwrap()];
        d.read_frame(&mut a).unwrap();
        let mut b = a.clone();
        d.read_frame(&mut b).unwrap();
        d.reset_animation();
        let mut c = vec![0u8; a.len()];
        d.read_frame(&mut c).unwrap();
        println!("P3 reset: first-pass frame0 == second-pass frame0 ? {}", a == c);
        // NoMoreFrames leaves buffer
        d.read_frame(&mut c).unwrap();
        let mut z = vec![7u8; a.len()];
        let r = d.read_frame(&mut z);
        println!("P3 nomore: {:?} untouched={}", r.is_err(), z.iter().all(|&x| x==7));
    }
    // P4: 16384-wide VP8L
    {
        let w = 16384u32; let h = 1u32;
        let data = solid(w,h,[5,6,7,255]);
        let mut out = Vec::new();
        WebPEncoder::new(&mut out).encode(&data, w, h, ColorType::Rgba8).unwrap();
        match WebPDecoder::new(Cursor::new(out)) {
            Ok(d) => println!("P4 16384: dims {:?}", d.dimensions()),
            Err(e) => println!("P4 16384: err {e:?}"),
        }
    }
    // P5: dispose of opaque (no-alpha) sub-frame: use has_alpha canvas but lossy frame? need VP8 payload; skip here
    // P5b: full-size blended frame after disposed sub-frame clears whole canvas
    {
        let f0 = chunk(b"VP8L", &vp8l(&solid(4,4,[50,60,70,255]), 4, 4));
        let f1 = chunk(b"VP8L", &vp8l(&solid(2,2,[9,9,9,255]), 2, 2));
        let f2 = chunk(b"VP8L", &vp8l(&solid(4,4,[0,0,0,0]), 4, 4));
        let mut body = vp8x(0x12, 4, 4);
        body.extend(anim([0,0,0,0], 0));
        body.extend(anmf(0,0,4,4,10,false,false,&f0));
        body.extend(anmf(0,0,2,2,10,false,true,&f1)); // dispose this one
        body.extend(anmf(0,0,4,4,10,true,false,&f2)); // transparent full blend
        let file = riff(&body);
        let mut d = WebPDecoder::new(Cursor::new(file)).unwrap();
        let mut a = vec![0u8; d.output_buffer_size().unwrap()];
        d.read_frame(&mut a).unwrap(); d.read_frame(&mut a).unwrap(); d.read_frame(&mut a).unwrap();
        let i = (3*4+3)*4;
        println!("P5b whole-canvas clear: px(3,3) {:?} expected [50,60,70,255]; px(0,0) {:?} expected [0,0,0,0]", &a[i..i+4], &a[0..4]);
    }
}
