-- prototype: flat RGBA canvas, per-pixel reasoning
abbrev Px := Nat × Nat × Nat × Nat

def getPx (c : Array Nat) (i : Nat) : Px := (c[4*i]!, c[4*i+1]!, c[4*i+2]!, c[4*i+3]!)
def setPx (c : Array Nat) (i : Nat) (p : Px) : Array Nat :=
  (((c.setIfInBounds (4*i) p.1).setIfInBounds (4*i+1) p.2.1).setIfInBounds (4*i+2) p.2.2.1).setIfInBounds (4*i+3) p.2.2.2

theorem size_setPx (c : Array Nat) (i : Nat) (p : Px) : (setPx c i p).size = c.size := by
  simp [setPx]

theorem getElem!_sib (c : Array Nat) (i j v : Nat) (hi : i < c.size) :
    (c.setIfInBounds i v)[j]! = if i = j then v else c[j]! := by
  simp only [Array.getElem!_eq_getD, Array.getD_eq_getD_getElem?, Array.getElem?_setIfInBounds]
  by_cases h : i = j
  · subst h; simp [hi]
  · simp [h]

theorem getPx_setPx (c : Array Nat) (i j : Nat) (p : Px) (hi : 4*i+3 < c.size) :
    getPx (setPx c i p) j = if i = j then p else getPx c j := by
  obtain ⟨p0, p1, p2, p3⟩ := p
  unfold getPx setPx
  simp only [getElem!_sib, Array.size_setIfInBounds, show 4*i < c.size by omega, show 4*i+1 < c.size by omega,
    show 4*i+2 < c.size by omega, hi]
  by_cases h : i = j
  · subst h
    simp only [if_true]
    have e1 : ¬ (4*i+3 = 4*i) := by omega
    have e2 : ¬ (4*i+2 = 4*i) := by omega
    have e3 : ¬ (4*i+1 = 4*i) := by omega
    have e4 : ¬ (4*i+3 = 4*i+1) := by omega
    have e5 : ¬ (4*i+2 = 4*i+1) := by omega
    have e6 : ¬ (4*i+3 = 4*i+2) := by omega
    simp [e1,e2,e3,e4,e5,e6]
  · have a0 : ∀ a b : Nat, a < 4 → b < 4 → ¬ (4*i+a = 4*j+b) := by intro a b ha hb; omega
    have := a0 0 0; have := a0 1 0; have := a0 2 0; have := a0 3 0
    have := a0 0 1; have := a0 1 1; have := a0 2 1; have := a0 3 1
    have := a0 0 2; have := a0 1 2; have := a0 2 2; have := a0 3 2
    have := a0 0 3; have := a0 1 3; have := a0 2 3; have := a0 3 3
    simp_all

def fillRun (c : Array Nat) (base : Nat) : Nat → Px → Array Nat
  | 0, _ => c
  | n+1, p => fillRun (setPx c base p) (base+1) n p

theorem size_fillRun (c : Array Nat) (base n : Nat) (p : Px) : (fillRun c base n p).size = c.size := by
  induction n generalizing c base with
  | zero => rfl
  | succ n ih => simp [fillRun, ih, size_setPx]

theorem getPx_fillRun (c : Array Nat) (base n j : Nat) (p : Px) (h : 4*(base+n) ≤ c.size) :
    getPx (fillRun c base n p) j = if base ≤ j ∧ j < base + n then p else getPx c j := by
  induction n generalizing c base with
  | zero => simp only [fillRun]; split
            · omega
            · rfl
  | succ n ih =>
    simp only [fillRun]
    rw [ih]
    · rw [getPx_setPx _ _ _ _ (by omega)]
      by_cases h1 : base = j
      · subst h1; simp
      · simp only [h1, if_false]
        by_cases h2 : base + 1 ≤ j ∧ j < base + 1 + n
        · have : base ≤ j ∧ j < base + (n+1) := by omega
          simp [h2, this]
        · have : ¬ (base ≤ j ∧ j < base + (n+1)) := by omega
          simp [h2, this]
    · rw [size_setPx]; omega

-- 2D -> 1D: row membership
theorem row_mem (cw x y r px pw : Nat) (hx : x < cw) (hp : px + pw ≤ cw) :
    (r*cw + px ≤ y*cw + x ∧ y*cw + x < r*cw + px + pw) ↔ (y = r ∧ px ≤ x ∧ x < px + pw) := by
  constructor
  · intro ⟨h1, h2⟩
    have hy : y = r := by
      rcases Nat.lt_trichotomy y r with hlt | heq | hgt
      · have : (y+1)*cw ≤ r*cw := Nat.mul_le_mul_right cw hlt
        rw [Nat.add_mul, Nat.one_mul] at this
        omega
      · exact heq
      · have : (r+1)*cw ≤ y*cw := Nat.mul_le_mul_right cw hgt
        rw [Nat.add_mul, Nat.one_mul] at this
        omega
    subst hy; omega
  · rintro ⟨rfl, h1, h2⟩; omega
#print axioms getPx_fillRun
