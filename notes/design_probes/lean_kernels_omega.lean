-- calibrate omega on clip / shift / clamp kernels
def clipRust (v : Int) : Int := min (max (v >>> 6) 0) 255
def clipWebp (v : Int) : Int := if 0 ≤ v ∧ v < 16384 then v / 64 else if v < 0 then 0 else 255

theorem clip_eq (v : Int) : clipRust v = clipWebp v := by
  unfold clipRust clipWebp
  rw [Int.shiftRight_eq_div_pow]
  split <;> omega

def div255 (v : Nat) : Nat := (((v + 128) >>> 8) + v + 128) >>> 8
theorem div255_round (v : Nat) (h : v ≤ 65025) : div255 v = (2 * v + 255) / 510 := by
  unfold div255
  simp only [Nat.shiftRight_eq_div_pow]
  omega

-- loop filter common_adjust style
def c (v : Int) : Int := max (-128) (min v 127)
def u2s (v : Int) : Int := v - 128
def s2u (v : Int) : Int := c v + 128
theorem s2u_range (v : Int) : 0 ≤ s2u v ∧ s2u v ≤ 255 := by unfold s2u c; omega

-- flag vs bool(128)
theorem flag_split (r : Nat) (h : 1 ≤ r) : r - r / 2 = 1 + (((r - 1) * 128) >>> 8) := by
  simp only [Nat.shiftRight_eq_div_pow]; omega
#print axioms clip_eq
#print axioms div255_round
