use libwebp_sys::*;
use std::io::Cursor;

fn encode(rgb: &[u8], w: i32, h: i32, f: impl Fn(&mut WebPConfig)) -> Vec<u8> {
    unsafe {
        let mut cfg = WebPConfig::new().unwrap();
        f(&mut cfg);
        assert!(WebPValidateConfig(&cfg) != 0);
        let mut pic = WebPPicture::new().unwrap();
        pic.width = w; pic.height = h;
        assert!(WebPPictureImportRGB(&mut pic, rgb.as_ptr(), w*3) != 0);
        let mut wr: WebPMemoryWriter = std::mem::zeroed();
        WebPMemoryWriterInit(&mut wr);
        pic.writer = Some(WebPMemoryWrite);
        pic.custom_ptr = &mut wr as *mut _ as *mut _;
        assert!(WebPEncode(&cfg, &mut pic) != 0);
        let v = std::slice::from_raw_parts(wr.mem, wr.size).to_vec();
        WebPPictureFree(&mut pic); WebPMemoryWriterClear(&mut wr);
        v
    }
}
fn vp8_payload(file: &[u8]) -> Vec<u8> {
    let pos = file.windows(4).position(|w| w == b"VP8 ").unwrap();
    let size = u32::from_le_bytes(file[pos+4..pos+8].try_into().unwrap()) as usize;
    file[pos+8..pos+8+size].to_vec()
}
fn webp_yuv(file: &[u8]) -> (i32,i32,Vec<u8>,Vec<u8>,Vec<u8>) {
    unsafe {
        let (mut w, mut h, mut stride, mut uvstride) = (0,0,0,0);
        let mut u: *mut u8 = std::ptr::null_mut(); let mut v: *mut u8 = std::ptr::null_mut();
        let y = WebPDecodeYUV(file.as_ptr(), file.len(), &mut w, &mut h, &mut u, &mut v, &mut stride, &mut uvstride);
        assert!(!y.is_null());
        let cw = (w+1)/2; let ch = (h+1)/2;
        let mut yy = Vec::new(); let mut uu = Vec::new(); let mut vv = Vec::new();
        for r in 0..h { yy.extend_from_slice(std::slice::from_raw_parts(y.offset((r*stride) as isize), w as usize)); }
        for r in 0..ch { uu.extend_from_slice(std::slice::from_raw_parts(u.offset((r*uvstride) as isize), cw as usize));
                         vv.extend_from_slice(std::slice::from_raw_parts(v.offset((r*uvstride) as isize), cw as usize)); }
        WebPFree(y as *mut _);
        (w,h,yy,uu,vv)
    }
}
fn d(a:&[u8],b:&[u8])->usize{a.iter().zip(b).filter(|(x,y)|x!=y).count()}
fn gallery() {
    for dir in ["gallery1","gallery2","regression"] {
        let mut names: Vec<_> = std::fs::read_dir(format!("/repo/tests/images/{dir}")).unwrap().map(|e| e.unwrap().path()).collect();
        names.sort();
        for p in names {
            let file = std::fs::read(&p).unwrap();
            if !file.windows(4).any(|w| w == b"VP8 ") { continue; }
            let pl = vp8_payload(&file);
            let mut simple = b"RIFF".to_vec(); simple.extend_from_slice(&((pl.len()+12 + pl.len()%2) as u32).to_le_bytes()); simple.extend_from_slice(b"WEBPVP8 "); simple.extend_from_slice(&(pl.len() as u32).to_le_bytes()); simple.extend_from_slice(&pl); if pl.len()%2==1 {simple.push(0);}
            let (w,h,y,u,v) = webp_yuv(&simple);
            let a = orig::vp8::Vp8Decoder::decode_frame(Cursor::new(&pl[..])).unwrap();
            let b = image_webp::vp8::Vp8Decoder::decode_frame(Cursor::new(&pl[..])).unwrap();
            println!("{:40} {w}x{h} orig {}/{}/{} patched {}/{}/{}", p.file_name().unwrap().to_str().unwrap(), d(&a.ybuf,&y),d(&a.ubuf,&u),d(&a.vbuf,&v), d(&b.ybuf,&y),d(&b.ubuf,&u),d(&b.vbuf,&v));
        }
    }
}
fn main() {
    if std::env::args().nth(1).as_deref() == Some("gallery") { gallery(); return; }
    let mut s = 99u32;
    let mut rnd = move || { s = s.wrapping_mul(1664525).wrapping_add(1013904223); (s>>24) as u8 };
    let cfgs: Vec<(&str, Box<dyn Fn(&mut WebPConfig)>)> = vec![
        ("q10", Box::new(|c| c.quality=10.0)),
        ("q50", Box::new(|c| c.quality=50.0)),
        ("q90", Box::new(|c| c.quality=90.0)),
        ("q30 simple f80", Box::new(|c| {c.quality=30.0; c.filter_type=0; c.filter_strength=80;})),
        ("q30 strong f100 sharp5", Box::new(|c| {c.quality=30.0; c.filter_type=1; c.filter_strength=100; c.filter_sharpness=5;})),
        ("q30 f0", Box::new(|c| {c.quality=30.0; c.filter_strength=0;})),
        ("q20 seg1 part3 f10", Box::new(|c| {c.quality=20.0; c.segments=1; c.partitions=3; c.filter_strength=10;})),
        ("q5 m6 sns100", Box::new(|c| {c.quality=5.0; c.method=6; c.sns_strength=100;})),
    ];
    for (w,h) in [(64,64),(48,32),(33,20),(17,17),(16,3),(5,40)] {
        let rgb: Vec<u8> = (0..w*h).flat_map(|i| { let x=(i%w) as u32; let y=(i/w) as u32; let n=rnd()/3; [((x*7+y*3)%256) as u8 /2 + n, ((x*x+y)%256) as u8/2 + n, ((y*9)%256) as u8 /2 + n] }).collect();
        for (name, f) in &cfgs {
            let file = encode(&rgb, w as i32, h as i32, f);
            let pl = vp8_payload(&file);
            let (_,_,y,u,v) = webp_yuv(&file);
            let a = orig::vp8::Vp8Decoder::decode_frame(Cursor::new(&pl[..])).unwrap();
            let b = image_webp::vp8::Vp8Decoder::decode_frame(Cursor::new(&pl[..])).unwrap();
            println!("{w}x{h} {name:24} orig y/u/v {:4}/{:3}/{:3}   patched y/u/v {:4}/{:3}/{:3}", d(&a.ybuf,&y),d(&a.ubuf,&u),d(&a.vbuf,&v), d(&b.ybuf,&y),d(&b.ubuf,&u),d(&b.vbuf,&v));
        }
    }
}
