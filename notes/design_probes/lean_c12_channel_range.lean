import Mathlib.Tactic.IntervalCases
import Mathlib.Tactic.Linarith

namespace Blend
def div255 (v : Nat) : Nat := (((v + 128) >>> 8) + v + 128) >>> 8

/-- one channel, as in blend_channel_nonpremult, given alphas -/
def chan (s sa d da : Nat) : Nat :=
  let dfa := div255 (da * (255 - sa))
  let ba := sa + dfa
  let scale := 2^24 / ba
  ((s * sa + d * dfa) * scale) >>> 24

theorem div255_round (v : Nat) (h : v ≤ 65025) : div255 v = (2 * v + 255) / 510 := by
  unfold div255; simp only [Nat.shiftRight_eq_div_pow]; omega

theorem recip (b X : Nat) (hb : 1 ≤ b) (hb2 : b ≤ 255) (hX : X ≤ 255 * b) :
    X ≤ ((X * (2^24 / b)) / 2^24) * b + b + (b-1) ∧ ((X * (2^24 / b)) / 2^24) * b ≤ X := by
  interval_cases b <;> omega

theorem opaque_wrong : chan 100 255 7 9 = 99 := by decide
end Blend

namespace Blend
theorem chan_range (s sa d da : Nat) (hs : s < 256) (hsa : 1 ≤ sa) (hsa2 : sa < 256) (hd : d < 256) (hda : da < 256) :
    min s d ≤ chan s sa d da + 1 ∧ chan s sa d da ≤ max s d := by
  unfold chan
  simp only [Nat.shiftRight_eq_div_pow]
  generalize hdfa : div255 (da * (255 - sa)) = dfa
  have hv : da * (255 - sa) ≤ 65025 := by
    have : da * (255 - sa) ≤ 255 * 255 := Nat.mul_le_mul (by omega) (by omega)
    omega
  have hdfa2 : dfa ≤ 255 - sa := by
    rw [← hdfa, div255_round _ hv]
    have : da * (255 - sa) ≤ 255 * (255 - sa) := Nat.mul_le_mul (by omega) (le_refl _)
    omega
  set b := sa + dfa with hb
  set X := s * sa + d * dfa with hX
  have hb1 : 1 ≤ b := by omega
  have hb2 : b ≤ 255 := by omega
  have hXle : X ≤ max s d * b := by
    have h1 : s * sa ≤ max s d * sa := Nat.mul_le_mul (le_max_left _ _) (le_refl _)
    have h2 : d * dfa ≤ max s d * dfa := Nat.mul_le_mul (le_max_right _ _) (le_refl _)
    calc X = s * sa + d * dfa := rfl
      _ ≤ max s d * sa + max s d * dfa := by omega
      _ = max s d * b := by rw [hb, Nat.mul_add]
  have hXge : min s d * b ≤ X := by
    have h1 : min s d * sa ≤ s * sa := Nat.mul_le_mul (min_le_left _ _) (le_refl _)
    have h2 : min s d * dfa ≤ d * dfa := Nat.mul_le_mul (min_le_right _ _) (le_refl _)
    calc min s d * b = min s d * sa + min s d * dfa := by rw [hb, Nat.mul_add]
      _ ≤ X := by omega
  have hXb : X ≤ 255 * b := by
    have : max s d ≤ 255 := by omega
    calc X ≤ max s d * b := hXle
      _ ≤ 255 * b := Nat.mul_le_mul this (le_refl _)
  obtain ⟨h1, h2⟩ := recip b X hb1 hb2 hXb
  set r := X * (2 ^ 24 / b) / 2 ^ 24 with hr
  constructor
  · -- min*b ≤ X ≤ r*b + 2b - 1 < (r+2)*b
    by_contra hcon
    push Not at hcon
    have : (r + 2) * b ≤ min s d * b := Nat.mul_le_mul (by omega) (le_refl _)
    have : (r + 2) * b = r * b + 2 * b := by rw [Nat.add_mul]
    omega
  · by_contra hcon
    push Not at hcon
    have : (max s d + 1) * b ≤ r * b := Nat.mul_le_mul (by omega) (le_refl _)
    have : (max s d + 1) * b = max s d * b + b := by rw [Nat.add_mul, Nat.one_mul]
    omega
#print axioms chan_range
end Blend
