import Mathlib.Tactic.IntervalCases
import Mathlib.Tactic.Linarith

-- reciprocal-multiply lemma by finite case split on b then omega
theorem recip (b X : Nat) (hb : 1 ≤ b) (hb2 : b ≤ 12) (hX : X ≤ 255 * b) :
    X / b - 1 ≤ (X * (2^24 / b)) / 2^24 ∧ (X * (2^24 / b)) / 2^24 ≤ X / b := by
  interval_cases b <;> omega

def T1 : List (List Nat) := (List.range 100).map fun i => (List.range 11).map fun j => (i*7+j*3) % 256
def T2 : List (List Nat) := (List.range 100).map fun i => (List.range 11).map fun j => (i*7+j*3) % 256
theorem teq : T1 = T2 := by decide +kernel
