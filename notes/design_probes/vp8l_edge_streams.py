import struct
class BW:
    def __init__(s): s.bits=[]
    def w(s,v,n):
        for i in range(n): s.bits.append((v>>i)&1)
    def code(s,code,length):  # canonical code MSB-first
        for i in range(length-1,-1,-1): s.bits.append((code>>i)&1)
    def bytes(s):
        b=s.bits+[0]*((-len(s.bits))%8)
        return bytes(sum(b[i+j]<<j for j in range(8)) for i in range(0,len(b),8))
def canon(lengths):
    codes={}; code=0
    for l in range(1,16):
        for sym,L in enumerate(lengths):
            if L==l: codes[sym]=(code,l); code+=1
        code<<=1
    return codes
def header(bw,w,h):
    bw.w(0x2f,8); bw.w(w-1,14); bw.w(h-1,14); bw.w(1,1); bw.w(0,3)
def simple1(bw,sym):
    bw.w(1,1); bw.w(0,1)
    if sym<2: bw.w(0,1); bw.w(sym,1)
    else: bw.w(1,1); bw.w(sym,8)
def simple2(bw,a,b):
    bw.w(1,1); bw.w(1,1); bw.w(1,1); bw.w(a,8); bw.w(b,8)
def normal(bw,lengths):
    # code-length code: symbols 0..15 each length 4
    bw.w(0,1); bw.w(19-4,4)
    order=[17,18,0,1,2,3,4,5,16,6,7,8,9,10,11,12,13,14,15]
    for o in order: bw.w(4 if o<16 else 0,3)
    bw.w(0,1) # max_symbol = all
    for L in lengths: bw.code(L,4)
def wrap(payload):
    if len(payload)%2: pad=b'\0'
    else: pad=b''
    body=b'WEBP'+b'VP8L'+struct.pack('<I',len(payload))+payload+pad
    return b'RIFF'+struct.pack('<I',len(body))+body
# D12: descending simple code
bw=BW(); header(bw,2,1); bw.w(0,1); bw.w(0,1); bw.w(0,1)
simple2(bw,7,3); simple1(bw,0); simple1(bw,0); simple1(bw,255); simple1(bw,0)
bw.w(0,1); bw.w(1,1)
open('files/d12.webp','wb').write(wrap(bw.bytes()))
# D12b: two equal symbols
bw=BW(); header(bw,2,1); bw.w(0,1); bw.w(0,1); bw.w(0,1)
simple2(bw,9,9); simple1(bw,0); simple1(bw,0); simple1(bw,255); simple1(bw,0)
bw.w(0,1); bw.w(0,1)
open('files/d12b.webp','wb').write(wrap(bw.bytes()))
# D11: cache never-written slot. cache_bits=1
def h(argb,bits): return ((0x1e35a7bd*argb)&0xffffffff)>>(32-bits)
g=None
for cand in range(1,256):
    argb=(255<<24)|(cand<<8)
    if h(argb,1)==0: g=cand;break
print("green literal",g)
bw=BW(); header(bw,3,1); bw.w(0,1); bw.w(1,1); bw.w(1,4); bw.w(0,1)
lengths=[0]*282; lengths[g]=1; lengths[280]=2; lengths[281]=2
normal(bw,lengths); simple1(bw,0); simple1(bw,0); simple1(bw,255); simple1(bw,0)
c=canon(lengths)
bw.code(*c[g]); bw.code(*c[281]); bw.code(*c[280])
open('files/d11.webp','wb').write(wrap(bw.bytes()))
# D8: oversubscribed lengths that overflow u16: h1=3,h2..h14=1,h15=2
bw=BW(); header(bw,1,1); bw.w(0,1); bw.w(0,1); bw.w(0,1)
lengths=[0]*280; L=[1,1,1]+list(range(2,15))+[15,15]
for i,l in enumerate(L): lengths[i]=l
normal(bw,lengths); simple1(bw,0); simple1(bw,0); simple1(bw,255); simple1(bw,0)
bw.w(0,16)
open('files/d8.webp','wb').write(wrap(bw.bytes()))
