import sys
sys.path.insert(0,'.')
exec(open('mk.py').read().split("# D12:")[0])
W,H=512,1024
for j in range(8):
    bw=BW(); header(bw,W,H); bw.w(0,1); bw.w(0,1); bw.w(0,1)
    g=[0]*280
    g[0]=1
    for i in range(1,14): g[i]=i+1
    g[278]=15; g[279]=15
    normal(bw,g); simple1(bw,0); simple1(bw,0); simple1(bw,255)
    dl=[0]*40
    for i in range(0,14): dl[i]=i+1
    dl[36]=15; dl[37]=15
    normal(bw,dl)
    cg=canon(g); cd=canon(dl)
    K=262200+j
    for _ in range(K): bw.code(*cg[0])
    # backward ref: length prefix 23 (sym 279): extra 10 bits value e -> length=3072+e+1
    bw.code(*cg[279]); bw.w(5,10)       # length 3078
    bw.code(*cd[36]); bw.w(7,17)        # dist_code = 262144+7+1 -> dist = 262152-120=262032
    rest=W*H-K-3078
    for _ in range(rest): bw.code(*cg[0])
    open(f'files/r58_{j}.webp','wb').write(wrap(bw.bytes()))
