"""Per-property metadata used by bin/check for the evidence files."""

COMMON_TB = [
    "Lean 4.33.0 kernel (thorough tier: re-checked by leanchecker); axioms allowed: propext, Classical.choice, Quot.sound (audited with #print axioms on every property theorem on every run; no native_decide, no bv_decide, no sorry/admit, no own axioms)",
    "the hand-written Lean model is tied to /repo's current working tree by the correspondence run of this check (tie 2): vharness calls the real code in-process through cfg(image_webp_verif) hooks and the compiled model `drv` on the same cases; coverage of that run is what `evaluations/distinct_nontrivial/histogram` report",
    "rustc/LLVM, Lean's compiler and C toolchain for `drv` (executions of the model run compiled code; theorems are about the same definitions as seen by the kernel), the Python orchestrator bin/check, the Rust harness /verif/harness",
]

PROPS = {
    "C12": {
        "technique": "Lean 4 arithmetic proof (omega/interval_cases/linarith) for all pixel pairs + exhaustive 2^32 model-vs-code correspondence",
        "level_text": "Theorems for every source/destination pixel pair (no enumeration): transparent source exact, result alpha within 1, every channel within [min-1,max+1] and within 2 weighted code values of the exact 'over', no u32 overflow / debug_assert failure; the opaque clause is refuted for the code as written (kernel-checked witness, known finding KF-C12-opaque) and proved for the one-line repaired function. The model equals the real do_alpha_blending on all 2^32 channel tuples (enumerated completely on every run, both sides) plus random full pixels.",
        "level_note": "Trusted: Lean kernel + 3 standard axioms; the model-vs-code tie is exhaustive differential execution, not a translation; the exact-'over' specification is stated in cross-multiplied integers.",
        "design_ref": "DESIGN.md section 4, C12",
        "trusted_base": COMMON_TB + [
            "modelled, not verified: src/alpha_blending.rs (div_by_255, blend_channel_nonpremult, blend_pixel_nonpremult, do_alpha_blending) as Blend.* over Nat with explicit truncations; u32 overflow freedom and both debug_assert!s are theorems (C12.blend_no_overflow)",
            "specification: exact rational non-premultiplied 'over' in cross-multiplied integer form (A' = 255*sa + da*(255-sa), N' = 255*s*sa + d*da*(255-sa))",
        ],
        "assumptions": [
            "the call site in extended.rs passes frame/canvas pixels as (src, dst) in RGBA byte order (covered by C06's check, not here)",
            "known finding KF-C12-opaque: the opaque clause is false of the pinned code (C12.opaque_full_false) and cannot be repaired without invalidating the repository's own reference images; every other clause is proved for every source alpha including 255",
        ],
        "partial": ["opaque clause: C12.opaque_full is refuted for the code as it is; C12.blend_opaque_partial gives the exact deviation; C12.blend_opaque_fixed proves the clause for the repaired function"],
    },
    "C13": {
        "technique": "Lean 4 proof (omega kernels, list induction for rows/frames) + exhaustive 2^24 x positions x writers correspondence and libwebp sampler oracle",
        "level_text": "Theorems: the crate's colour kernel equals libwebp's VP8YUVToR/G/B for every (Y,U,V) (constants regenerated from libwebp's yuv.h, the crate's literals re-extracted from vp8.rs); fill_rgb_row/fill_rgba_row give every pixel x - first of pair, second of pair, odd tail - the kernel of luma x and chroma x/2, for rows of any length; the RGBA writer leaves alpha untouched; fill_rgb/fill_rgba use luma (x,y) and chroma (x/2,y/2) for every width/height. The model equals the real writers on all 2^24 triples x 3 positions x 2 writers (complete on every run) and the real writers equal libwebp's WebPSamplers on the same space.",
        "level_note": "Trusted: Lean kernel + standard axioms; reading of C `(v & ~YUV_MASK2) == 0` as 0 <= v <= YUV_MASK2; the tie to the Rust code is exhaustive differential execution; libwebp's sampler (possibly its SSE2 variant) is the executable reference.",
        "design_ref": "DESIGN.md section 4, C13",
        "trusted_base": COMMON_TB + [
            "modelled, not verified: vp8.rs mulhi, clip, Frame::fill_rgb_row, fill_rgba_row, fill_rgb, fill_rgba as Yuv.* over lists (domain: buffer length = bpp*width*height, plane sizes as Frame allocates them)",
            "specification: libwebp src/dsp/yuv.h (MultHi, VP8Clip8, VP8YUVToR/G/B) with constants regenerated from the header by tools/gen_tables.py; executable cross-check against libwebp's WebPSamplers[MODE_RGB/MODE_RGBA] on all 2^24 triples",
        ],
        "assumptions": [
            "plane and buffer lengths as produced by Vp8Decoder and checked by read_image (ybuf = w*h, chroma = ceil(w/2)*ceil(h/2), buf = bpp*w*h)",
        ],
    },
    "C15": {
        "technique": "Lean 4 refinement proof (crate decoder and RFC 6386 decoder are both finite-precision views of one ideal decoder; simulation over arbitrary request programs incl. exhaustion) + path-independence and invariant proofs + exhaustive short-string correspondence of the real code against the model and the RFC decoder",
        "level_text": "Theorem C15.refines_rfc (the property at full strength): for EVERY byte string whose first byte is not 0xFF and EVERY program of requests - booleans with any byte probability, flags, literals and optional signed values up to 8 bits, reads with any of the decoder's four trees under all their probability vectors - the model of the crate's decoder (4-byte chunk loads into a 64-bit register, speculative fast path with rollback, cold path, 0..3 trailing bytes, one tolerated pad byte, sticky end-of-data) returns exactly the RFC 6386 section 7.3 decoder's value after every request until the data is exhausted and reports exhaustion after exactly the request at which the RFC decoder's decisions first depend on more than one byte past the end. Proof: an ideal decoder (range, 8-bit integer part, stream position); the RFC state and the crate state each determine it (window lemmas over MSB-first bit strings, chunk/byte/pad loads, renormalisation = normShift shifts), simulation through every request kind, well-shaped trees decided for all 103 (tree, probability vector) pairs. Also: every public read equals the fallback path whether or not the speculative path commits; register invariant 128<=range<=255, -8<=bit_count<=31 (all shifts legal, debug_asserts hold); exhaustion sticky and side-effect free. The model is tied to the real decoder on every run: ALL byte strings of length 0..2 (thorough: 0..3) x 16 request programs and random longer strings, real code vs model vs RFC decoder.",
        "level_note": "Trusted: Lean kernel + standard axioms; transcription of RFC 6386 section 7.3 (text not available offline; cross-read against libwebp's bit_reader); the model-to-code tie is differential (exhaustive for short strings).",
        "design_ref": "DESIGN.md section 4, C15 and section 8.2",
        "trusted_base": COMMON_TB + [
            "modelled, not verified: vp8_arithmetic_decoder.rs (State, init, load_from_final_bytes, cold_read_bit/flag/literal/optional_signed/with_tree, FastDecoder::*, commit_if_valid, the five public read_* entry points, is_past_eof) as Arith.*; u64 truncation of `value <<= n` explicit",
            "specification: RFC 6386 section 7.3 boolean decoder transcribed as BoolDec.* with unbounded value register and zero bytes past the end; 'consumed more than one byte beyond the data' = some decision depended on byte index >= len+1",
        ],
        "assumptions": [
            "tree requests use the crate's own tree tables (regenerated from vp8.rs; their shape is a kernel-checked fact, C15.crate_trees_good); probabilities are bytes; literal widths <= 8 (the crate's u8 accumulator)",
            "first byte of the partition is not 0xFF: then the code value would not lie inside the range, a state no boolean encoder produces (hypothesis of C15.refines_rfc; compared by execution only as long as the 64-bit register does not overflow)",
        ],
    },
    "C06": {
        "technique": "Lean 4 per-pixel refinement proof (loop lemmas on the flat canvas, induction over the frame history) + hook-level and file-level correspondence + libwebp AnimDecoder oracle for the specification",
        "level_text": "Theorems for every canvas size, rectangle, flag combination and pixel content: composite_frame never indexes out of bounds and leaves in every pixel exactly the specification's step (previous rectangle, and only it, restored to the background when disposal was asked; then overwrite or per-pixel blend; alpha-less frames opaque); by induction over the history the k-th read_frame returns the canvas fold and that frame's duration; background read as B,G,R,A; transparent source pixels leave the canvas unchanged. The opaque-source clause is refuted for the code's blend (known finding, shared root cause with C12) and proved for the repaired blend. The model is tied to the code at two levels on every run: composite_frame through its hook (thousands of geometries x all flags) and whole generated files (VP8L, VP8, ALPH+VP8 frames) through read_frame; the specification is cross-checked against libwebp's WebPAnimDecoder.",
        "level_note": "Trusted: Lean kernel + standard axioms; frame payload decoding is outside this property's model (frame pixels are taken from the crate's own standalone decode: C01/C02/C05); libwebp ignores the ANIM background colour, so that clause rests on the container specification text.",
        "design_ref": "DESIGN.md section 4, C06",
        "trusted_base": COMMON_TB + [
            "modelled, not verified: extended.rs composite_frame (pixel-indexed canvas; every access of the code is a whole RGBA pixel), decoder.rs read_frame from the point where the frame is decoded (geometry checks, clear colour, canvas initialisation, state update, copy-out), ANIM background bytes",
            "specification: Canvas.canvasPx / frameBuf — per-pixel fold transcribed from the container specification ('Assembling the canvas'); validated against libwebp's WebPAnimDecoder on binary-alpha, transparent-background animations",
        ],
        "assumptions": [
            "frames decode successfully and to the pixels the crate's standalone decoding gives (that is C01/C02/C05)",
            "known finding KF-C06-opaque-blend: blended opaque pixels lose one code value per channel (root cause KF-C12-opaque); attributed only to cases where the implementation equals the model and the model differs from the specification through the blend function alone",
        ],
        "partial": ["opaque clause: C06.opaque_replaces_full refuted for the code's blend (C06.opaque_replaces_false); holds for the repaired blend (C06.opaque_replaces_fixed)"],
    },
    "C07": {
        "technique": "Lean 4 trace refinement (induction over arbitrary call sequences with a state invariant) + exhaustive short call sequences and random long ones against the real decoder",
        "level_text": "Theorem C07.trace_refines: for every valid animation and EVERY finite sequence over {read_frame, reset_animation, read_image}, the decoder model returns exactly what an abstract player with a single cursor returns (frame under the cursor = canvas fold of C06; reset puts the cursor at 0; read_image returns frame 1 and keeps the cursor; NoMoreFrames at the end until reset). Corollaries: frames after a reset equal a fresh decoder's whatever came before. The model is tied to the real decoder on every run by all call sequences up to length 5/6 on three animations plus random sequences up to length 14 on hundreds more, comparing every return value and buffer and checking NoMoreFrames leaves the buffer untouched.",
        "level_note": "Trusted: as C06. Error paths of read_frame (corrupt frames inside an otherwise playable animation) are not in this model; they are exercised under C03.",
        "design_ref": "DESIGN.md section 4, C07",
        "trusted_base": COMMON_TB + [
            "modelled, not verified: decoder.rs AnimationState, read_frame (as in C06), reset_animation, the animated branch of read_image (mem::take / restore)",
            "specification: Canvas.runSpec — a cursor over the frame list",
        ],
        "assumptions": ["valid animations whose frames decode (see C06)"],
    },
    "C09": {
        "technique": "Lean 4 parse-after-print proof (list induction over the chunk sequence) + byte-exact correspondence with the real encoder, crate decoder and libwebp demuxer read-back",
        "level_text": "Theorem C09.demux_encode: for every VP8L payload, every ICC/EXIF/XMP payload (empty = not supplied), every size and colour kind with the file below 4 GiB, the encoder's container output has RIFF size = length - 8 and demultiplexes (container grammar Riff.demux) to exactly [VP8X, ICCP?, VP8L, EXIF?, XMP?] with each payload byte for byte; flags bits 2/3/4/5 <=> XMP/EXIF/alpha colour/ICC and nothing else; canvas = image size; every chunk even-padded. The model's bytes and its sequence of write_all calls equal the real WebPEncoder::encode's on every run over all 8 metadata subsets x payload lengths incl. odd x 4 colour types x predictor on/off; the real output is read back through this crate's decoder and libwebp's WebPDemux, and encoded twice for determinism.",
        "level_note": "Trusted: Lean kernel + standard axioms; the VP8L payload itself is C04's subject; std Write::write_all contract (appends all bytes or fails).",
        "design_ref": "DESIGN.md section 4, C09",
        "trusted_base": COMMON_TB + [
            "modelled, not verified: encoder.rs chunk_size, write_chunk, the container part of WebPEncoder::encode (as the list of write_all arguments)",
            "specification: Riff.demux - the RIFF/WebP chunk grammar of the container specification as a total demultiplexer; libwebp's WebPDemux as executable cross-check",
        ],
        "assumptions": ["total file size below 2^32 (the format's limit; the encoder's u32 size arithmetic would overflow beyond it)", "an empty metadata vector means 'not supplied' (the encoder's documented is_empty test)"],
    },
    "C08": {
        "technique": "Lean 4 parse-after-print proofs (scan loop by induction over arbitrary chunk sequences; whole-file theorem for extended stills; metadata accessors exact) + field-level theorems for every field value + generated-layout correspondence against the model, the layout-defined values and libwebp's demuxer",
        "level_text": "Theorems: (scan_full) the VP8X scan loop over ANY sequence of well-formed non-ANMF chunks - known ones in any order and multiplicity, unknown ones anywhere, odd sizes padded - ends without error and registers for every known fourcc the payload range of its FIRST occurrence; (open_extended_still) WebPDecoder::new on RIFF header + VP8X (any flags byte without the animation bit, any reserved bytes, any canvas up to 2^24 per side with fewer than 2^32 pixels) + any such chunk sequence that contains what the flags promise and exactly one kind of image chunk succeeds and reports canvas width/height, alpha flag, lossy-ness, not animated, loop count 1 and those ranges; (metadata_exact) icc/exif/xmp accessors then return exactly the payload bytes of the first chunk of that name, MemoryLimitExceeded iff it exceeds the limit (before any read), None iff absent. For EVERY field value: VP8L 14-bit sizes 1..16384 (maximum included), alpha bit, version; VP8 14-bit sizes under any scale bits; 24-bit canvas sizes; all 256 VP8X flag bytes; 24-bit durations under any flags byte; even rounding; first-binding rule; output_buffer_size formula. Animated files (ANMF accounting, ANIM fields, first-frame sub-chunks) and the simple-file headers are modelled and covered by execution: thousands of generated layouts per run (all four container kinds, all flag combinations, extreme sizes, unknown chunks anywhere, odd padding, metadata at any position, limits around the chunk sizes) opened with the real decoder and every accessor compared with the layout-defined value, with Container.openFile and with libwebp's WebPDemux.",
        "level_note": "Trusted: Lean kernel + standard axioms; Cursor/BufRead/Seek contracts as modelled (read_exact succeeds iff enough bytes; negative relative seek is an error); HashMap as first-binding association list.",
        "design_ref": "DESIGN.md section 4, C08 and section 8.2",
        "trusted_base": COMMON_TB + [
            "modelled, not verified: decoder.rs read_chunk_header, read_data (three first-chunk kinds, VP8X scan loop incl. ANMF accounting, missing-chunk predicate, ANIM parse, first-frame sub-chunk registration), read_chunk, accessors, output_buffer_size; extended.rs read_extended_header, read_3_bytes; HashMap as first-binding association list",
            "specification: the container layout by construction (ScanProof.extendedFile / layout / firstRange: the bytes a file with those chunks consists of, and where each payload lies); libwebp WebPDemux on the files it accepts",
        ],
        "assumptions": ["well-formed files: RIFF size = length - 8 < 2^32, 4-byte chunk names, chunks inside the file (malformed files are C03's subject)", "the whole-file theorem covers extended stills; animated files and the two simple layouts are covered by the field theorems plus the correspondence run"],
        "partial": ["no whole-file theorem yet for animated files (ANMF frame accounting, loop duration sum, first-frame sub-chunks): modelled and compared by execution"],
    },
    "C14": {
        "technique": "Lean 4 structural proofs (Kraft equality of any binary tree, limiting-loop step) + exhaustive small alphabets and adversarial families against a model that reproduces std's heap tie-breaking",
        "level_text": "Theorems: histograms with fewer than two used symbols are signalled, others are not; the leaf depths of ANY binary tree satisfy the Kraft equality (so the unlimited code is complete whatever the heap's tie-breaking) and are >= 1; each move of the limiting loop lowers the scaled Kraft sum by exactly one. The composed statement for the final output (lengths in 1..limit, unused 0, Kraft equality, canonical bit-reversed code words; C14.full) is stated and in this pass is established by execution: on every run ALL frequency vectors over 2..5 symbols (frequencies 0..4/5, limits 2..4) and adversarial families on the three real alphabets (Fibonacci to depth 43, geometric, dominant, ties, Zipf, sparse, near-u32) are pushed through the real build_huffman_tree, compared with the Lean model (which transcribes std's BinaryHeap so ties agree; sort_unstable's tie order handled by a decidable admissibility predicate), and the property's clauses are evaluated on the real output, including decoding every code word with the crate's own decoder.",
        "level_note": "Trusted: Lean kernel + standard axioms; std BinaryHeap behaviour is transcribed (tie-breaking validated by the correspondence, not assumed by the Kraft theorem); composition C14.full not yet a theorem.",
        "design_ref": "DESIGN.md section 4, C14",
        "trusted_base": COMMON_TB + [
            "modelled, not verified: encoder.rs build_huffman_tree (all four phases; heap with element swaps instead of std's Hole; items carry subtrees instead of node indices)",
            "specification: Prefix.kraft / canonicalCode / reverseBits - canonical code assignment of the lossless specification (RFC 1951 style next_code)",
        ],
        "assumptions": ["number of used symbols <= 2^limit (true for the alphabets the encoder uses: 16 <= 2^7, 256/280 <= 2^15)", "frequency total below 2^32 (pixel counts are at most 2^28)"],
        "partial": ["C14.full (final lengths/codes satisfy every clause for every histogram) stated, not yet proved as one theorem; proved so far: tree_kraft, tree_lengths_pos, limit_move, lt2_signalled, ge2_not_single"],
    },
    "C05": {
        "technique": "Lean 4 raster-order induction (alpha reconstruction = container-spec rule for all sizes/filters/deltas), composition with C13's frame theorem; hook- and file-level correspondence with libwebp as oracle",
        "level_text": "Theorems: for every width, height, filter (all four) and delta plane the decoder's sequential in-place loop over the interleaved RGBA buffer leaves exactly the container specification's reconstruction in the alpha bytes (C05.alpha_plane_eq) and touches no colour byte; the ALPH info byte is decoded correctly for all 256 values; composed with C13: every pixel of a lossy still with alpha holds libwebp's BT.601 conversion of luma (x,y)/chroma (x/2,y/2) of the reconstructed planes and the specified alpha (C05.still_rgba), for every size parity. Tied to the code on every run through get_alpha_predictor and read_alpha_chunk hooks (all filters, 1-pixel rows/columns, raw and VP8L-compressed bodies, all info bytes) and through whole VP8X+ALPH+VP8 files whose alpha is compared with the encoded plane and with libwebp, and whose colour bytes are compared with libwebp's sampler applied to the crate's own planes.",
        "level_note": "Trusted: Lean kernel + standard axioms; the VP8 planes and the VP8L-compressed alpha payload are decoded by code that is C02's / C01's subject (this property takes the reconstructed planes as given, as its statement does); transcription of the container specification's ALPH rules.",
        "design_ref": "DESIGN.md section 4, C05",
        "trusted_base": COMMON_TB + [
            "modelled, not verified: extended.rs get_alpha_predictor and the info-byte part of read_alpha_chunk; the alpha loops of decoder.rs read_image/read_frame; vp8.rs fill_rgba (via C13's model)",
            "specification: AlphaSpec.reconstruct (container specification, ALPH filtering methods with the stated edge rules); libwebp (WebPDecode without fancy upsampling, WebPSamplers) as executable reference",
        ],
        "assumptions": ["plane sizes as the decoders produce them; delta plane of width*height bytes (read_alpha_chunk reads exactly that many or fails)"],
    },
    "C11": {
        "technique": "Lean 4 proofs on the read_image dispatch model (composition of C13/C05 pixel theorems) + wrappings x alpha flag x poison fills x wrong lengths x double-read correspondence",
        "level_text": "Theorems for every still, wrapping, buffer length and buffer content: the size formula; every other length is rejected before anything is written; lossless paths do not depend on the old buffer contents and RGB = RGBA without alpha; simple = extended wrapping; on the lossy paths pixel (x,y) carries the same three colour bytes (C13's kernel) in the RGB and RGBA outputs whatever both buffers held, and a set alpha flag without ALPH chunk gives alpha 255 everywhere. The in-place VP8L decoder's byte-level independence of the old buffer contents is C01's model and, in this pass, is covered by execution: every generated payload (VP8L alpha bit 0/1, VP8, ALPH+VP8 x 4 filters) is read in 5 wrappings under two buffer poisons, three wrong lengths and twice in a row, all results compared with each other and with the model.",
        "level_note": "Trusted: Lean kernel + standard axioms; payload decoders at their contracts (C01/C02/C05); the animated wrapping uses C06's model.",
        "design_ref": "DESIGN.md section 4, C11",
        "trusted_base": COMMON_TB + [
            "modelled, not verified: decoder.rs read_image (buffer-length test, VP8L path with scratch Vec and alpha drop, VP8 path with fill_rgb / fill_rgba + alpha loop / opaque fill, animated branch through Anim.readFrame), output_buffer_size",
            "specification: the property's own clauses (cross-wrapping equalities, determinism, rejection)",
        ],
        "assumptions": ["the animated wrapping is a single full-canvas frame with the no-blend flag (a blended frame is composited over the background colour and legitimately differs)"],
        "partial": ["byte-level init-independence of LosslessDecoder::decode_frame (in-place) is not yet a theorem; exercised with poisoned buffers on every run"],
    },
    "C10": {
        "technique": "Lean 4 invariant proof (bit reservoir holds a valid stream window under every refill schedule) + schedule/fault enumeration on the real decoder and encoder",
        "level_text": "Theorem C10.schedule_independent: for every byte string, every pair of fill_buf schedules (any non-empty exposure sizes, constant or varying) and every script of read_bits / fill / peek+consume requests, the lossless bit reader returns the same values and fails at the same request; both refill paths (8-byte look-ahead with `nbits |= 56`, byte at a time) reach the same position and bit count and the reservoir always holds exact stream bits (stale look-ahead bits are real upcoming bits). Encoder: the bytes delivered are the concatenation of the write_all arguments and a failing call fails the encode (model of the `?` chain). The runtime half of the property is decided by enumeration, not proof, on every run: the real bit reader under nine schedules against the model; every corpus file (all container kinds) fully read over a chunking BufRead+Seek under nine schedules (identical results); ONE fault injected at EVERY I/O call index (15k positions quick) - the call in progress must return Err, no panic, no Ok, earlier calls unaffected; encoder sinks failing at every write index and sinks accepting 1,2,3,7 bytes per write.",
        "level_note": "Trusted: Lean kernel + standard axioms; a conforming BufRead (fill_buf non-empty unless at end); std's read_exact/Take/Seek/Cursor/write_all contracts and the presence of `?` at every I/O call are exercised, not proved.",
        "design_ref": "DESIGN.md section 4, C10",
        "trusted_base": COMMON_TB + [
            "modelled, not verified: lossless.rs BitReader (fill with both paths, peek, peek_full, consume, read_bits); encoder write sequence (EncContainer.encodeWrites) against a failing sink",
            "specification: the property itself (equality across schedules; fault => Err)",
        ],
        "assumptions": ["fill_buf exposes a non-empty prefix of the remaining bytes unless at end of input", "single injected fault per run (the property's quantifier)"],
        "partial": ["whole-decoder schedule independence and fault propagation are enumerated on a corpus, not proved (they depend on std I/O adaptors and on every `?` in the Rust code)"],
    },
    "C03": {
        "technique": "Lean 4 invariant/no-overflow theorems for the modelled components (collected from C06/C10/C12/C15 + new bounds) + structured corruption stream against a checked build with time budget; container-parser outcome correspondence on arbitrary bytes",
        "level_text": "Partial by construction and said so. Theorems (all inputs): blending never overflows u32 and its debug_asserts hold; every boolean-decoder read re-establishes the register invariant (shift amounts 0..31, range 128..255), exhaustion is sticky; the lossless bit reader keeps nbits <= 63 and a valid window under every schedule; read_frame's geometry checks imply composite_frame never indexes out of bounds, for every canvas/frame/flag combination; the canvas size fits usize; the prefix-code counter of build_implicit stays below 2^32 for any length vector over any alphabet the format allows; a chunk-header read consumes exactly 8 bytes (scan loop progress). Not theorems, monitored on every run: VP8 reconstruction, lossless transforms and decode_image_data indices, allocation, wall time - by a corruption stream (every prefix, every size field x 13 boundary values, every fourcc x 8 replacements, 28 bytes after each chunk header x 5 values, random flips, chunk deletion/duplication, crafted cross-field disagreements incl. ANMF-vs-VP8 sizes, over-subscribed code lengths, 2^30-pixel canvases in the thorough tier) driven through the whole public API under catch_unwind in a build with overflow checks and debug assertions, with a time budget proportional to input size + declared pixels. The container parser's outcome on every corrupted file up to 4 KiB is also compared with the total Lean function Container.openFile.",
        "level_note": "Trusted: Lean kernel + standard axioms for the theorem part; for the monitored part the assurance is that of structured fault enumeration, not proof. Aborts (allocation failure) cannot be caught in-process: a crashing harness is reported as a violation without input.",
        "design_ref": "DESIGN.md section 4, C03",
        "trusted_base": COMMON_TB + [
            "modelled, not verified: as in C06, C08, C10, C12, C15 (the models are total; failure values are explicit)",
            "specification: the property itself (Ok or DecodingError; bounded time)",
        ],
        "assumptions": ["64-bit usize", "output buffers above 64 MiB are not allocated in the quick tier (5 GiB in the thorough tier), so reads of such files are skipped there"],
        "partial": ["no-panic theorems exist only for the modelled components; VP8 reconstruction, lossless transforms and decode_image_data are covered by the corruption stream only"],
    },
    "C01": {
        "technique": "Lean 4 executable specification decoder + component equality theorems (tables, LZ77 arithmetic, distance map, cache hash, predictor/colour kernels, bit-reader window) + three-way correspondence: real decoder vs specification vs libwebp on generated valid streams and on each inverse transform",
        "level_text": "Theorems for all arguments: the crate's distance map equals libwebp's kCodeToPlane decoding and the clamped distance computation equals the specification's for every width and code; LZ77 prefix values equal the specification's for every symbol and extra-bit value; both copies of the code-length order equal libwebp's; the colour-cache hash is the specification's; the predictor kernels (average, Select decision, ClampAddSubtractFull/Half with truncating division) and the colour-transform delta (wrapping u32 arithmetic vs signed arithmetic shift) agree with the specification for all byte values; the bit reader returns exactly the stream's bits under every refill schedule (C10). The whole-stream refinement is not yet a theorem (no Lean model of decode_image_data/HuffmanTree yet); it is established by execution on every run: streams from this crate's encoder, from libwebp's lossless encoder under 7 methods x 4 qualities on image families that trigger every transform, all palette packing widths, colour cache and meta prefix codes, and hand-built streams (simple codes in every order and role, cache hits on never-written slots, 57/58-bit symbol groups at all 8 alignments) are decoded by the real decoder (poisoned buffer), by the Lean specification decoder VP8L.decode and by libwebp and must agree; each inverse transform is also compared with the specification's through its hook for all 14 modes.",
        "level_note": "Trusted: Lean kernel + standard axioms for the component theorems; the specification decoder is a transcription of the lossless specification text (offline copy) validated against libwebp on every generated stream (disagreements are reported separately as specification-vs-reference); where the text is silent it follows libwebp (marked (*) in Spec/Lossless.lean).",
        "design_ref": "DESIGN.md section 4, C01",
        "trusted_base": COMMON_TB + [
            "modelled, not verified: lossless.rs get_copy_distance, plane_code_to_distance, ColorCache::insert, BitReader; lossless_transform.rs average2, clamp_add_subtract_full/half, the Select decision of predictor 11, color_transform_delta; the decode loop, HuffmanTree and the transform drivers are NOT modelled yet (correspondence only)",
            "specification: VP8L.decode (Spec/Lossless.lean) - executable transcription of the WebP lossless bitstream specification; libwebp WebPDecodeRGBA as executable reference",
        ],
        "assumptions": ["spec-valid = accepted by the specification decoder / libwebp; predictor modes 14 and 15 are outside the specification (the code leaves such blocks unpredicted, libwebp predicts opaque black): recorded, not claimed"],
        "partial": ["whole-stream refinement (decode_image_data, HuffmanTree two-level tables, chunked overlapping copies, transform drivers) is validated by the three-way correspondence, not proved"],
    },
    "C02": {
        "technique": "Lean 4 kernel/parameter theorems (loop-filter kernels = RFC 6386 section 15 reference code for all inputs; filter parameters = RFC rule for all headers; all constant tables and quantiser rules = reference decoder's) + whole-frame correspondence with libwebp on encoder-made and synthetic random-symbol key frames",
        "level_text": "Theorems for ALL arguments: simple_segment / subblock_filter / macroblock_filter equal the RFC 6386 section 15 reference code (written on signed int8 values with sign-propagating shifts) on every 8-pixel segment and every (hev threshold, interior limit, edge limit), and always produce bytes; the per-macroblock filter level / interior limit / hev threshold equal the RFC reference decoder's computation for every frame level, sharpness, segment mode and value, reference and mode delta, they stay in 0..63 / 1..63 / 0..2 and both edge limits fit the u8 arithmetic of loop_filter; they equal libwebp's whenever the segment-adjusted level is inside 0..63 (outside, the RFC's clamp order - which the code follows - is normative); coefficient probability tables, update probabilities, quantiser tables, zigzag, bands, category probabilities and bases and the IDCT constants equal libwebp's (both regenerated from source on every run); `ac*155/100` floored at 8 and the 132 cap equal the reference `(ac*101581)>>16` and index clip 117 for all 128 indices. The whole-frame statement (parse, token decode, dequantise, prediction, IDCT/WHT, filter order, plane sizes) is NOT a theorem; it is decided by execution on every run: (a) idct4x4, iwht4x4, the three filter kernels and calculate_filter_parameters through hooks against the Lean model (the full level x sharpness x B_PRED grid, boundary deltas); (b) key frames encoded by libwebp over every size residue mod 16, qualities, filter strengths/sharpness/type, segments, partitions; (c) synthetic key frames whose partitions are random byte strings (every byte string is a valid boolean-coded partition), half of them with generator-chosen header fields at boundary values written by an RFC boolean encoder: random segment maps/modes/values, loop-filter deltas, levels incl. 0 and 63, quantiser indices and deltas, 1/2/4/8 partitions, probability updates, skip flags, all intra modes incl. every sub-block mode, arbitrary coefficient patterns; Y, U, V planes compared with libwebp's WebPDecodeYUV sample for sample, sizes w x h and ceil(w/2) x ceil(h/2).",
        "level_note": "Trusted: Lean kernel + standard axioms for the kernel/parameter/table theorems; transcription of the RFC's reference code (Spec/LoopFilter.lean); libwebp as the executable RFC 6386 reference for whole frames. Frames whose dequantised coefficients exceed 16 bits (undefined in every reference decoder) and frames where RFC and libwebp differ in the level clamp order are decoded but not compared (counted in the histogram).",
        "design_ref": "DESIGN.md section 4, C02",
        "trusted_base": COMMON_TB + [
            "modelled, not verified: transform.rs idct4x4, iwht4x4; loop_filter.rs simple_segment, subblock_filter, macroblock_filter and helpers; vp8.rs calculate_filter_parameters and the two edge-limit expressions of loop_filter; the constant tables of vp8.rs (regenerated). NOT modelled (correspondence with libwebp only): frame/macroblock header parsing, token decoding and dequantisation, intra prediction, the order in which loop_filter visits edges, plane cropping",
            "specification: RFC.LF (Spec/LoopFilter.lean) - RFC 6386 section 15 reference code and sections 9.6/15.1 parameter rules; libwebp (WebPDecodeYUV, PrecomputeFilterStrengths, quant_dec.c, tree_dec.c tables) as executable reference",
        ],
        "assumptions": [
            "valid stream = no partition is read past its end, colour-space and clamping bits 0, every dequantised coefficient fits 16 bits (the reference decoders store them in int16)",
            "where RFC 6386's reference decoder and libwebp disagree (level clamped before vs after adding the deltas) the RFC is taken as normative",
        ],
        "partial": ["whole-frame bit-exactness is established by execution against libwebp, not proved: there is no Lean model of the VP8 parse / prediction / reconstruction pipeline; the theorems cover the arithmetic kernels, parameters and tables"],
    },
    "C04": {
        "technique": "Lean 4 stage-inverse theorems on a complete byte-exact model of encode_frame + round trip through three decoders (Lean specification decoder, this crate, libwebp) on generated images",
        "level_text": "Theorems for all inputs: dimensions 0 / above 16384 are rejected and nothing else is; subtract-green and the encoder's predictor scheme are undone per channel by the specification's inverses; run tokenisation is lossless for every pixel sequence and never emits a run above 4096; for EVERY run length 1..4096 the (symbol, extra bits) written decode by the specification's LZ77 prefix rule to that length, with a legal length symbol. The model Enc.encodeFrame covers the whole function (expansion per colour type, transforms, run detection, frequency seeding, write_huffman_tree with both shortcuts and max_symbol, packed multi-code writes, the 64-bit BitWriter) and equals the real encode_frame byte for byte on every generated image; the bit-level round trip (codes from C14, serialised trees) is established by execution on every run: the Lean specification decoder applied to the model's bytes, this crate's decoder and libwebp applied to the real bytes all return the input, for 4 colour types x predictor on/off x sizes incl. 16384x1, 1x16384, 9000x2 x nine content families (runs of exactly 4095/4096/4097/8193, Fibonacci-skewed histograms forcing the 15-bit limit, single code length ...); plus WebPEncoder::encode with metadata.",
        "level_note": "Trusted: Lean kernel + standard axioms; the composition of the stage theorems into one bit-level round-trip theorem is not done (the specification decoder's loops are not proof-friendly yet); libwebp and the Lean specification decoder are the arbiters of 'decodes to the input'.",
        "design_ref": "DESIGN.md section 4, C04",
        "trusted_base": COMMON_TB + [
            "modelled, not verified: encoder.rs encode_frame, write_huffman_tree, write_single_entry_huffman_tree, length_to_symbol, count_run/write_run, BitWriter (all of it), build_huffman_tree (C14's model)",
            "specification: VP8L.decode (Spec/Lossless.lean) and its kernels; libwebp WebPDecodeRGBA",
        ],
        "assumptions": ["data.len() = width*height*bytes_per_pixel (the encoder asserts it; a mismatch is a documented panic)"],
        "partial": ["the bit-level composition (prefix-free codes decode, tree serialisation read back) is validated by execution through three decoders, not proved"],
    },
}
