#!/usr/bin/env python3
"""Regenerates MANIFEST.json from bin/props.py (claimed properties) — run by hand after editing props.py."""
import json, os, sys, subprocess
V = os.path.dirname(os.path.dirname(os.path.abspath(__file__)))
sys.path.insert(0, os.path.join(V, "bin"))
import props
ids = [json.loads(l)["id"] for l in open(os.path.join(V, "properties.jsonl"))]
hook_commits = subprocess.run(["git", "-C", "/repo", "log", "--format=%H %s"], stdout=subprocess.PIPE, text=True).stdout.splitlines()
hook_commits = [l.split()[0] for l in hook_commits if " verif hooks" in l]
checks, na = [], []
for pid in ids:
    m = props.PROPS.get(pid)
    if not m or not m.get("claimed", True):
        na.append({"property_id": pid, "reason": (m or {}).get("na_reason", "check not built yet in this session; see DESIGN.md section 6 for the planned theorems")})
        continue
    checks.append({
        "property_id": pid,
        "quick_cmd": f"bin/check {pid} --tier quick",
        "thorough_cmd": f"bin/check {pid} --tier thorough",
        "evidence_file": f"/verif/evidence/{pid}.json",
        "replay_cmd_template": f"bin/check {pid} --replay {{path}}",
        "engine": "lean4-proof+correspondence",
        "level_claimed": {"category": "proof", "text": m["level_text"], "design_ref": m.get("design_ref", "DESIGN.md section 4")},
        "level_note": m["level_note"],
        "technique": m["technique"],
    })
man = {
    "version": 1,
    "setup_cmd": "bin/setup",
    "hooks": {
        "guard": "image_webp_verif",
        "enable": "RUSTFLAGS='--cfg image_webp_verif' (set in /verif/harness/.cargo/config.toml; the harness depends on /repo by path)",
        "baseline_off_cmd": "cd /repo && cargo test --workspace --no-fail-fast --offline",
        "source_commits": hook_commits,
        "add_only": True,
    },
    "engines": [{
        "name": "lean4-proof+correspondence", "path": "/verif/lean, /verif/harness, /verif/bin/check",
        "serves_properties": [c["property_id"] for c in checks],
        "kind_free_text": "Lean 4 theorems about a hand-written executable model (lake build + #print axioms audit on every run); the model is tied to /repo's working tree by a differential correspondence run (Rust harness calling the real code through cfg-guarded hooks vs the compiled Lean model over a line protocol); constant tables are regenerated from /repo/src by tools/gen_tables.py",
    }],
    "checks": checks,
    "not_applicable": na,
    "notes": "Known findings: /verif/known_findings.json. Seeded breaking changes used to validate the checks: /verif/seeded/. See DESIGN.md.",
}
json.dump(man, open(os.path.join(V, "MANIFEST.json"), "w"), indent=1)
print("claimed", [c["property_id"] for c in checks], "not claimed", [n["property_id"] for n in na])
