//! Bit-level VP8L stream writer for hand-made streams (LSB-first), used for edge cases that no
//! encoder produces.
#![allow(dead_code)]
use crate::webpfile::*;

pub struct BitW {
    pub bytes: Vec<u8>,
    acc: u64,
    n: u32,
}
impl BitW {
    pub fn new() -> Self {
        BitW { bytes: vec![], acc: 0, n: 0 }
    }
    pub fn put(&mut self, v: u64, bits: u32) {
        let mut v = v;
        let mut bits = bits;
        while bits > 0 {
            let take = bits.min(32);
            self.acc |= (v & ((1u64 << take) - 1)) << self.n;
            self.n += take;
            while self.n >= 8 {
                self.bytes.push(self.acc as u8);
                self.acc >>= 8;
                self.n -= 8;
            }
            v >>= take;
            bits -= take;
        }
    }
    pub fn finish(mut self) -> Vec<u8> {
        if self.n > 0 {
            self.bytes.push(self.acc as u8);
        }
        self.bytes
    }
    pub fn header(&mut self, w: u32, h: u32, alpha: bool) {
        self.put(0x2f, 8);
        self.put(u64::from(w - 1), 14);
        self.put(u64::from(h - 1), 14);
        self.put(alpha as u64, 1);
        self.put(0, 3);
    }
    /// simple code with one symbol
    pub fn simple1(&mut self, sym: u32) {
        self.put(1, 1);
        self.put(0, 1);
        if sym < 2 {
            self.put(0, 1);
            self.put(u64::from(sym), 1);
        } else {
            self.put(1, 1);
            self.put(u64::from(sym), 8);
        }
    }
    /// simple code with two symbols (first may be 1 or 8 bits)
    pub fn simple2(&mut self, a: u32, b: u32) {
        self.put(1, 1);
        self.put(1, 1);
        if a < 2 {
            self.put(0, 1);
            self.put(u64::from(a), 1);
        } else {
            self.put(1, 1);
            self.put(u64::from(a), 8);
        }
        self.put(u64::from(b), 8);
    }
    /// normal code: code lengths written literally (every code-length code has length 4, so each
    /// length symbol 0..15 costs 4 bits; no run-length symbols), `lens` covers symbols 0..lens.len()
    /// via max_symbol
    pub fn normal_lengths(&mut self, lens: &[u8], alphabet: usize) {
        self.put(0, 1);
        // 19 code length codes: order 17,18,0,1,...; give 0..15 length 4, 16/17/18 length 0
        self.put(19 - 4, 4);
        let order = [17, 18, 0, 1, 2, 3, 4, 5, 16, 6, 7, 8, 9, 10, 11, 12, 13, 14, 15];
        for &s in &order {
            self.put(if s < 16 { 4 } else { 0 }, 3);
        }
        if lens.len() < alphabet {
            // max_symbol present
            self.put(1, 1);
            let ms = lens.len().max(2) as u64;
            let nbits = 64 - (ms - 2).max(1).leading_zeros();
            let length_nbits = ((nbits + 1) / 2 * 2).max(2);
            self.put(u64::from((length_nbits - 2) / 2), 3);
            self.put(ms - 2, length_nbits);
        } else {
            self.put(0, 1);
        }
        // canonical code for 16 symbols of length 4: code = symbol, written bit-reversed
        for i in 0..lens.len().max(2).min(alphabet) {
            let l = lens.get(i).copied().unwrap_or(0) as u64;
            let rev = ((l & 1) << 3) | ((l & 2) << 1) | ((l & 4) >> 1) | ((l & 8) >> 3);
            self.put(rev, 4);
        }
    }
}

impl BitW {
    /// a normal prefix code whose `max_symbol` field is written with width selector `n3`
    /// (2 + 2*n3 bits) and the raw value `value` (= max_symbol - 2), followed by `tokens` literal
    /// code-length symbols (0..15, each 4 bits: the code-length code gives 0..15 length 4)
    pub fn normal_with_max_symbol(&mut self, n3: u32, value: u64, tokens: &[u8]) {
        self.put(0, 1);
        self.put(19 - 4, 4);
        let order = [17, 18, 0, 1, 2, 3, 4, 5, 16, 6, 7, 8, 9, 10, 11, 12, 13, 14, 15];
        for &s in &order {
            self.put(if s < 16 { 4 } else { 0 }, 3);
        }
        self.put(1, 1);
        self.put(u64::from(n3), 3);
        self.put(value & ((1u64 << (2 + 2 * n3)) - 1), 2 + 2 * n3);
        for &l in tokens {
            let l = u64::from(l);
            let rev = ((l & 1) << 3) | ((l & 2) << 1) | ((l & 4) >> 1) | ((l & 8) >> 3);
            self.put(rev, 4);
        }
    }
}

/// 4x1 image whose green code is a normal code with an explicit `max_symbol` field (see
/// `normal_with_max_symbol`); the other codes are single-symbol
pub fn file_with_max_symbol(n3: u32, value: u64, tokens: &[u8]) -> Vec<u8> {
    let mut w = BitW::new();
    w.header(4, 1, true);
    w.put(0, 1);
    w.put(0, 1);
    w.put(0, 1);
    w.normal_with_max_symbol(n3, value, tokens);
    w.simple1(0);
    w.simple1(0);
    w.simple1(255);
    w.simple1(0);
    w.put(0, 64);
    riff(&chunk(b"VP8L", &w.finish()))
}

/// the boundary values of a `max_symbol` field of width selector `n3` for an alphabet
pub fn max_symbol_values(n3: u32, alphabet: u64) -> Vec<u64> {
    let top = (1u64 << (2 + 2 * n3)) - 1;
    let mut v = vec![0, 1, 2, alphabet.saturating_sub(3), alphabet.saturating_sub(2), alphabet.saturating_sub(1), alphabet, top.saturating_sub(1), top];
    v.retain(|&x| x <= top);
    v.sort_unstable();
    v.dedup();
    v
}

/// 4x1 image, no transforms, no cache, no meta codes; the green code is a normal code with the
/// given lengths (possibly invalid), the other codes are single-symbol
pub fn file_with_green_lengths(lens: &[u8]) -> Vec<u8> {
    let mut w = BitW::new();
    w.header(4, 1, true);
    w.put(0, 1); // no transform
    w.put(0, 1); // no colour cache
    w.put(0, 1); // no meta codes
    w.normal_lengths(lens, 280);
    w.simple1(0);
    w.simple1(0);
    w.simple1(255);
    w.simple1(0);
    w.put(0, 64);
    riff(&chunk(b"VP8L", &w.finish()))
}
