//! libwebp (libwebp-sys 0.9.6, compiled from its vendored C source) as executable reference.
#![allow(non_upper_case_globals, dead_code)]
use std::os::raw::c_int;
extern crate libwebp_sys;

/// libwebp decoder version (also forces the static library to be linked)
pub fn version() -> i32 {
    unsafe { libwebp_sys::WebPGetDecoderVersion() }
}

type SamplerRowFunc = Option<unsafe extern "C" fn(*const u8, *const u8, *const u8, *mut u8, c_int)>;
extern "C" {
    // src/dsp/yuv.c — internal but with external linkage in the static library
    static mut WebPSamplers: [SamplerRowFunc; 13];
    fn WebPInitSamplers();
}
pub const MODE_RGB: usize = 0;
pub const MODE_RGBA: usize = 1;

/// libwebp's point sampler for one row: `len` pixels, chroma shared by pairs.
pub fn sampler_row(mode: usize, y: &[u8], u: &[u8], v: &[u8], dst: &mut [u8]) {
    let len = y.len();
    let bpp = if mode == MODE_RGB { 3 } else { 4 };
    assert!(u.len() >= len.div_ceil(2) && v.len() >= len.div_ceil(2) && dst.len() >= len * bpp);
    unsafe {
        WebPInitSamplers();
        let f = (*std::ptr::addr_of!(WebPSamplers))[mode].expect("sampler");
        f(y.as_ptr(), u.as_ptr(), v.as_ptr(), dst.as_mut_ptr(), len as c_int);
    }
}

use libwebp_sys::*;

/// Encode with libwebp through the advanced API; `rgba` selects the import function.
pub fn encode(pixels: &[u8], w: i32, h: i32, rgba: bool, f: impl Fn(&mut WebPConfig)) -> Vec<u8> {
    unsafe {
        let mut cfg = WebPConfig::new().unwrap();
        f(&mut cfg);
        assert!(WebPValidateConfig(&cfg) != 0, "invalid libwebp config");
        let mut pic = WebPPicture::new().unwrap();
        pic.width = w;
        pic.height = h;
        if cfg.lossless != 0 {
            pic.use_argb = 1;
        }
        if rgba {
            assert!(WebPPictureImportRGBA(&mut pic, pixels.as_ptr(), w * 4) != 0);
        } else {
            assert!(WebPPictureImportRGB(&mut pic, pixels.as_ptr(), w * 3) != 0);
        }
        let mut wr: WebPMemoryWriter = std::mem::zeroed();
        WebPMemoryWriterInit(&mut wr);
        pic.writer = Some(WebPMemoryWrite);
        pic.custom_ptr = &mut wr as *mut _ as *mut _;
        let ok = WebPEncode(&cfg, &mut pic);
        assert!(ok != 0, "libwebp encode failed: {:?}", pic.error_code);
        let v = std::slice::from_raw_parts(wr.mem, wr.size).to_vec();
        WebPPictureFree(&mut pic);
        WebPMemoryWriterClear(&mut wr);
        v
    }
}

/// `WebPDecodeRGBA`
pub fn decode_rgba(file: &[u8]) -> Option<(u32, u32, Vec<u8>)> {
    unsafe {
        let (mut w, mut h) = (0, 0);
        let p = WebPDecodeRGBA(file.as_ptr(), file.len(), &mut w, &mut h);
        if p.is_null() {
            return None;
        }
        let v = std::slice::from_raw_parts(p, (w * h * 4) as usize).to_vec();
        WebPFree(p as *mut _);
        Some((w as u32, h as u32, v))
    }
}

/// `WebPDecode` into RGBA without fancy upsampling (point sampling of chroma)
pub fn decode_rgba_nofancy(file: &[u8]) -> Option<(u32, u32, Vec<u8>)> {
    unsafe {
        let mut cfg: WebPDecoderConfig = std::mem::zeroed();
        if !WebPInitDecoderConfig(&mut cfg) {
            return None;
        }
        cfg.options.no_fancy_upsampling = 1;
        cfg.output.colorspace = WEBP_CSP_MODE::MODE_RGBA;
        if WebPDecode(file.as_ptr(), file.len(), &mut cfg) != VP8StatusCode::VP8_STATUS_OK {
            WebPFreeDecBuffer(&mut cfg.output);
            return None;
        }
        let (w, h) = (cfg.output.width as usize, cfg.output.height as usize);
        let buf = cfg.output.u.RGBA;
        let mut v = Vec::with_capacity(w * h * 4);
        for r in 0..h {
            v.extend_from_slice(std::slice::from_raw_parts(buf.rgba.offset((r as isize) * buf.stride as isize), w * 4));
        }
        WebPFreeDecBuffer(&mut cfg.output);
        Some((w as u32, h as u32, v))
    }
}

/// `WebPDecodeYUV`: (w, h, Y, U, V) with tight strides
pub fn decode_yuv(file: &[u8]) -> Option<(u32, u32, Vec<u8>, Vec<u8>, Vec<u8>)> {
    unsafe {
        let (mut w, mut h, mut stride, mut uvstride) = (0, 0, 0, 0);
        let mut u: *mut u8 = std::ptr::null_mut();
        let mut v: *mut u8 = std::ptr::null_mut();
        let y = WebPDecodeYUV(file.as_ptr(), file.len(), &mut w, &mut h, &mut u, &mut v, &mut stride, &mut uvstride);
        if y.is_null() {
            return None;
        }
        let cw = (w + 1) / 2;
        let ch = (h + 1) / 2;
        let (mut yy, mut uu, mut vv) = (Vec::new(), Vec::new(), Vec::new());
        for r in 0..h {
            yy.extend_from_slice(std::slice::from_raw_parts(y.offset((r * stride) as isize), w as usize));
        }
        for r in 0..ch {
            uu.extend_from_slice(std::slice::from_raw_parts(u.offset((r * uvstride) as isize), cw as usize));
            vv.extend_from_slice(std::slice::from_raw_parts(v.offset((r * uvstride) as isize), cw as usize));
        }
        WebPFree(y as *mut _);
        Some((w as u32, h as u32, yy, uu, vv))
    }
}

/// `WebPAnimDecoder`: all frames as RGBA canvases with their end timestamps
pub fn anim_decode(file: &[u8]) -> Option<Vec<(i32, Vec<u8>)>> {
    unsafe {
        let mut opts: WebPAnimDecoderOptions = std::mem::zeroed();
        if WebPAnimDecoderOptionsInit(&mut opts) == 0 {
            return None;
        }
        opts.color_mode = WEBP_CSP_MODE::MODE_RGBA;
        opts.use_threads = 0;
        let data = WebPData { bytes: file.as_ptr(), size: file.len() };
        let dec = WebPAnimDecoderNew(&data, &opts);
        if dec.is_null() {
            return None;
        }
        let mut info: WebPAnimInfo = std::mem::zeroed();
        if WebPAnimDecoderGetInfo(dec, &mut info) == 0 {
            WebPAnimDecoderDelete(dec);
            return None;
        }
        let n = (info.canvas_width * info.canvas_height * 4) as usize;
        let mut out = Vec::new();
        while WebPAnimDecoderHasMoreFrames(dec) != 0 {
            let mut buf: *mut u8 = std::ptr::null_mut();
            let mut ts = 0;
            if WebPAnimDecoderGetNext(dec, &mut buf, &mut ts) == 0 {
                WebPAnimDecoderDelete(dec);
                return None;
            }
            out.push((ts, std::slice::from_raw_parts(buf, n).to_vec()));
        }
        WebPAnimDecoderDelete(dec);
        Some(out)
    }
}

/// What libwebp's demuxer reports for a file.
#[derive(Debug, Clone, Default)]
pub struct DemuxInfo {
    pub flags: u32,
    pub canvas_w: u32,
    pub canvas_h: u32,
    pub loop_count: u32,
    pub frame_count: u32,
    pub icc: Option<Vec<u8>>,
    pub exif: Option<Vec<u8>>,
    pub xmp: Option<Vec<u8>>,
    pub durations: Vec<u32>,
}

/// `WebPDemux` (full parse; None if libwebp rejects the file)
pub fn demux(file: &[u8]) -> Option<DemuxInfo> {
    unsafe {
        let data = WebPData { bytes: file.as_ptr(), size: file.len() };
        let d = WebPDemuxInternal(&data, 0, std::ptr::null_mut(), WebPGetDemuxABIVersion());
        if d.is_null() {
            return None;
        }
        let mut out = DemuxInfo {
            flags: WebPDemuxGetI(d, WebPFormatFeature::WEBP_FF_FORMAT_FLAGS),
            canvas_w: WebPDemuxGetI(d, WebPFormatFeature::WEBP_FF_CANVAS_WIDTH),
            canvas_h: WebPDemuxGetI(d, WebPFormatFeature::WEBP_FF_CANVAS_HEIGHT),
            loop_count: WebPDemuxGetI(d, WebPFormatFeature::WEBP_FF_LOOP_COUNT),
            frame_count: WebPDemuxGetI(d, WebPFormatFeature::WEBP_FF_FRAME_COUNT),
            ..Default::default()
        };
        let get = |cc: &[u8; 5]| -> Option<Vec<u8>> {
            let mut it: WebPChunkIterator = std::mem::zeroed();
            if WebPDemuxGetChunk(d, cc.as_ptr() as *const _, 1, &mut it) != 0 {
                let v = std::slice::from_raw_parts(it.chunk.bytes, it.chunk.size).to_vec();
                WebPDemuxReleaseChunkIterator(&mut it);
                Some(v)
            } else {
                None
            }
        };
        out.icc = get(b"ICCP\0");
        out.exif = get(b"EXIF\0");
        out.xmp = get(b"XMP \0");
        let mut it: WebPIterator = std::mem::zeroed();
        if WebPDemuxGetFrame(d, 1, &mut it) != 0 {
            loop {
                out.durations.push(it.duration as u32);
                if WebPDemuxNextFrame(&mut it) == 0 {
                    break;
                }
            }
            WebPDemuxReleaseIterator(&mut it);
        }
        WebPDemuxDelete(d);
        Some(out)
    }
}
