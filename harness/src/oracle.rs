//! libwebp (libwebp-sys 0.9.6, compiled from its vendored C source) as executable reference.
#![allow(non_upper_case_globals, dead_code)]
use std::os::raw::c_int;
extern crate libwebp_sys;

/// libwebp decoder version (also forces the static library to be linked)
pub fn version() -> i32 {
    unsafe { libwebp_sys::WebPGetDecoderVersion() }
}

type SamplerRowFunc = Option<unsafe extern "C" fn(*const u8, *const u8, *const u8, *mut u8, c_int)>;
extern "C" {
    // src/dsp/yuv.c — internal but with external linkage in the static library
    static mut WebPSamplers: [SamplerRowFunc; 13];
    fn WebPInitSamplers();
}
pub const MODE_RGB: usize = 0;
pub const MODE_RGBA: usize = 1;

/// libwebp's point sampler for one row: `len` pixels, chroma shared by pairs.
pub fn sampler_row(mode: usize, y: &[u8], u: &[u8], v: &[u8], dst: &mut [u8]) {
    let len = y.len();
    let bpp = if mode == MODE_RGB { 3 } else { 4 };
    assert!(u.len() >= len.div_ceil(2) && v.len() >= len.div_ceil(2) && dst.len() >= len * bpp);
    unsafe {
        WebPInitSamplers();
        let f = (*std::ptr::addr_of!(WebPSamplers))[mode].expect("sampler");
        f(y.as_ptr(), u.as_ptr(), v.as_ptr(), dst.as_mut_ptr(), len as c_int);
    }
}
