//! Random VALID VP8L streams built from the format grammar (a "program generator"): any subset
//! and order of the four transforms with random parameters, colour cache of any size, meta prefix
//! codes with several groups, per alphabet a random complete prefix code (simple codes, normal
//! codes with random length vectors up to depth 15, run-length tokens 16/17/18, max_symbol), and
//! pixel programs of literals, backward references (plane codes and raw distances, overlapping
//! copies, any legal length) and colour-cache hits (incl. never-written slots).  The generator
//! simulates the decoder's state it needs (pixels for meta images, the colour cache); the expected
//! output comes from the references (libwebp, the Lean specification decoder), never from here.
#![allow(dead_code)]
use crate::common::*;
use crate::vp8lbits::BitW;

const CODE_LENGTH_ORDER: [usize; 19] = [17, 18, 0, 1, 2, 3, 4, 5, 16, 6, 7, 8, 9, 10, 11, 12, 13, 14, 15];
const DISTANCE_MAP: [(i32, i32); 120] = [
    (0, 1), (1, 0), (1, 1), (-1, 1), (0, 2), (2, 0), (1, 2), (-1, 2), (2, 1), (-2, 1), (2, 2), (-2, 2), (0, 3), (3, 0), (1, 3), (-1, 3),
    (3, 1), (-3, 1), (2, 3), (-2, 3), (3, 2), (-3, 2), (0, 4), (4, 0), (1, 4), (-1, 4), (4, 1), (-4, 1), (3, 3), (-3, 3), (2, 4), (-2, 4),
    (4, 2), (-4, 2), (0, 5), (3, 4), (-3, 4), (4, 3), (-4, 3), (5, 0), (1, 5), (-1, 5), (5, 1), (-5, 1), (2, 5), (-2, 5), (5, 2), (-5, 2),
    (4, 4), (-4, 4), (3, 5), (-3, 5), (5, 3), (-5, 3), (0, 6), (6, 0), (1, 6), (-1, 6), (6, 1), (-6, 1), (2, 6), (-2, 6), (6, 2), (-6, 2),
    (4, 5), (-4, 5), (5, 4), (-5, 4), (3, 6), (-3, 6), (6, 3), (-6, 3), (0, 7), (7, 0), (1, 7), (-1, 7), (5, 5), (-5, 5), (7, 1), (-7, 1),
    (4, 6), (-4, 6), (6, 4), (-6, 4), (2, 7), (-2, 7), (7, 2), (-7, 2), (3, 7), (-3, 7), (7, 3), (-7, 3), (5, 6), (-5, 6), (6, 5), (-6, 5),
    (8, 0), (4, 7), (-4, 7), (7, 4), (-7, 4), (8, 1), (8, 2), (6, 6), (-6, 6), (8, 3), (5, 7), (-5, 7), (7, 5), (-7, 5), (8, 4), (6, 7),
    (-6, 7), (7, 6), (-7, 6), (8, 5), (7, 7), (-7, 7), (8, 6), (8, 7),
];

#[derive(Default, Debug, Clone)]
pub struct Feat {
    pub transforms: Vec<u8>,
    pub cache_bits: u32,
    pub groups: usize,
    pub max_len: u8,
    pub backrefs: u32,
    pub cache_hits: u32,
    pub simple_codes: u32,
    pub normal_codes: u32,
    pub rle_tokens: u32,
    pub max_symbol_used: u32,
    pub sub_cache: u32,
    pub directed_flat_group: u32,
    /// for the main image: the arguments of the `lloop` model request (w h bits xsize image single cacheBits), and the ops
    pub trace: Option<(String, String)>,
}

/// depths of a random complete prefix code with `n >= 2` leaves and depth <= `maxd`
pub fn complete_depths(rng: &mut Rng, n: usize, maxd: u8) -> Vec<u8> {
    let mut d: Vec<u8> = vec![1, 1];
    let skew = rng.below(3); // 0 balanced-ish, 1 random, 2 deep
    while d.len() < n {
        let cands: Vec<usize> = (0..d.len()).filter(|&i| d[i] < maxd).collect();
        let i = match skew {
            0 => *cands.iter().min_by_key(|&&i| d[i]).unwrap(),
            2 if rng.chance(3, 4) => *cands.iter().max_by_key(|&&i| d[i]).unwrap(),
            _ => cands[rng.below(cands.len() as u64) as usize],
        };
        d[i] += 1;
        let v = d[i];
        d.push(v);
    }
    d
}

/// canonical code words (MSB-first) for a length vector
fn canonical(lengths: &[u8]) -> Vec<u32> {
    let mut count = [0u32; 17];
    for &l in lengths { count[l as usize] += 1; }
    count[0] = 0;
    let mut next = [0u32; 17];
    let mut code = 0u32;
    for l in 1..=16 { code = (code + count[l - 1]) << 1; next[l] = code; }
    lengths.iter().map(|&l| if l == 0 { 0 } else { let c = next[l as usize]; next[l as usize] += 1; c }).collect()
}

fn rev(code: u32, len: u8) -> u64 {
    let mut r = 0u64;
    for i in 0..len { if code >> i & 1 == 1 { r |= 1 << (len - 1 - i); } }
    r
}

/// a prefix code chosen for one alphabet: how to write it, and the (length, code) of each symbol
pub struct Code { lengths: Vec<u8>, words: Vec<u32>, simple: Option<Vec<u32>> }
impl Code {
    fn put(&self, w: &mut BitW, sym: usize) {
        let l = self.lengths[sym];
        if self.lengths.iter().filter(|&&x| x > 0).count() <= 1 { return; } // single symbol: zero bits
        assert!(l > 0, "symbol {sym} has no code");
        w.put(rev(self.words[sym], l), u32::from(l));
    }
}

/// choose a code covering the `used` symbols of an alphabet of `alphabet` symbols
fn choose_code(rng: &mut Rng, used: &[bool], alphabet: usize, f: &mut Feat) -> Code {
    let mut syms: Vec<usize> = (0..alphabet).filter(|&s| used.get(s).copied().unwrap_or(false)).collect();
    if syms.is_empty() {
        // an alphabet nothing is coded with (unselected group, or a channel no operation uses): any
        // valid code may stand there - half of the time a normal code over symbols of the WHOLE
        // alphabet (incl. its last symbols, e.g. colour-cache symbols), otherwise a single symbol
        if rng.chance(1, 2) {
            for _ in 0..(2 + rng.below(5)) {
                let s = if rng.chance(1, 2) { alphabet - 1 - rng.below((alphabet as u64).min(24)) as usize } else { rng.below(alphabet as u64) as usize };
                if !syms.contains(&s) { syms.push(s); }
            }
        } else {
            syms.push(rng.below(alphabet.min(256) as u64) as usize);
        }
    }
    let all_small = syms.iter().all(|&s| s < 256);
    // simple codes: one symbol (0 bits) or two symbols (1 bit each); first symbol written in 1 or 8 bits
    if syms.len() <= 2 && all_small && (syms.len() == 1 || rng.chance(2, 3)) {
        let mut lengths = vec![0u8; alphabet];
        if syms.len() == 1 && rng.chance(1, 3) {
            // a two-symbol simple code of which only one symbol is used
            let mut other = rng.below(256.min(alphabet) as u64) as usize;
            if other == syms[0] { other = (other + 1) % 256.min(alphabet); }
            syms.push(other);
        }
        for &s in &syms { lengths[s] = 1; }
        let mut order: Vec<u32> = syms.iter().map(|&s| s as u32).collect();
        if order.len() == 2 {
            // the first symbol can only be written in 1 bit if it is 0 or 1; any order is allowed
            if rng.chance(1, 2) { order.swap(0, 1); }
        }
        f.simple_codes += 1;
        let words = canonical(&lengths);
        return Code { lengths, words, simple: Some(order) };
    }
    // normal code: the used symbols plus a few unused ones
    let extra = match rng.below(4) { 0 => 0, 1 => 1, 2 => rng.below(6) as usize, _ => rng.below(40) as usize };
    for _ in 0..extra {
        let s = rng.below(alphabet as u64) as usize;
        if !syms.contains(&s) { syms.push(s); }
    }
    while syms.len() < 2 {
        let s = rng.below(alphabet as u64) as usize;
        if !syms.contains(&s) { syms.push(s); }
    }
    let depths = complete_depths(rng, syms.len(), 15);
    // assign depths to symbols in random order
    let mut idx: Vec<usize> = (0..syms.len()).collect();
    for i in (1..idx.len()).rev() { idx.swap(i, rng.below(i as u64 + 1) as usize); }
    let mut lengths = vec![0u8; alphabet];
    for (k, &s) in syms.iter().enumerate() { lengths[s] = depths[idx[k]]; }
    f.max_len = f.max_len.max(*depths.iter().max().unwrap());
    f.normal_codes += 1;
    let words = canonical(&lengths);
    Code { lengths, words, simple: None }
}

fn write_code(rng: &mut Rng, w: &mut BitW, c: &Code, f: &mut Feat) {
    if let Some(order) = &c.simple {
        w.put(1, 1);
        w.put((order.len() - 1) as u64, 1);
        let first = order[0];
        if first < 2 && rng.chance(2, 3) { w.put(0, 1); w.put(u64::from(first), 1); } else { w.put(1, 1); w.put(u64::from(first), 8); }
        if order.len() == 2 { w.put(u64::from(order[1]), 8); }
        return;
    }
    w.put(0, 1);
    let n = c.lengths.len();
    let last_nz = c.lengths.iter().rposition(|&l| l > 0).unwrap();
    // tokens: (symbol, extra value, extra bits), covering lengths[0..cover)
    let build = |rng: &mut Rng, upto: usize, f: &mut Feat| -> Vec<(usize, u64, u32)> {
        let mut t = Vec::new();
        let mut i = 0;
        let mut prev = 8u8;
        let rle = rng.below(3); // 0 never, 1 sometimes, 2 always when possible
        while i < upto {
            let l = c.lengths[i];
            let mut run = 1;
            while i + run < upto && c.lengths[i + run] == l { run += 1; }
            let want = rle == 2 || (rle == 1 && rng.chance(1, 2));
            if l == 0 && run >= 3 && want {
                if run >= 11 && rng.chance(3, 4) {
                    let r = 11 + rng.below((run.min(138) - 11 + 1) as u64) as usize;
                    t.push((18, (r - 11) as u64, 7));
                    i += r;
                } else {
                    let r = 3 + rng.below((run.min(10) - 3 + 1) as u64) as usize;
                    t.push((17, (r - 3) as u64, 3));
                    i += r;
                }
                f.rle_tokens += 1;
            } else if l != 0 && l == prev && run >= 3 && want {
                let r = 3 + rng.below((run.min(6) - 3 + 1) as u64) as usize;
                t.push((16, (r - 3) as u64, 2));
                i += r;
                f.rle_tokens += 1;
            } else {
                t.push((l as usize, 0, 0));
                if l != 0 { prev = l; }
                i += 1;
            }
        }
        t
    };
    let use_max = last_nz + 1 < n && rng.chance(1, 2);
    let mut tokens = build(rng, if use_max { last_nz + 1 } else { n }, f);
    let mut use_max = use_max && tokens.len() >= 2;
    if !use_max && tokens.iter().map(|t| match t.0 { 16 => t.1 as usize + 3, 17 => t.1 as usize + 3, 18 => t.1 as usize + 11, _ => 1 }).sum::<usize>() != n {
        tokens = build(rng, n, f);
        use_max = false;
    }
    // the code-length code
    let mut used = [false; 19];
    for t in &tokens { used[t.0] = true; }
    let mut cl_syms: Vec<usize> = (0..19).filter(|&s| used[s]).collect();
    while cl_syms.len() < 2 || rng.chance(1, 4) && cl_syms.len() < 19 {
        let s = rng.below(19) as usize;
        if !cl_syms.contains(&s) { cl_syms.push(s); }
    }
    let depths = complete_depths(rng, cl_syms.len(), 7);
    let mut cl = [0u8; 19];
    for (k, &s) in cl_syms.iter().enumerate() { cl[s] = depths[k]; }
    let words = canonical(&cl);
    let mut num = 4;
    for (k, &s) in CODE_LENGTH_ORDER.iter().enumerate() { if cl[s] > 0 { num = num.max(k + 1); } }
    if rng.chance(1, 4) { num = num + rng.below((19 - num + 1) as u64) as usize; }
    w.put((num - 4) as u64, 4);
    for &s in &CODE_LENGTH_ORDER[..num] { w.put(u64::from(cl[s]), 3); }
    if use_max {
        f.max_symbol_used += 1;
        w.put(1, 1);
        let ms = tokens.len() as u64;
        let need = 64 - (ms - 2).leading_zeros();
        let mut x = (need.max(2) + 1) / 2 - 1; // length_nbits = 2 + 2*x >= need
        if x < 7 && rng.chance(1, 3) { x += 1; }
        let length_nbits = 2 + 2 * x;
        w.put(u64::from(x), 3);
        w.put(ms - 2, length_nbits);
    } else {
        w.put(0, 1);
    }
    for t in &tokens {
        w.put(rev(words[t.0], cl[t.0]), u32::from(cl[t.0]));
        if t.2 > 0 { w.put(t.1, t.2); }
    }
}

/// VP8L prefix coding of a length or distance value >= 1: (prefix symbol, extra bits count, extra value)
fn prefix_encode(v: u32) -> (usize, u32, u64) {
    if v <= 4 { return ((v - 1) as usize, 0, 0); }
    let x = v - 1;
    let hb = 31 - x.leading_zeros();
    let second = (x >> (hb - 1)) & 1;
    let extra_bits = hb - 1;
    ((2 * hb + second) as usize, extra_bits, u64::from(x & ((1 << extra_bits) - 1)))
}

enum Op { Lit(u32), Cache(usize), Back { len: u32, dist_code: u32, dist: usize } }

/// what the pixels of an entropy-coded image may be
#[derive(Clone, Copy)]
pub enum Domain { Any, Modes, Groups(usize), Indices(u32, u32), Few(u64) }

fn draw(rng: &mut Rng, dom: Domain, palette: &[u32]) -> u32 {
    match dom {
        Domain::Any => if rng.chance(1, 2) { *rng.pick(palette) } else { rng.next() as u32 },
        Domain::Few(_) => *rng.pick(palette),
        Domain::Modes => (rng.below(14) as u32) << 8 | (rng.next() as u32 & 0xff03_0003),
        Domain::Groups(g) => (if rng.chance(1, 3) { (g as u32).saturating_sub(1) } else if rng.chance(1, 2) { 0 } else { rng.below(g as u64) as u32 }) << 8,
        Domain::Indices(n, per) => {
            // `per` indices below n packed into the green byte
            let bits = 8 / per;
            let mut g = 0u32;
            for k in 0..per { g |= (rng.below(u64::from(n.min(1 << bits))) as u32) << (k * bits); }
            (g << 8) | (rng.next() as u32 & 0xff00_00ff) | ((rng.next() as u32 & 0xff) << 16)
        }
    }
}

/// emit one entropy-coded image (`main`: with optional meta prefix codes); returns the pixels it
/// decodes to (ARGB), which the caller needs when the image is a meta image
fn entropy_image(rng: &mut Rng, w: &mut BitW, xs: u32, ys: u32, main: bool, dom: Domain, f: &mut Feat) -> Vec<u32> {
    let n = (xs * ys) as usize;
    // colour cache
    // directed family (main images only): a tiny colour cache, meta prefix codes, the group of the
    // first pixel coded with four single-symbol codes (one flat colour, visited once per block row)
    // and the other groups mostly colour-cache symbols from a small palette: the flat colour is
    // evicted from its slot between two visits of its group and must be back after the next one
    let directed = main && xs >= 5 && ys >= 3 && rng.chance(1, 6);
    let cache_bits = if directed { 1 + rng.below(2) as u32 } else if rng.chance(1, 2) { 0 } else { 1 + rng.below(11) as u32 };
    if cache_bits > 0 { w.put(1, 1); w.put(u64::from(cache_bits), 4); } else { w.put(0, 1); }
    if main { f.cache_bits = cache_bits; } else if cache_bits > 0 { f.sub_cache += 1; }
    // meta prefix codes
    let mut groups = 1usize;
    let mut meta: Vec<u32> = Vec::new();
    let mut prefix_bits = 0u32;
    if main {
        if directed || rng.chance(1, 2) {
            w.put(1, 1);
            prefix_bits = if directed { 2 } else { 2 + rng.below(4) as u32 };
            w.put(u64::from(prefix_bits - 2), 3);
            groups = if directed { 2 + rng.below(3) as usize } else { 1 + rng.below(4) as usize };
            let (mw, mh) = ((xs + (1 << prefix_bits) - 1) >> prefix_bits, (ys + (1 << prefix_bits) - 1) >> prefix_bits);
            meta = entropy_image(rng, w, mw, mh, false, Domain::Groups(groups), f);
            // the number of groups is the largest index used + 1
            groups = meta.iter().map(|p| (p >> 8 & 0xffff) as usize).max().unwrap_or(0) + 1;
        } else {
            w.put(0, 1);
        }
        f.groups = groups;
    }
    let group_at = |p: usize| -> usize {
        if meta.is_empty() { 0 } else {
            let (x, y) = (p as u32 % xs, p as u32 / xs);
            let mw = (xs + (1 << prefix_bits) - 1) >> prefix_bits;
            (meta[((y >> prefix_bits) * mw + (x >> prefix_bits)) as usize] >> 8 & 0xffff) as usize
        }
    };
    // pixel program (simulating pixels and the colour cache)
    let palette: Vec<u32> = (0..*rng.pick(&[1u64, 2, 3, 5, 17, 100])).map(|_| match dom { Domain::Any | Domain::Few(_) => rng.next() as u32 | if rng.chance(1, 2) { 0xff00_0000 } else { 0 }, _ => draw(rng, dom, &[]) }).collect();
    let mut px: Vec<u32> = Vec::with_capacity(n);
    let mut cache = vec![0u32; if cache_bits > 0 { 1 << cache_bits } else { 0 }];
    let mut ops: Vec<(usize, Op)> = Vec::new();
    let style = if directed { 3 } else { rng.below(4) }; // 0 literals only, 1 few refs, 2 many refs, 3 mostly cache/refs
    let flat_group = if directed { Some((group_at(0), rng.next() as u32 | 0xff00_0000)) } else { None };
    if directed { f.directed_flat_group += 1; }
    while px.len() < n {
        let p = px.len();
        let g = group_at(p);
        let r = rng.below(100);
        let (pb, pc) = match style { 0 => (0, 0), 1 => (10, 10), 2 => (45, 15), _ => if directed { (5, 70) } else { (35, 45) } };
        if let Some((g0, c0)) = flat_group {
            if g == g0 {
                px.push(c0);
                let k = (0x1e35a7bdu32.wrapping_mul(c0) >> (32 - cache_bits)) as usize;
                cache[k] = c0;
                ops.push((g, Op::Lit(c0)));
                continue;
            }
        }
        if p > 0 && r < pb {
            // backward reference
            let maxlen = (n - p).min(4096) as u32;
            let len = match rng.below(5) { 0 => 1, 1 => maxlen, 2 => 1 + rng.below(u64::from(maxlen.min(8))) as u32, 3 => 1 + rng.below(u64::from(maxlen.min(70))) as u32, _ => 1 + rng.below(u64::from(maxlen)) as u32 };
            let (dist, dist_code) = {
                let code = 1 + rng.below(120) as u32;
                let (dx, dy) = DISTANCE_MAP[(code - 1) as usize];
                let d = (dx + dy * xs as i32).max(1) as usize;
                if rng.chance(2, 3) && d <= p { (d, code) } else {
                    let d = match rng.below(3) { 0 => 1, 1 => p, _ => 1 + rng.below(p as u64) as usize };
                    (d, d as u32 + 120)
                }
            };
            for _ in 0..len {
                let v = px[px.len() - dist];
                px.push(v);
                if cache_bits > 0 { let k = (0x1e35a7bdu32.wrapping_mul(v) >> (32 - cache_bits)) as usize; cache[k] = v; }
            }
            ops.push((g, Op::Back { len, dist_code, dist }));
            if main { f.backrefs += 1; }
        } else if cache_bits > 0 && r < pb + pc {
            let k = rng.below(1 << cache_bits) as usize;
            let v = cache[k];
            px.push(v);
            let kk = (0x1e35a7bdu32.wrapping_mul(v) >> (32 - cache_bits)) as usize;
            cache[kk] = v;
            ops.push((g, Op::Cache(k)));
            if main { f.cache_hits += 1; }
        } else {
            let v = draw(rng, dom, &palette);
            px.push(v);
            if cache_bits > 0 { let k = (0x1e35a7bdu32.wrapping_mul(v) >> (32 - cache_bits)) as usize; cache[k] = v; }
            ops.push((g, Op::Lit(v)));
        }
    }
    // histograms -> codes
    let green_alpha = 256 + 24 + if cache_bits > 0 { 1usize << cache_bits } else { 0 };
    let sizes = [green_alpha, 256, 256, 256, 40];
    let mut used: Vec<[Vec<bool>; 5]> = (0..groups).map(|_| [vec![false; sizes[0]], vec![false; 256], vec![false; 256], vec![false; 256], vec![false; 40]]).collect();
    for (g, op) in &ops {
        match op {
            Op::Lit(v) => {
                used[*g][0][(v >> 8 & 0xff) as usize] = true;
                used[*g][1][(v >> 16 & 0xff) as usize] = true;
                used[*g][2][(v & 0xff) as usize] = true;
                used[*g][3][(v >> 24) as usize] = true;
            }
            Op::Cache(k) => used[*g][0][280 + k] = true,
            Op::Back { len, dist_code, .. } => {
                used[*g][0][256 + prefix_encode(*len).0] = true;
                used[*g][4][prefix_encode(*dist_code).0] = true;
            }
        }
    }
    let mut codes: Vec<Vec<Code>> = Vec::new();
    for g in 0..groups {
        let mut cs = Vec::new();
        for a in 0..5 {
            let c = choose_code(rng, &used[g][a], sizes[a], f);
            write_code(rng, w, &c, f);
            cs.push(c);
        }
        codes.push(cs);
    }
    if main {
        let one = |c: &Code| -> Option<usize> { let nz: Vec<usize> = (0..c.lengths.len()).filter(|&s| c.lengths[s] > 0).collect(); if nz.len() == 1 { Some(nz[0]) } else { None } };
        let single: Vec<String> = codes.iter().map(|c| match (one(&c[0]), one(&c[1]), one(&c[2]), one(&c[3])) {
            (Some(g), Some(r), Some(b), Some(a)) if g < 256 => (((a as u64) << 24) | ((r as u64) << 16) | ((g as u64) << 8) | b as u64).to_string(),
            _ => "-".to_string(),
        }).collect();
        let mw = if prefix_bits > 0 { (xs + (1 << prefix_bits) - 1) >> prefix_bits } else { 0 };
        let image = if meta.is_empty() { "-".to_string() } else { meta.iter().map(|p| (p >> 8 & 0xffff).to_string()).collect::<Vec<_>>().join(",") };
        let opstr: Vec<String> = ops.iter().map(|(_, op)| match op { Op::Lit(v) => format!("l{v}"), Op::Cache(k) => format!("c{k}"), Op::Back { len, dist, .. } => format!("b{len}:{dist}") }).collect();
        f.trace = Some((format!("{xs} {ys} {prefix_bits} {mw} {image} {} {cache_bits}", single.join(",")), if opstr.is_empty() { "-".into() } else { opstr.join(",") }));
    }
    for (g, op) in &ops {
        let c = &codes[*g];
        match op {
            Op::Lit(v) => {
                c[0].put(w, (v >> 8 & 0xff) as usize);
                c[1].put(w, (v >> 16 & 0xff) as usize);
                c[2].put(w, (v & 0xff) as usize);
                c[3].put(w, (v >> 24) as usize);
            }
            Op::Cache(k) => c[0].put(w, 280 + k),
            Op::Back { len, dist_code, .. } => {
                let (s, eb, ev) = prefix_encode(*len);
                c[0].put(w, 256 + s);
                if eb > 0 { w.put(ev, eb); }
                let (s, eb, ev) = prefix_encode(*dist_code);
                c[4].put(w, s);
                if eb > 0 { w.put(ev, eb); }
            }
        }
    }
    px
}

/// a whole VP8L stream (without RIFF framing); returns the bytes and what was used
pub fn stream(rng: &mut Rng, width: u32, height: u32) -> (Vec<u8>, Feat) {
    stream_opt(rng, width, height, true)
}

/// `transforms = false`: no transform is written, so the decoder's output is the entropy-coded
/// image itself (what the op-level model of the pixel loop computes)
pub fn stream_opt(rng: &mut Rng, width: u32, height: u32, transforms: bool) -> (Vec<u8>, Feat) {
    let mut f = Feat::default();
    let mut w = BitW::new();
    w.header(width, height, rng.chance(1, 2));
    let mut xs = width;
    let mut kinds: Vec<u8> = vec![0, 1, 2, 3];
    for i in (1..4).rev() { kinds.swap(i, rng.below(i as u64 + 1) as usize); }
    let count = if !transforms { 0 } else { match rng.below(4) { 0 => 0, 1 => 1, _ => rng.below(5) as usize } };
    let mut dom = Domain::Any;
    for &k in kinds.iter().take(count) {
        w.put(1, 1);
        w.put(u64::from(k), 2);
        f.transforms.push(k);
        match k {
            0 | 1 => {
                let sb = 2 + rng.below(8) as u32;
                w.put(u64::from(sb - 2), 3);
                let (bw, bh) = ((xs + (1 << sb) - 1) >> sb, (height + (1 << sb) - 1) >> sb);
                entropy_image(rng, &mut w, bw, bh, false, if k == 0 { Domain::Modes } else { Domain::Any }, &mut f);
            }
            2 => {}
            _ => {
                let ncol = *rng.pick(&[1u32, 2, 3, 4, 5, 15, 16, 17, 100, 255, 256]);
                w.put(u64::from(ncol - 1), 8);
                entropy_image(rng, &mut w, ncol, 1, false, Domain::Any, &mut f);
                let per = if ncol <= 2 { 8 } else if ncol <= 4 { 4 } else if ncol <= 16 { 2 } else { 1 };
                xs = (xs + per - 1) / per;
                dom = Domain::Indices(ncol, per);
            }
        }
    }
    w.put(0, 1);
    entropy_image(rng, &mut w, xs, height, true, dom, &mut f);
    w.put(0, 64);
    (w.finish(), f)
}

/// one serialised prefix code for an alphabet (random used set, simple or normal, with run-length
/// tokens / `max_symbol` as the generator likes), followed by random bits: (bytes, lengths)
pub fn serialised_code(rng: &mut Rng, alphabet: usize) -> (Vec<u8>, Vec<u8>) {
    let mut f = Feat::default();
    let nused = match rng.below(4) { 0 => 1, 1 => 2, 2 => 1 + rng.below(alphabet.min(40) as u64) as usize, _ => 1 + rng.below(alphabet as u64) as usize };
    let mut used = vec![false; alphabet];
    for _ in 0..nused { let s = rng.below(alphabet as u64) as usize; used[s] = true; }
    let c = choose_code(rng, &used, alphabet, &mut f);
    let mut w = BitW::new();
    write_code(rng, &mut w, &c, &mut f);
    for _ in 0..rng.below(40) { w.put(rng.below(2), 1); }
    (w.finish(), c.lengths.clone())
}
