//! C09: `WebPEncoder::encode` container output against `EncContainer.encode` (byte-exact, and
//! the sequence of write_all calls), plus the property's own clauses checked on the real bytes:
//! RIFF size, crate decoder and libwebp demuxer return every payload, flags/canvas, determinism.
use crate::common::*;
use crate::oracle;
use image_webp::{ColorType, EncoderParams, WebPDecoder, WebPEncoder};
use serde_json::json;
use std::io::{Cursor, Write};

struct RecSink {
    bytes: Vec<u8>,
    writes: Vec<usize>,
}
impl Write for RecSink {
    fn write(&mut self, b: &[u8]) -> std::io::Result<usize> {
        self.bytes.extend_from_slice(b);
        self.writes.push(b.len());
        Ok(b.len())
    }
    fn flush(&mut self) -> std::io::Result<()> {
        Ok(())
    }
}

/// a socket-like sink: accepts at most `limit` bytes per call and gathers the buffers of a vectored
/// write (so a write may stop in the middle of any buffer)
struct PacketSink {
    bytes: Vec<u8>,
    limit: usize,
}
impl Write for PacketSink {
    fn write(&mut self, b: &[u8]) -> std::io::Result<usize> {
        let n = b.len().min(self.limit);
        self.bytes.extend_from_slice(&b[..n]);
        Ok(n)
    }
    fn write_vectored(&mut self, bufs: &[std::io::IoSlice<'_>]) -> std::io::Result<usize> {
        let mut left = self.limit;
        let mut n = 0;
        for b in bufs {
            let k = b.len().min(left);
            self.bytes.extend_from_slice(&b[..k]);
            left -= k;
            n += k;
            if left == 0 { break; }
        }
        Ok(n)
    }
    fn flush(&mut self) -> std::io::Result<()> {
        Ok(())
    }
}

pub fn encode_packets(data: &[u8], w: u32, h: u32, color: ColorType, pred: bool, icc: &[u8], exif: &[u8], xmp: &[u8], limit: usize) -> Result<Vec<u8>, String> {
    let mut sink = PacketSink { bytes: vec![], limit };
    let r = catch(|| {
        let mut e = WebPEncoder::new(&mut sink);
        let mut p = EncoderParams::default();
        p.use_predictor_transform = pred;
        e.set_params(p);
        e.set_icc_profile(icc.to_vec());
        e.set_exif_metadata(exif.to_vec());
        e.set_xmp_metadata(xmp.to_vec());
        e.encode(data, w, h, color).map_err(|e| format!("{e:?}"))
    });
    match r {
        Ok(Ok(())) => Ok(sink.bytes),
        Ok(Err(e)) => Err(e),
        Err(m) => Err(format!("PANIC {m}")),
    }
}

pub fn color_of(i: u64) -> (ColorType, usize, bool, &'static str) {
    match i % 4 {
        0 => (ColorType::L8, 1, false, "L8"),
        1 => (ColorType::La8, 2, true, "La8"),
        2 => (ColorType::Rgb8, 3, false, "Rgb8"),
        _ => (ColorType::Rgba8, 4, true, "Rgba8"),
    }
}

pub fn encode_real(data: &[u8], w: u32, h: u32, color: ColorType, pred: bool, icc: &[u8], exif: &[u8], xmp: &[u8]) -> Result<(Vec<u8>, Vec<usize>), String> {
    let mut sink = RecSink { bytes: vec![], writes: vec![] };
    let r = catch(|| {
        let mut e = WebPEncoder::new(&mut sink);
        let mut p = EncoderParams::default();
        p.use_predictor_transform = pred;
        e.set_params(p);
        // set_* with an empty vector = not supplied (what the encoder documents by `is_empty`)
        e.set_icc_profile(icc.to_vec());
        e.set_exif_metadata(exif.to_vec());
        e.set_xmp_metadata(xmp.to_vec());
        e.encode(data, w, h, color).map_err(|e| format!("{e:?}"))
    });
    match r {
        Ok(Ok(())) => Ok((sink.bytes, sink.writes)),
        Ok(Err(e)) => Err(e),
        Err(m) => Err(format!("PANIC {m}")),
    }
}

/// the same encode after a history of setter calls: every payload is first set to something else
/// (non-empty junk, or the final value of another slot), in an order chosen by `hist`, then to its
/// final value (possibly empty = withdrawn)
pub fn encode_history(data: &[u8], w: u32, h: u32, color: ColorType, pred: bool, icc: &[u8], exif: &[u8], xmp: &[u8], hist: u64) -> Result<Vec<u8>, String> {
    let mut sink = RecSink { bytes: vec![], writes: vec![] };
    let r = catch(|| {
        let mut e = WebPEncoder::new(&mut sink);
        let junk = |k: u64| -> Vec<u8> { (0..(1 + (hist >> k) % 5)).map(|i| (i as u8).wrapping_mul(37).wrapping_add(k as u8)).collect() };
        for step in 0..3u64 {
            match (hist + step) % 3 {
                0 => e.set_icc_profile(junk(3)),
                1 => e.set_exif_metadata(junk(5)),
                _ => e.set_xmp_metadata(junk(7)),
            }
        }
        let mut p = EncoderParams::default();
        p.use_predictor_transform = !pred;
        e.set_params(p);
        let mut p = EncoderParams::default();
        p.use_predictor_transform = pred;
        e.set_params(p);
        if hist % 2 == 0 {
            e.set_xmp_metadata(xmp.to_vec());
            e.set_exif_metadata(exif.to_vec());
            e.set_icc_profile(icc.to_vec());
        } else {
            e.set_icc_profile(icc.to_vec());
            e.set_exif_metadata(exif.to_vec());
            e.set_xmp_metadata(xmp.to_vec());
        }
        e.encode(data, w, h, color).map_err(|e| format!("{e:?}"))
    });
    match r {
        Ok(Ok(())) => Ok(sink.bytes),
        Ok(Err(e)) => Err(e),
        Err(m) => Err(format!("PANIC {m}")),
    }
}

fn one(drv: &mut Drv, rep: &mut Report, w: u32, h: u32, ci: u64, pred: bool, data: &[u8], icc: &[u8], exif: &[u8], xmp: &[u8]) {
    let (color, _bpp, alpha, cname) = color_of(ci);
    let frame = match image_webp::verif_hooks::enc_frame(data, w, h, color, pred) {
        Ok(f) => f,
        Err(e) => {
            rep.notes.push(format!("enc_frame failed: {e:?}"));
            return;
        }
    };
    let line = format!("enccontainer {w} {h} {} {} {} {} {}", alpha as u8, hex(&frame), hex(icc), hex(exif), hex(xmp));
    let case = format!("encode {w} {h} {cname} pred={} data={} icc={} exif={} xmp={}", pred as u8, hex(data), hex(icc), hex(exif), hex(xmp));
    rep.case(&case, !(icc.is_empty() && exif.is_empty() && xmp.is_empty()));
    rep.hit(&format!("meta_icc{}_exif{}_xmp{}", !icc.is_empty() as u8, !exif.is_empty() as u8, !xmp.is_empty() as u8));
    rep.hit(&format!("color_{cname}"));
    let (bytes, writes) = match encode_real(data, w, h, color, pred, icc, exif, xmp) {
        Ok(x) => x,
        Err(e) => {
            rep.disagree(Disagreement { case, got: e, expected: "Ok".into(), class: "violation", obligation: "C09/C04: encode succeeds for legal dimensions".into(), detail: String::new() });
            return;
        }
    };
    rep.oracle_checks += 1;
    let mut fail = |what: &str, got: String, exp: String, class: &'static str| {
        rep.disagree(Disagreement { case: case.clone(), got, expected: exp, class, obligation: what.to_string(), detail: format!("file {}", hex(&bytes)) });
    };
    // tie 2
    let reply = drv.ask(&line);
    let mut parts = reply.split(' ');
    let mdig = parts.next().unwrap_or("");
    let mwrites = parts.next().unwrap_or("").trim_start_matches("writes=");
    let mdemux = parts.next().unwrap_or("");
    let idig = format!("{}/{}", fnv_bytes(FNV_INIT, &bytes), bytes.len());
    if idig != mdig {
        fail("tie2: WebPEncoder::encode bytes = EncContainer.encode (C09.demux_encode is about the latter)", idig.clone(), mdig.to_string(), "violation");
        return;
    }
    // the model folds the four writes into the local vp8x Vec out of the sink's sequence
    if join(&writes) != mwrites {
        fail("tie2: sequence of write_all calls = EncContainer.encodeWrites", join(&writes), mwrites.to_string(), "correspondence");
    }
    if !mdemux.starts_with("demux=ok") {
        fail("model output rejected by the container grammar Riff.demux", mdemux.to_string(), "demux=ok".into(), "violation");
    }
    // the property's clauses on the real bytes
    let riff = u32::from_le_bytes(bytes[4..8].try_into().unwrap()) as usize;
    if riff + 8 != bytes.len() {
        fail("C09: RIFF size = file length - 8", riff.to_string(), (bytes.len() - 8).to_string(), "violation");
    }
    if bytes.len() % 2 != 0 {
        fail("C09: chunks even-padded", bytes.len().to_string(), "even".into(), "violation");
    }
    // determinism
    if let Ok((b2, _)) = encode_real(data, w, h, color, pred, icc, exif, xmp) {
        if b2 != bytes {
            fail("C09: output is a deterministic function of the arguments", "second encode differs".into(), "identical".into(), "violation");
        }
    }
    // ... of the arguments in force at encode time: payloads that were set earlier and then replaced
    // or withdrawn (set to empty) leave no trace
    for hist in [(bytes.len() as u64) % 7, 3 + (w as u64 + h as u64) % 11] {
        match encode_history(data, w, h, color, pred, icc, exif, xmp, hist) {
            Ok(b3) if b3 == bytes => {}
            Ok(b3) => fail("C09: the bytes written are a function of the arguments in force at encode time (metadata set earlier and then replaced or withdrawn leaves no trace)", format!("{} bytes, VP8X flags {:?}", b3.len(), if b3.len() > 20 && &b3[12..16] == b"VP8X" { Some(b3[20]) } else { None }), format!("{} bytes identical to the direct encode", bytes.len()), "violation"),
            Err(e) => fail("C09: encode after a history of setter calls succeeds", e, "Ok".into(), "violation"),
        }
    }
    // ... and of nothing else: a sink that takes a few bytes per call and gathers vectored writes
    // (stopping in the middle of a header, a payload or before a padding byte) receives the same bytes
    for limit in [1usize, 5, 7, 1 + bytes.len() / 3] {
        match encode_packets(data, w, h, color, pred, icc, exif, xmp, limit) {
            Ok(b4) if b4 == bytes => {}
            Ok(b4) => {
                let k = b4.iter().zip(bytes.iter()).position(|(a, b)| a != b).unwrap_or(b4.len().min(bytes.len()));
                fail("C09: the bytes written do not depend on how the sink accepts them (short and gathered writes)", format!("{} bytes, first difference at offset {k} (sink limit {limit})", b4.len()), format!("{} bytes identical to the direct encode", bytes.len()), "violation")
            }
            Err(e) => fail("C09: encode into a short-writing sink succeeds", e, "Ok".into(), "violation"),
        }
    }
    // crate decoder
    let opt = |v: &[u8]| if v.is_empty() { None } else { Some(v.to_vec()) };
    match catch(|| {
        let mut d = WebPDecoder::new(Cursor::new(bytes.clone())).map_err(|e| format!("{e:?}"))?;
        let r = (d.dimensions(), d.icc_profile().map_err(|e| format!("{e:?}"))?, d.exif_metadata().map_err(|e| format!("{e:?}"))?, d.xmp_metadata().map_err(|e| format!("{e:?}"))?);
        Ok::<_, String>(r)
    }) {
        Ok(Ok((dims, i, e, x))) => {
            if dims != (w, h) || i != opt(icc) || e != opt(exif) || x != opt(xmp) {
                fail("C09: this crate's decoder returns each supplied payload byte for byte", format!("{dims:?} icc={:?} exif={:?} xmp={:?}", i.map(|v| v.len()), e.map(|v| v.len()), x.map(|v| v.len())), "the supplied payloads".into(), "violation");
            }
        }
        Ok(Err(e)) => fail("C09: this crate's decoder opens the encoder's output", e, "Ok".into(), "violation"),
        Err(m) => fail("C09: this crate's decoder opens the encoder's output", format!("PANIC {m}"), "Ok".into(), "violation"),
    }
    // libwebp demuxer
    match oracle::demux(&bytes) {
        None => fail("C09: libwebp's demuxer accepts the file", "rejected".into(), "accepted".into(), "violation"),
        Some(di) => {
            let has_meta = !(icc.is_empty() && exif.is_empty() && xmp.is_empty());
            let exp_flags = if has_meta { (if !xmp.is_empty() { 4 } else { 0 }) | (if !exif.is_empty() { 8 } else { 0 }) | (if alpha { 16 } else { 0 }) | (if !icc.is_empty() { 32 } else { 0 }) } else { di.flags };
            if (di.canvas_w, di.canvas_h) != (w, h) || di.icc != opt(icc) || di.exif != opt(exif) || di.xmp != opt(xmp) || (has_meta && di.flags != exp_flags) {
                fail("C09: libwebp's demuxer returns canvas, flags and each payload", format!("{di:?}"), format!("canvas {w}x{h} flags {exp_flags}"), "violation");
            }
        }
    }
}

pub fn run(o: &Opts) -> Report {
    let mut rep = Report::new("C09");
    let mut drv = Drv::spawn(&o.drv);
    if let Some(case) = &o.replay {
        // `encode <w> <h> <color> pred=<b> data=<hex> icc=<hex> exif=<hex> xmp=<hex>`
        let p: Vec<&str> = case.split_whitespace().collect();
        let ci = ["L8", "La8", "Rgb8", "Rgba8"].iter().position(|c| *c == p[3]).unwrap_or(3) as u64;
        let f = |s: &str| unhex(s.split_once('=').unwrap().1);
        one(&mut drv, &mut rep, p[1].parse().unwrap(), p[2].parse().unwrap(), ci, p[4] == "pred=1", &f(p[5]), &f(p[6]), &f(p[7]), &f(p[8]));
        return rep;
    }
    rep.rule = "all 8 subsets of {ICC, EXIF, XMP} x payload lengths {1,2,3,10,255,256 (+65537 thorough)} x 4 colour types x predictor on/off x random images (small squares, and thin images with one side in {255,256,257,300,511,512,1000,4096,16383,16384}): real WebPEncoder::encode bytes and write_all sequence vs EncContainer.encode (on the VP8L payload from the encode_frame hook), RIFF size, even padding, determinism, crate decoder and libwebp WebPDemux returning every payload. distinct_nontrivial = distinct cases carrying at least one metadata payload".into();
    let mut rng = Rng::new(o.seed ^ 0xC09);
    let mut lens: Vec<usize> = vec![1, 2, 3, 10, 255, 256];
    if o.thorough() {
        lens.push(65537);
    }
    let reps = if o.thorough() { 6 } else { 2 };
    let mut n = 0u64;
    for subset in 0..8u32 {
        for &len in &lens {
            for r in 0..reps {
                for ci in 0..4u64 {
                    let (_, bpp, _, _) = color_of(ci);
                    // sizes: small squares, and long thin images reaching every byte of the 24-bit
                    // canvas fields (255/256/257, 4096, 16383, 16384) in either dimension
                    let big = *rng.pick(&[255u32, 256, 257, 300, 511, 512, 1000, 4096, 16383, 16384]);
                    let (w, h) = match n % 4 {
                        0 => (rng.range(1, 9) as u32, rng.range(1, 9) as u32),
                        1 => (big, rng.range(1, 2) as u32),
                        2 => (rng.range(1, 2) as u32, big),
                        _ => (rng.range(1, 40) as u32, rng.range(1, 40) as u32),
                    };
                    let data = rng.bytes((w * h) as usize * bpp);
                    let mk = |rng: &mut Rng, on: bool, l: usize| if on { rng.bytes(l) } else { vec![] };
                    let icc = mk(&mut rng, subset & 1 != 0, len);
                    let exif = mk(&mut rng, subset & 2 != 0, if r % 2 == 0 { len } else { len + 1 });
                    let xmp = mk(&mut rng, subset & 4 != 0, len);
                    if n < 2 {
                        rep.sample(json!({"w": w, "h": h, "color": color_of(ci).3, "icc_len": icc.len(), "exif_len": exif.len(), "xmp_len": xmp.len()}));
                    }
                    n += 1;
                    one(&mut drv, &mut rep, w, h, ci, r % 2 == 0, &data, &icc, &exif, &xmp);
                }
            }
        }
    }
    rep
}
