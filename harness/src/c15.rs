//! C15: the boolean entropy decoder (`ArithmeticDecoder`) against the Lean model `Arith.*`
//! (tie 2: every value and every `check` outcome, also after exhaustion) and against the
//! RFC 6386 section 7.3 decoder `BoolDec.*` (values until exhaustion; exhaustion at the same
//! request).  Exhaustive over all byte strings of length 0..2 (quick) / 0..3 (thorough).
use crate::common::*;
use image_webp::verif_hooks as hk;
use serde_json::json;

#[derive(Clone, Debug)]
enum Tok {
    Bool(u8),
    Flag,
    Lit(u8),
    Signed(u8),
    Tree(u8),
    /// tree shape (0..4) with caller-supplied probabilities
    TreeP(u8, Vec<u8>),
}

fn parse_prog(s: &str) -> Vec<Tok> {
    if s == "-" {
        return vec![];
    }
    s.split(',')
        .map(|t| {
            if let Some(rest) = t.strip_prefix('T') {
                let (k, ps) = rest.split_once(':').unwrap_or((rest, ""));
                return Tok::TreeP(k.parse().unwrap_or(0), ps.split('.').filter_map(|x| x.parse().ok()).collect());
            }
            let (k, n) = t.split_at(1);
            let n: u32 = n.parse().unwrap_or(0);
            match k {
                "b" => Tok::Bool(n as u8),
                "f" => Tok::Flag,
                "l" => Tok::Lit(n as u8),
                "s" => Tok::Signed(n as u8),
                _ => Tok::Tree(n as u8),
            }
        })
        .collect()
}
fn show_prog(p: &[Tok]) -> String {
    if p.is_empty() {
        return "-".into();
    }
    p.iter()
        .map(|t| match t {
            Tok::Bool(p) => format!("b{p}"),
            Tok::Flag => "f".into(),
            Tok::Lit(n) => format!("l{n}"),
            Tok::Signed(n) => format!("s{n}"),
            Tok::Tree(k) => format!("t{k}"),
            Tok::TreeP(k, ps) => format!("T{k}:{}", ps.iter().map(|p| p.to_string()).collect::<Vec<_>>().join(".")),
        })
        .collect::<Vec<_>>()
        .join(",")
}

/// run the real decoder; same text format as the driver's `showRun`
fn impl_run(data: Option<&[u8]>, prog: &[Tok]) -> String {
    let r = catch(|| {
        let mut d = match data {
            Some(b) => match hk::Arith::new(b) {
                Ok(d) => d,
                Err(e) => return format!("INITERR {e:?}"),
            },
            None => hk::Arith::uninit(),
        };
        let mut out = Vec::new();
        for t in prog {
            let v: i64 = match t {
                Tok::Bool(p) => d.read_bool(*p) as i64,
                Tok::Flag => d.read_flag() as i64,
                Tok::Lit(n) => d.read_literal(*n) as i64,
                Tok::Signed(n) => d.read_optional_signed_value(*n) as i64,
                Tok::Tree(k) => d.read_tree(*k) as i64,
                Tok::TreeP(k, ps) => d.read_tree_with_probs(*k, ps) as i64,
            };
            out.push(format!("{v}{}", if d.past_eof() { "!" } else { "" }));
        }
        if out.is_empty() {
            "-".to_string()
        } else {
            out.join(",")
        }
    });
    match r {
        Ok(s) => s,
        Err(m) => format!("PANIC {m}"),
    }
}

/// values agree until the first request after which either side reports exhaustion, where the
/// flags must agree
fn agree_until_exhausted(a: &str, b: &str) -> bool {
    if a == b {
        return true;
    }
    let xs: Vec<&str> = a.split(',').collect();
    let ys: Vec<&str> = b.split(',').collect();
    if xs.len() != ys.len() {
        return false;
    }
    for (x, y) in xs.iter().zip(ys.iter()) {
        let (ex, ey) = (x.ends_with('!'), y.ends_with('!'));
        if ex || ey {
            return ex == ey;
        }
        if x != y {
            return false;
        }
    }
    true
}

fn fixed_programs() -> Vec<Vec<Tok>> {
    let rep = |t: Tok, n: usize| vec![t.clone(); n];
    let mut v = vec![
        rep(Tok::Flag, 44),
        rep(Tok::Bool(1), 44),
        rep(Tok::Bool(255), 60),
        rep(Tok::Bool(128), 44),
        rep(Tok::Bool(0), 44),
        rep(Tok::Lit(8), 6),
        parse_prog("f,b10,b250,l1,l3,l8,l8,l8,l8,l8"),
        parse_prog("s4,s7,s6,s4,s7,s6,s4,s7"),
        rep(Tok::Tree(0), 14),
        rep(Tok::Tree(3), 12),
        parse_prog("t1,t2,t1,t2,t1,t2,t1,t2,t1,t2,t1,t2,t1,t2,t1,t2"),
        parse_prog("l7,l0,l1,l2,l3,l4,l5,l6,l7,l8,b200,b30,f"),
    ];
    // tree reads whose branches all have extreme probabilities: a single request can shift in more
    // than 24 bits, i.e. refill twice (chunk then trailing bytes)
    v.push(rep(Tok::TreeP(4, vec![1; 11]), 8));
    v.push(rep(Tok::TreeP(4, vec![255; 11]), 8));
    v.push(rep(Tok::TreeP(3, vec![1, 255, 1, 255, 1, 255, 1, 255, 1]), 8));
    v.push(parse_prog("b37,b219,b64,b192,b5,b251,b100,b156,b37,b219,b64,b192,b5,b251,b100,b156,b37,b219,b64,b192,b5,b251,b100,b156,b37,b219,b64,b192,b5,b251,b100,b156,b37,b219,b64,b192,b5,b251,b100,b156"));
    v
}

fn random_prog(rng: &mut Rng, len: usize) -> Vec<Tok> {
    (0..len)
        .map(|_| match rng.below(10) {
            0..=3 => { let r = [rng.byte(), rng.byte(), rng.byte()]; Tok::Bool(*rng.pick(&[0u8, 1, 2, 127, 128, 129, 254, 255, r[0], r[1], r[2]])) }
            4 => Tok::Flag,
            5 | 6 => Tok::Lit(rng.below(9) as u8),
            7 => Tok::Signed(rng.range(1, 7) as u8),
            8 => Tok::Tree(rng.below(4) as u8),
            _ => {
                let k = rng.below(5) as u8;
                let style = rng.below(4);
                let ps: Vec<u8> = (0..11).map(|_| match style { 0 => 1, 1 => 255, 2 => *rng.pick(&[0u8, 1, 2, 254, 255]), _ => rng.byte() }).collect();
                Tok::TreeP(k, ps)
            }
        })
        .collect()
}

struct Judge<'a> {
    rep: &'a mut Report,
}
impl Judge<'_> {
    fn one(&mut self, data: Option<&[u8]>, prog: &[Tok], reply: &str) {
        let line = format!("arith {} {}", data.map(hex).unwrap_or("uninit".into()), show_prog(prog));
        let got = impl_run(data, prog);
        let (m, s) = match reply.strip_prefix("M=").and_then(|r| r.split_once(" S=")) {
            Some(x) => x,
            None => {
                self.rep.disagree(Disagreement { case: line, got, expected: reply.into(), class: "correspondence", obligation: "driver reply".into(), detail: "unparsable driver reply".into() });
                return;
            }
        };
        let exhausted = got.contains('!');
        self.rep.case(&line, !prog.is_empty());
        self.rep.hit(if exhausted { "runs_reaching_exhaustion" } else { "runs_within_data" });
        let leading_ff = data.map(|d| d.first() == Some(&0xff)).unwrap_or(false);
        if got.starts_with("PANIC") {
            self.rep.disagree(Disagreement { case: line, got, expected: m.into(), class: "violation", obligation: "C15/C03: no request sequence panics (register invariant theorems)".into(), detail: "panic in ArithmeticDecoder".into() });
            return;
        }
        if data.is_some() && !agree_until_exhausted(&got, s) {
            if leading_ff && got == m {
                // documented non-normative corner (DESIGN C15): leading 0xFF, register overflow
                self.rep.hit("leading_ff_register_width_corner");
            } else {
                self.rep.disagree(Disagreement {
                    case: line,
                    got,
                    expected: s.into(),
                    class: "violation",
                    obligation: "C15: values equal the RFC 6386 section 7.3 decoder until exhaustion; exhaustion reported at the same request (BoolDec.run)".into(),
                    detail: format!("model answered {m}"),
                });
                return;
            }
        }
        if got != m {
            self.rep.disagree(Disagreement {
                case: line,
                got,
                expected: m.into(),
                class: "correspondence",
                obligation: "tie2: ArithmeticDecoder = Arith.run (every value and check outcome, also after exhaustion)".into(),
                detail: "differs from the model only where the RFC comparison does not apply (after exhaustion, or uninitialised decoder)".into(),
            });
        }
    }
}

pub fn run(o: &Opts) -> Report {
    let mut rep = Report::new("C15");
    if let Some(case) = &o.replay {
        let p: Vec<&str> = case.split_whitespace().collect();
        let data = if p[1] == "uninit" { None } else { Some(unhex(p[1])) };
        let prog = parse_prog(p[2]);
        let reply = Drv::spawn(&o.drv).ask(case);
        Judge { rep: &mut rep }.one(data.as_deref(), &prog, &reply);
        return rep;
    }
    rep.rule = "byte strings: ALL of length 0..2 (quick) / 0..3 (thorough, digest per first byte) x 16 fixed request programs (incl. tree reads with all-extreme probabilities, which refill twice within one request) crossing every chunk/tail boundary and running into exhaustion; random strings of length 3..70 x random programs (bools with any probability incl. 0,1,128,255, flags, literals 0..8 bits, optional signed, the crate's five tree shapes with their own or random/extreme probabilities); every run compared with the Lean model of the code (all values + check outcome) and with the RFC 6386 decoder (values until exhaustion + exhaustion point). distinct_nontrivial = distinct (data, program) pairs with a non-empty program".into();
    let progs = fixed_programs();
    let mut cases: Vec<(Option<Vec<u8>>, Vec<Tok>)> = Vec::new();
    // exhaustive: lengths 0, 1, 2
    let mut strings: Vec<Vec<u8>> = vec![vec![]];
    for a in 0..=255u8 {
        strings.push(vec![a]);
    }
    for a in 0..=255u8 {
        for b in 0..=255u8 {
            strings.push(vec![a, b]);
        }
    }
    for s in &strings {
        for p in &progs {
            cases.push((Some(s.clone()), p.clone()));
        }
    }
    rep.hit_n("exhaustive_strings_len_0_to_2", strings.len() as u64);
    cases.push((None, parse_prog("f")));
    cases.push((None, parse_prog("l8,t0,b3,s4")));
    // corner recorded in DESIGN (leading 0xFF, register overflow after the third chunk)
    cases.push((Some(unhex("ff000000ffffff8100000000000000000000")), vec![Tok::Flag; 64]));
    // all-zero / all-one strings of every length 3..12 against the extreme-probability tree programs
    for len in 3..=12usize {
        for fill in [0x00u8, 0xff, 0x80] {
            for pi in 13..16 {
                let mut d = vec![fill; len];
                d[0] = 0;
                cases.push((Some(d.clone()), progs[pi].clone()));
                for k in 4..len { let mut e = vec![0u8; len]; for b in e.iter_mut().skip(k) { *b = 0xff; } cases.push((Some(e), progs[pi].clone())); }
            }
        }
    }
    // random
    let mut rng = Rng::new(o.seed);
    let n = if o.thorough() { 400_000 } else { 60_000 };
    for i in 0..n {
        let len = match i % 4 {
            0 => rng.range(3, 9),
            1 => rng.range(3, 20),
            _ => rng.range(3, 70),
        } as usize;
        let mut data = rng.bytes(len);
        if rng.chance(1, 20) {
            data[0] = 0xff;
        }
        if rng.chance(1, 10) {
            for b in data.iter_mut() {
                if rng.chance(1, 2) {
                    *b = *rng.pick(&[0u8, 0xff, 0x80, 0x7f]);
                }
            }
        }
        // program long enough to cross several chunk loads and often the end of the data
        let plen = rng.range(1, (len as u64) * 6 + 10) as usize;
        let prog = random_prog(&mut rng, plen);
        rep.hit(&format!("random_len_mod4_{}", len % 4));
        cases.push((Some(data), prog));
    }
    let lines: Vec<String> = cases
        .iter()
        .map(|(d, p)| format!("arith {} {}", d.as_deref().map(hex).unwrap_or("uninit".into()), show_prog(p)))
        .collect();
    let replies = ask_parallel(&o.drv, &lines, o.jobs);
    {
        let mut j = Judge { rep: &mut rep };
        for (i, (d, p)) in cases.iter().enumerate() {
            j.one(d.as_deref(), p, &replies[i]);
        }
    }
    for i in [300usize, 70000, lines.len() - 1] {
        if i < lines.len() {
            rep.sample(json!({"request": lines[i], "reply": replies[i]}));
        }
    }
    rep.exhaustive = true;
    rep.exhaustive_note = "all byte strings of length 0..2 x 16 fixed programs".into();

    if o.thorough() {
        // length 3 exhaustive, digest per first byte, for a subset of the fixed programs
        let sel = [0usize, 2, 6, 7, 9, 13, 15];
        let mut blines = Vec::new();
        for &pi in &sel {
            for b0 in 0..256 {
                blines.push(format!("arithblock {b0} {}", show_prog(&progs[pi])));
            }
        }
        let model = ask_parallel(&o.drv, &blines, o.jobs);
        let mut imp = vec![String::new(); blines.len()];
        std::thread::scope(|sc| {
            let progs = &progs;
            let hs: Vec<_> = (0..blines.len())
                .map(|k| {
                    sc.spawn(move || {
                        let pi = sel[k / 256];
                        let b0 = (k % 256) as u8;
                        let mut h = FNV_INIT;
                        for b1 in 0..=255u8 {
                            for b2 in 0..=255u8 {
                                h = fnv_bytes(h, impl_run(Some(&[b0, b1, b2]), &progs[pi]).as_bytes());
                            }
                        }
                        h.to_string()
                    })
                })
                .collect();
            for (k, h) in hs.into_iter().enumerate() {
                imp[k] = h.join().unwrap();
            }
        });
        rep.evaluations += (blines.len() as u64) * 65536;
        rep.distinct_extra += (blines.len() as u64) * 65536;
        rep.exhaustive_note = "all byte strings of length 0..2 x 13 fixed programs; all of length 3 x 6 programs (digest per first byte)".into();
        for k in 0..blines.len() {
            let (md, sdiff) = model[k].split_once(' ').unwrap_or(("?", "?"));
            let b0 = k % 256;
            if sdiff != "0" && b0 != 255 {
                rep.disagree(Disagreement { case: blines[k].clone(), got: format!("{sdiff} strings"), expected: "0".into(), class: "correspondence", obligation: "model vs RFC specification on length-3 strings (validation of the model; not about the code)".into(), detail: "Arith.run and BoolDec.run differ before exhaustion".into() });
            }
            if md != imp[k] {
                // expand
                let pi = sel[k / 256];
                let mut drv = Drv::spawn(&o.drv);
                let mut found = false;
                'o: for b1 in 0..=255u8 {
                    for b2 in 0..=255u8 {
                        let d = [b0 as u8, b1, b2];
                        let line = format!("arith {} {}", hex(&d), show_prog(&progs[pi]));
                        let reply = drv.ask(&line);
                        let before = rep.n_disagreements;
                        Judge { rep: &mut rep }.one(Some(&d), &progs[pi], &reply);
                        if rep.n_disagreements > before {
                            found = true;
                            break 'o;
                        }
                    }
                }
                if !found {
                    rep.disagree(Disagreement { case: blines[k].clone(), got: imp[k].clone(), expected: md.into(), class: "correspondence", obligation: "tie2 digest (length-3 block)".into(), detail: String::new() });
                }
                if rep.n_disagreements > 5 {
                    break;
                }
            }
        }
    }
    rep
}
