//! C06: animation compositing.  Two levels of tie 2:
//!  (a) `extended::composite_frame` through its hook against `Anim.compositeFrame`, on canvases
//!      up to 6x6 with every flag combination and rectangle position (geometry read_frame allows);
//!  (b) whole files through `WebPDecoder::read_frame` against `Anim.run` (state machine + canvas
//!      fold), frames VP8L / VP8 / ALPH+VP8, with the frame pixels the crate itself decodes.
//! Oracle leg: libwebp's WebPAnimDecoder on binary-alpha, transparent-background animations.
use crate::animgen::*;
use crate::common::*;
use crate::oracle;
use image_webp::verif_hooks as hk;
use image_webp::WebPDecoder;
use serde_json::json;
use std::io::Cursor;

pub const KF_OPAQUE: &str = "KF-C06-opaque-blend";

#[allow(clippy::too_many_arguments)]
fn composite_case(drv: &mut Drv, rep: &mut Report, line_in: Option<&str>, cw: u32, ch: u32, clear: Option<[u8; 4]>, fr: (u32, u32, u32, u32), ha: bool, bl: bool, prev: (u32, u32, u32, u32), canvas: &[u8], frame: &[u8]) {
    let line = match line_in {
        Some(l) => l.to_string(),
        None => format!(
            "composite {cw} {ch} {} {} {} {} {} {} {} {} {} {} {} {} {}",
            clear.map(|c| hex(&c)).unwrap_or("-".into()),
            fr.0, fr.1, fr.2, fr.3, ha as u8, bl as u8, prev.2, prev.3, prev.0, prev.1, hex(canvas), hex(frame)
        ),
    };
    let mut c = canvas.to_vec();
    let r = catch(|| hk::composite(&mut c, cw, ch, clear, frame, fr.0, fr.1, fr.2, fr.3, ha, bl, prev.2, prev.3, prev.0, prev.1));
    let got = match r {
        Ok(()) => hex(&c),
        Err(m) => format!("PANIC {m}"),
    };
    let exp = drv.ask(&line);
    rep.case(&line, true);
    if got == exp {
        return;
    }
    // attribute to the opaque-blend finding iff the only differences are blended pixels whose
    // source alpha is 255 and whose value is the model's minus one per non-zero channel
    if !got.starts_with("PANIC") && ha && bl && exp != "none" {
        let e = unhex(&exp);
        let mut only_opaque = true;
        for (i, (a, b)) in c.chunks_exact(4).zip(e.chunks_exact(4)).enumerate() {
            if a != b {
                let (x, y) = ((i as u32) % cw, (i as u32) / cw);
                let inside = x >= fr.0 && x < fr.0 + fr.2 && y >= fr.1 && y < fr.1 + fr.3;
                let ok = inside && {
                    let fi = ((y - fr.1) * fr.2 + (x - fr.0)) as usize * 4;
                    frame[fi + 3] == 255 && (0..3).all(|k| a[k] == frame[fi + k].saturating_sub(1)) && a[3] == 255
                };
                if !ok {
                    only_opaque = false;
                    break;
                }
            }
        }
        if only_opaque {
            rep.known(KF_OPAQUE, &line, "opaque source pixels of a blended frame come out one code value lower per channel (same root cause as KF-C12-opaque)");
            return;
        }
    }
    rep.disagree(Disagreement {
        case: line,
        got,
        expected: exp,
        class: "violation",
        obligation: "tie2: composite_frame = Anim.compositeFrame (C06.composite_eq_spec: per-pixel canvas model, only the previous rectangle restored, no index out of bounds)".into(),
        detail: format!("canvas {cw}x{ch} frame {fr:?} alpha={ha} blend={bl} prev {prev:?} clear={clear:?}"),
    });
}

pub fn file_case(drv: &mut Drv, rep: &mut Report, g: &GenAnim, ops: &str, obligation: &str, check_spec: bool) {
    let line = format!("anim {} {}", g.model_desc(), ops);
    let got = run_ops(&g.file, ops, false);
    let exp = drv.ask(&line);
    rep.case(&line, g.spec.frames.len() > 1 || ops.len() > 1);
    if got == exp {
        // The model uses the code's blend function.  Where the specification with the repaired
        // blend (opaque source replaces exactly) gives another buffer, the difference is exactly
        // the modelled deviation of the opaque-blend finding (M and S differ in nothing else:
        // C07.trace_refines is parametric in the blend function).
        if check_spec && g.spec.frames.iter().any(|f| f.blend && f.payload.frame_has_alpha()) {
            let spec = drv.ask(&format!("animspec {} {}", g.model_desc(), ops));
            if spec != exp {
                rep.known(KF_OPAQUE, &format!("file {}", hex(&g.file)), "a blended frame with opaque pixels: those pixels are delivered one code value lower per non-zero channel than the frame's own (root cause KF-C12-opaque)");
            }
        }
        return;
    }
    // full buffers for the detail / known-finding attribution
    let gotf = run_ops(&g.file, ops, true);
    let expf = drv.ask(&format!("animfull {} {}", g.model_desc(), ops));
    // known finding: differences only where the repaired-blend model (animspec uses the repaired
    // blend) ... the code's blend is the pinned one, which the model `anim` already uses; so any
    // difference here is not the opaque finding.
    let (gi, ei): (Vec<&str>, Vec<&str>) = (gotf.split(' ').collect(), expf.split(' ').collect());
    let k = gi.iter().zip(ei.iter()).position(|(a, b)| a != b).unwrap_or(0);
    rep.disagree(Disagreement {
        case: format!("animfile {} {} | {}", hex(&g.file), ops, line),
        got: gi.get(k).map(|s| short(s)).unwrap_or_default(),
        expected: ei.get(k).map(|s| short(s)).unwrap_or_default(),
        class: "violation",
        obligation: obligation.into(),
        detail: format!("first differing call: #{k} of ops `{ops}`; animation {}x{} alpha_flag={} bg(file order)={} frames [{}]; file {}", g.spec.cw, g.spec.ch, g.spec.alpha_flag, hex(&g.spec.bg_file_order), g.shape(), hex(&g.file)),
    });
}

fn short(s: &str) -> String {
    if s.len() > 400 {
        format!("{}…({} chars)", &s[..400], s.len())
    } else {
        s.to_string()
    }
}

/// run an op string (f = read_frame, r = reset_animation, i = read_image) on the real decoder;
/// same text format as the driver's `anim` / `animfull`
pub fn run_ops(file: &[u8], ops: &str, full: bool) -> String {
    let r = catch(|| {
        let mut d = match WebPDecoder::new(Cursor::new(file.to_vec())) {
            Ok(d) => d,
            Err(e) => return format!("OPENERR:{e:?}"),
        };
        let n = d.output_buffer_size().unwrap();
        let mut outs = Vec::new();
        let mut buf = vec![0xA5u8; n];
        for op in ops.chars() {
            match op {
                'f' => {
                    let before = buf.clone();
                    match d.read_frame(&mut buf) {
                        Ok(dur) => outs.push(format!("frame:{dur}:{}", if full { hex(&buf) } else { format!("{}/{}", fnv_bytes(FNV_INIT, &buf), buf.len()) })),
                        Err(image_webp::DecodingError::NoMoreFrames) => {
                            outs.push(if buf == before { "NoMoreFrames".to_string() } else { "NoMoreFrames(buffer-modified)".to_string() })
                        }
                        Err(e) => outs.push(format!("error:{e:?}")),
                    }
                }
                'r' => {
                    d.reset_animation();
                    outs.push("ok".into());
                }
                _ => match d.read_image(&mut buf) {
                    Ok(()) => {
                        // duration is not returned by read_image; the model reports the first frame's
                        outs.push(format!("image:{}", if full { hex(&buf) } else { format!("{}/{}", fnv_bytes(FNV_INIT, &buf), buf.len()) }))
                    }
                    Err(e) => outs.push(format!("error:{e:?}")),
                },
            }
        }
        if outs.is_empty() { "-".to_string() } else { outs.join(" ") }
    });
    match r {
        Ok(s) => s,
        Err(m) => format!("PANIC {m}"),
    }
}

/// a reader that, once armed, fails exactly once: at the first `read` / `fill_buf` at or beyond
/// byte offset `at` (a transient I/O error in the middle of playback)
struct FailOnce { inner: Cursor<Vec<u8>>, at: u64, armed: std::rc::Rc<std::cell::Cell<bool>>, fired: std::rc::Rc<std::cell::Cell<bool>> }
impl FailOnce {
    fn trip(&mut self) -> std::io::Result<()> {
        if self.armed.get() && !self.fired.get() && self.inner.position() >= self.at {
            self.fired.set(true);
            return Err(std::io::Error::new(std::io::ErrorKind::TimedOut, "injected transient fault"));
        }
        Ok(())
    }
}
impl std::io::Read for FailOnce {
    fn read(&mut self, b: &mut [u8]) -> std::io::Result<usize> { self.trip()?; self.inner.read(b) }
}
impl std::io::BufRead for FailOnce {
    fn fill_buf(&mut self) -> std::io::Result<&[u8]> { self.trip()?; self.inner.fill_buf() }
    fn consume(&mut self, a: usize) { self.inner.consume(a) }
}
impl std::io::Seek for FailOnce {
    fn seek(&mut self, p: std::io::SeekFrom) -> std::io::Result<u64> { self.inner.seek(p) }
}

/// `run_ops` with one transient fault at offset `at` after the decoder is open; a call that fails
/// with the injected error is repeated and does not count: the successful calls must deliver what
/// they deliver without the fault.  Returns (outputs, did the fault fire inside a call?)
pub fn run_ops_faulty(file: &[u8], ops: &str, at: u64) -> (String, bool) { run_ops_unusual(file, ops, 0, at) }

/// ... and with the file embedded behind `prefix` foreign bytes (`at` counted from the file's start; u64::MAX = no fault)
pub fn run_ops_unusual(file: &[u8], ops: &str, prefix: usize, at: u64) -> (String, bool) {
    let armed = std::rc::Rc::new(std::cell::Cell::new(false));
    let fired = std::rc::Rc::new(std::cell::Cell::new(false));
    let (a2, f2) = (armed.clone(), fired.clone());
    let r = catch(move || {
        let mut stream: Vec<u8> = (0..prefix).map(|i| (i * 13 + 1) as u8).collect();
        stream.extend_from_slice(file);
        let mut cur = Cursor::new(stream);
        cur.set_position(prefix as u64);
        let mut d = match WebPDecoder::new(FailOnce { inner: cur, at: at.saturating_add(prefix as u64), armed: a2.clone(), fired: f2 }) {
            Ok(d) => d,
            Err(e) => return format!("OPENERR:{e:?}"),
        };
        a2.set(true);
        let n = d.output_buffer_size().unwrap();
        let mut outs = Vec::new();
        let mut buf = vec![0xA5u8; n];
        for op in ops.chars() {
            for attempt in 0..2 {
                let res = match op {
                    'f' => {
                        let before = buf.clone();
                        match d.read_frame(&mut buf) {
                            Ok(dur) => Ok(format!("frame:{dur}:{}/{}", fnv_bytes(FNV_INIT, &buf), buf.len())),
                            Err(image_webp::DecodingError::NoMoreFrames) => Ok(if buf == before { "NoMoreFrames".to_string() } else { "NoMoreFrames(buffer-modified)".to_string() }),
                            Err(e) => Err(format!("error:{e:?}")),
                        }
                    }
                    'r' => { d.reset_animation(); Ok("ok".to_string()) }
                    // a read_image call that must be rejected (buffer one byte too long): it returns an
                    // error, leaves the buffer alone and changes nothing - it contributes no output
                    'w' => {
                        let mut wrong = vec![0x77u8; n + 1];
                        match d.read_image(&mut wrong) {
                            Err(_) if wrong.iter().all(|&b| b == 0x77) => break,
                            Err(_) => Ok("rejected-read_image-modified-the-buffer".to_string()),
                            Ok(()) => Ok("wrong-length-read_image-accepted".to_string()),
                        }
                    }
                    _ => match d.read_image(&mut buf) {
                        Ok(()) => Ok(format!("image:{}/{}", fnv_bytes(FNV_INIT, &buf), buf.len())),
                        Err(e) => Err(format!("error:{e:?}")),
                    },
                };
                match res {
                    Ok(o) => { outs.push(o); break; }
                    Err(e) => if attempt == 1 || !e.contains("injected") { outs.push(e); break; },
                }
            }
        }
        if outs.is_empty() { "-".to_string() } else { outs.join(" ") }
    });
    match r {
        Ok(s) => (s, fired.get()),
        Err(m) => (format!("PANIC {m}"), fired.get()),
    }
}

pub fn run(o: &Opts) -> Report {
    let mut rep = Report::new("C06");
    let mut drv = Drv::spawn(&o.drv);
    if let Some(case) = &o.replay {
        replay(&mut drv, &mut rep, case);
        return rep;
    }
    rep.rule = "(a) composite_frame hook: canvases 1..6 x 1..6, frame and previous rectangles at random legal positions (exhaustive over geometry for canvases <= 3x3 in thorough), all combinations of has_alpha/blend/clear, random pixel content with alpha from {0,255,1,254,128,random}; (b) generated animation files (1..5 frames; VP8L, VP8, ALPH+VP8 frames; random even offsets, blend/dispose flags, durations incl. 2^24-1, background colours, container alpha flag) played with read_frame to exhaustion, every delivered buffer and duration compared with Anim.run; (c) libwebp WebPAnimDecoder on binary-alpha transparent-background animations. distinct_nontrivial = distinct cases (all composite cases; files with more than one frame)".into();
    let mut rng = Rng::new(o.seed);

    // (a) hook level
    let n_a = if o.thorough() { 60000 } else { 8000 };
    for i in 0..n_a {
        let cw = rng.range(1, 6) as u32;
        let ch = rng.range(1, 6) as u32;
        let rect = |rng: &mut Rng, allow_empty: bool| -> (u32, u32, u32, u32) {
            if allow_empty && rng.chance(1, 6) {
                return (0, 0, 0, 0);
            }
            if rng.chance(1, 4) {
                return (0, 0, cw, ch);
            }
            let x = rng.below(cw as u64) as u32;
            let y = rng.below(ch as u64) as u32;
            (x, y, rng.range(1, (cw - x) as u64) as u32, rng.range(1, (ch - y) as u64) as u32)
        };
        let fr = rect(&mut rng, false);
        let prev = rect(&mut rng, true);
        let ha = rng.chance(1, 2);
        let bl = rng.chance(1, 2);
        let clear = if rng.chance(2, 3) { Some([rng.byte(), rng.byte(), rng.byte(), *rng.pick(&[0u8, 255, 77])]) } else { None };
        let canvas = crate::webpfile::random_rgba(&mut rng, cw, ch, 3);
        let frame_rgba = crate::webpfile::random_rgba(&mut rng, fr.2, fr.3, 2);
        let frame = if ha { frame_rgba } else { crate::webpfile::drop_alpha(&frame_rgba) };
        let full = fr == (0, 0, cw, ch);
        rep.hit(&format!("composite_alpha{}_blend{}_clear{}_full{}", ha as u8, bl as u8, clear.is_some() as u8, full as u8));
        if i < 1 {
            rep.sample(json!({"composite": {"canvas": [cw, ch], "frame_rect": fr, "prev_rect": prev, "has_alpha": ha, "blend": bl, "clear": clear}}));
        }
        composite_case(&mut drv, &mut rep, None, cw, ch, clear, fr, ha, bl, prev, &canvas, &frame);
    }

    // (b) files
    let n_b = if o.thorough() { 1500 } else { 250 };
    for i in 0..n_b {
        let g = match catch(|| gen_anim(&mut rng, &GenOpts { max_canvas: if i % 10 == 0 { 24 } else { 9 }, max_frames: 5, lossy: i % 2 == 1, binary_alpha: false })) {
            Ok(Some(g)) => g,
            _ => {
                rep.hit("generator_skipped");
                continue;
            }
        };
        for f in &g.spec.frames {
            rep.hit(&format!("file_frame_{}", f.payload.kind()));
        }
        rep.hit(&format!("file_frames_{}", g.spec.frames.len()));
        let ops: String = "f".repeat(g.spec.frames.len() + 1);
        if i < 2 {
            rep.sample(json!({"animation": {"canvas": [g.spec.cw, g.spec.ch], "alpha_flag": g.spec.alpha_flag, "bg_file_order": hex(&g.spec.bg_file_order), "frames": g.shape(), "file_bytes": g.file.len()}}));
        }
        file_case(&mut drv, &mut rep, &g, &ops, "tie2: read_frame = Anim.readFrame (C06.read_frame_fold: k-th frame = canvas fold; background in B,G,R,A order; duration of that frame)", true);
        // the k-th SUCCESSFUL read_frame: one transient I/O fault inside frame k (its header, its
        // parameters, the start / middle / end of its payload), the failed call repeated
        if g.spec.frames.len() >= 2 {
            let clean = run_ops(&g.file, &ops, false);
            let mut offs: Vec<u64> = Vec::new();
            let mut p = 12usize;
            while p + 8 <= g.file.len() {
                let len = u32::from_le_bytes([g.file[p + 4], g.file[p + 5], g.file[p + 6], g.file[p + 7]]) as usize;
                if &g.file[p..p + 4] == b"ANMF" {
                    for d in [0usize, 8, 8 + 16, 8 + 16 + 8, 8 + 16 + (len.saturating_sub(16)) / 2, 8 + len.saturating_sub(1)] { offs.push((p + d) as u64); }
                }
                p += 8 + len + (len & 1);
            }
            // the animation embedded behind foreign bytes, with and without a fault
            for (prefix, at) in [(41usize, u64::MAX), (7usize, offs.get((i as usize) % offs.len().max(1)).copied().unwrap_or(u64::MAX))] {
                let (got, _) = run_ops_unusual(&g.file, &ops, prefix, at);
                rep.case(&format!("animembedded prefix={prefix} at={at} {} {}", hex(&g.file), ops), true);
                rep.hit("file_embedded_at_an_offset");
                if got != clean {
                    let (gi, ci): (Vec<&str>, Vec<&str>) = (got.split(' ').collect(), clean.split(' ').collect());
                    let j = gi.iter().zip(ci.iter()).position(|(a, b)| a != b).unwrap_or(gi.len().min(ci.len()));
                    rep.disagree(Disagreement { case: format!("animembedded prefix={prefix} at={at} {} {}", hex(&g.file), ops), got: gi.get(j).map(|s| short(s)).unwrap_or_default(), expected: ci.get(j).map(|s| short(s)).unwrap_or_default(), class: "violation", obligation: "C06: the k-th successful read_frame returns the k-th canvas of the fold - also when the file is read from a reader positioned at its first byte inside a larger stream".into(), detail: format!("{prefix} foreign bytes before the file; first differing successful call: #{j}; animation {}", g.shape()) });
                }
            }
            for k in 0..4 {
                if offs.is_empty() { break; }
                let at = if k == 0 { offs[(i as usize) % offs.len()] } else { *rng.pick(&offs) };
                let (got, fired) = run_ops_faulty(&g.file, &ops, at);
                let line = format!("animfault at={at} {} {}", hex(&g.file), ops);
                rep.case(&line, true);
                rep.hit(if fired { "file_transient_fault_fired" } else { "file_transient_fault_not_reached" });
                if got != clean {
                    let (gi, ci): (Vec<&str>, Vec<&str>) = (got.split(' ').collect(), clean.split(' ').collect());
                    let j = gi.iter().zip(ci.iter()).position(|(a, b)| a != b).unwrap_or(gi.len().min(ci.len()));
                    rep.disagree(Disagreement { case: line, got: gi.get(j).map(|s| short(s)).unwrap_or_default(), expected: ci.get(j).map(|s| short(s)).unwrap_or_default(), class: "violation", obligation: "C06: the k-th SUCCESSFUL read_frame returns the k-th canvas of the fold (a read_frame that failed with a transient I/O error and is repeated does not count and leaves no trace); the fault-free run of the same file equals Anim.readFrame".into(), detail: format!("one injected fault at file offset {at}; first differing successful call: #{j}; animation {}", g.shape()) });
                }
            }
        }
    }

    // (c) libwebp AnimDecoder oracle (validates the specification's compositing order)
    let n_c = if o.thorough() { 400 } else { 80 };
    for _ in 0..n_c {
        let mut g = match catch(|| gen_anim(&mut rng, &GenOpts { max_canvas: 8, max_frames: 4, lossy: false, binary_alpha: true })) {
            Ok(Some(g)) => g,
            _ => continue,
        };
        g.spec.alpha_flag = true;
        g.file = crate::webpfile::anim_file(&g.spec);
        let nf = g.spec.frames.len();
        let lib = match oracle::anim_decode(&g.file) {
            Some(l) => l,
            None => {
                rep.hit("oracle_rejected");
                continue;
            }
        };
        // the specification (repaired blend) against libwebp, on visible pixels: libwebp leaves
        // arbitrary colour under fully transparent pixels
        let spec = drv.ask(&format!("animspecfull {} {}", g.model_desc(), "f".repeat(nf)));
        let sv: Vec<&str> = spec.split(' ').collect();
        rep.oracle_checks += 1;
        let mut durations_ok = true;
        let mut t = 0i64;
        for (k, (ts, canvas)) in lib.iter().enumerate() {
            let Some(item) = sv.get(k) else { break };
            let mine = unhex(item.rsplit(':').next().unwrap_or("-"));
            let dur: i64 = item.split(':').nth(1).and_then(|d| d.parse().ok()).unwrap_or(-1);
            t += dur;
            if i64::from(*ts) != t {
                durations_ok = false;
            }
            let differs = mine.len() != canvas.len()
                || mine.chunks_exact(4).zip(canvas.chunks_exact(4)).any(|(a, b)| a[3] != b[3] || (a[3] != 0 && a != b));
            if differs {
                rep.hit("oracle_differs_from_spec");
                rep.disagree(Disagreement {
                    case: format!("animspecfull {} {}", g.model_desc(), "f".repeat(nf)),
                    got: format!("libwebp frame {k}: {}", hex(canvas)),
                    expected: format!("spec frame {k}: {}", hex(&mine)),
                    class: "correspondence",
                    obligation: "validation of the specification Canvas.runSpec against libwebp's WebPAnimDecoder (not about the code)".into(),
                    detail: format!("animation {} file {}", g.shape(), hex(&g.file)),
                });
                break;
            }
        }
        if !durations_ok {
            rep.hit("oracle_timestamps_differ");
        }
        rep.hit("oracle_agrees_with_spec");
    }
    rep
}

fn replay(drv: &mut Drv, rep: &mut Report, case: &str) {
    let p: Vec<&str> = case.split_whitespace().collect();
    if p[0] == "composite" {
        let n = |i: usize| p[i].parse::<u32>().unwrap();
        let clear = if p[3] == "-" { None } else { let c = unhex(p[3]); Some([c[0], c[1], c[2], c[3]]) };
        composite_case(drv, rep, Some(case), n(1), n(2), clear, (n(4), n(5), n(6), n(7)), p[8] == "1", p[9] == "1", (n(12), n(13), n(10), n(11)), &unhex(p[14]), &unhex(p[15]));
    } else if p[0] == "animfile" {
        // `animfile <filehex> <ops> | anim <model description> <ops>`
        let file = unhex(p[1]);
        let ops = p[2];
        let req = case.split(" | ").nth(1).unwrap_or("");
        let got = run_ops(&file, ops, false);
        let exp = drv.ask(req);
        rep.case(case, true);
        if got != exp {
            rep.disagree(Disagreement { case: case.to_string(), got, expected: exp, class: "violation", obligation: "tie2: read_frame/reset_animation/read_image = Anim.run".into(), detail: "replayed".into() });
        }
    } else if p[0] == "animunusual" || p[0] == "animembedded" {
        // `animunusual <what> prefix=<n> at=<n> <filehex> <ops>` / `animembedded prefix=<n> at=<n> <filehex> <ops>`
        let o = if p[0] == "animunusual" { 2 } else { 1 };
        let prefix: usize = p[o].trim_start_matches("prefix=").parse().unwrap_or(0);
        let at: u64 = p[o + 1].trim_start_matches("at=").parse().unwrap_or(u64::MAX);
        let file = unhex(p[o + 2]);
        let ops = p[o + 3];
        let clean = run_ops(&file, ops, false);
        let (got, _) = run_ops_unusual(&file, ops, prefix, at);
        rep.case(case, true);
        if got != clean {
            rep.disagree(Disagreement { case: case.to_string(), got, expected: clean, class: "violation", obligation: "C06/C07: the successful calls do not depend on where the file starts in the reader nor on an earlier failed and repeated call".into(), detail: "replayed".into() });
        }
    } else if p[0] == "animfault" {
        // `animfault at=<offset> <filehex> <ops>`
        let at: u64 = p[1].trim_start_matches("at=").parse().unwrap_or(0);
        let file = unhex(p[2]);
        let ops = p[3];
        let clean = run_ops(&file, ops, false);
        let (got, _) = run_ops_faulty(&file, ops, at);
        rep.case(case, true);
        if got != clean {
            rep.disagree(Disagreement { case: case.to_string(), got, expected: clean, class: "violation", obligation: "C06: the k-th SUCCESSFUL read_frame returns the k-th canvas of the fold (a failed and repeated read_frame does not count)".into(), detail: "replayed".into() });
        }
    }
}
