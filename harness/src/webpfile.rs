//! Container assembler: file descriptions -> bytes (RIFF, VP8X, ANIM, ANMF, metadata, unknown
//! chunks, padding), plus payload makers (VP8L via the crate's encoder, VP8 and ALPH+VP8 via
//! libwebp's encoder) and helpers to pull chunks out of libwebp's output.
#![allow(dead_code)]
use crate::common::*;
use crate::oracle;

pub fn chunk(fourcc: &[u8; 4], data: &[u8]) -> Vec<u8> {
    let mut v = fourcc.to_vec();
    v.extend_from_slice(&(data.len() as u32).to_le_bytes());
    v.extend_from_slice(data);
    if data.len() % 2 == 1 {
        v.push(0);
    }
    v
}

pub fn riff(body: &[u8]) -> Vec<u8> {
    let mut v = b"RIFF".to_vec();
    v.extend_from_slice(&((body.len() + 4) as u32).to_le_bytes());
    v.extend_from_slice(b"WEBP");
    v.extend_from_slice(body);
    v
}

pub fn u24(v: u32) -> [u8; 3] {
    [v as u8, (v >> 8) as u8, (v >> 16) as u8]
}

pub const F_ANIM: u8 = 0x02;
pub const F_XMP: u8 = 0x04;
pub const F_EXIF: u8 = 0x08;
pub const F_ALPHA: u8 = 0x10;
pub const F_ICC: u8 = 0x20;

pub fn vp8x(flags: u8, cw: u32, ch: u32) -> Vec<u8> {
    let mut d = vec![flags, 0, 0, 0];
    d.extend_from_slice(&u24(cw - 1));
    d.extend_from_slice(&u24(ch - 1));
    chunk(b"VP8X", &d)
}

pub fn anim_chunk(bg_file_order: [u8; 4], loops: u16) -> Vec<u8> {
    let mut d = bg_file_order.to_vec();
    d.extend_from_slice(&loops.to_le_bytes());
    chunk(b"ANIM", &d)
}

/// list the top-level chunks of a RIFF/WEBP file: (fourcc, payload)
pub fn chunks_of(file: &[u8]) -> Vec<([u8; 4], Vec<u8>)> {
    let mut out = Vec::new();
    let mut p = 12;
    while p + 8 <= file.len() {
        let cc: [u8; 4] = file[p..p + 4].try_into().unwrap();
        let n = u32::from_le_bytes(file[p + 4..p + 8].try_into().unwrap()) as usize;
        let end = (p + 8 + n).min(file.len());
        out.push((cc, file[p + 8..end].to_vec()));
        p += 8 + n + (n & 1);
    }
    out
}

/// Kinds of image payload a frame (or still) can carry.
#[derive(Clone, Debug)]
pub enum Payload {
    /// VP8L bitstream (chunk body)
    Lossless(Vec<u8>),
    /// VP8 keyframe (chunk body)
    Lossy(Vec<u8>),
    /// ALPH chunk body + VP8 chunk body
    LossyAlpha(Vec<u8>, Vec<u8>),
}
impl Payload {
    pub fn kind(&self) -> &'static str {
        match self {
            Payload::Lossless(_) => "VP8L",
            Payload::Lossy(_) => "VP8",
            Payload::LossyAlpha(..) => "ALPH+VP8",
        }
    }
    /// the chunk sequence for this payload
    pub fn chunks(&self) -> Vec<u8> {
        match self {
            Payload::Lossless(b) => chunk(b"VP8L", b),
            Payload::Lossy(b) => chunk(b"VP8 ", b),
            Payload::LossyAlpha(a, b) => {
                let mut v = chunk(b"ALPH", a);
                v.extend_from_slice(&chunk(b"VP8 ", b));
                v
            }
        }
    }
    /// does a frame decoded from this payload carry alpha (as `read_frame` treats it)?
    pub fn frame_has_alpha(&self) -> bool {
        !matches!(self, Payload::Lossy(_))
    }
}

/// VP8L payload from RGBA pixels with the crate's own encoder
pub fn make_lossless(rgba: &[u8], w: u32, h: u32, predictor: bool) -> Payload {
    Payload::Lossless(image_webp::verif_hooks::enc_frame(rgba, w, h, image_webp::ColorType::Rgba8, predictor).expect("encode"))
}

/// VP8 payload from RGB pixels with libwebp (lossy, given quality)
pub fn make_lossy(rgb: &[u8], w: u32, h: u32, quality: f32) -> Payload {
    let file = oracle::encode(rgb, w as i32, h as i32, false, |c| {
        c.quality = quality;
        c.method = 2;
    });
    let cs = chunks_of(&file);
    let b = cs.iter().find(|(cc, _)| cc == b"VP8 ").expect("VP8 chunk").1.clone();
    Payload::Lossy(b)
}

/// ALPH + VP8 from RGBA pixels with libwebp; `filter` 0 none / 1 fast / 2 best, `compress` 0/1
pub fn make_lossy_alpha(rgba: &[u8], w: u32, h: u32, quality: f32, alpha_q: i32, filter: i32, compress: i32) -> Option<Payload> {
    let file = oracle::encode(rgba, w as i32, h as i32, true, |c| {
        c.quality = quality;
        c.method = 2;
        c.alpha_quality = alpha_q;
        c.alpha_filtering = filter;
        c.alpha_compression = compress;
        c.exact = 1;
    });
    let cs = chunks_of(&file);
    let a = cs.iter().find(|(cc, _)| cc == b"ALPH")?.1.clone();
    let b = cs.iter().find(|(cc, _)| cc == b"VP8 ")?.1.clone();
    Some(Payload::LossyAlpha(a, b))
}

/// a still file in the simple format (no VP8X); only for Lossless / Lossy
pub fn simple_file(p: &Payload) -> Vec<u8> {
    riff(&p.chunks())
}

/// a still file in the extended format
pub fn extended_still(p: &Payload, w: u32, h: u32, alpha_flag: bool) -> Vec<u8> {
    let mut body = vp8x(if alpha_flag { F_ALPHA } else { 0 }, w, h);
    body.extend_from_slice(&p.chunks());
    riff(&body)
}

#[derive(Clone, Debug)]
pub struct FrameSpec {
    pub x: u32, // already multiplied by 2
    pub y: u32,
    pub w: u32,
    pub h: u32,
    pub duration: u32,
    pub blend: bool,
    pub dispose: bool,
    pub payload: Payload,
}

pub fn anmf(f: &FrameSpec) -> Vec<u8> {
    let mut d = Vec::new();
    d.extend_from_slice(&u24(f.x / 2));
    d.extend_from_slice(&u24(f.y / 2));
    d.extend_from_slice(&u24(f.w - 1));
    d.extend_from_slice(&u24(f.h - 1));
    d.extend_from_slice(&u24(f.duration));
    d.push((if f.blend { 0 } else { 2 }) | (if f.dispose { 1 } else { 0 }));
    d.extend_from_slice(&f.payload.chunks());
    chunk(b"ANMF", &d)
}

#[derive(Clone, Debug)]
pub struct AnimSpec {
    pub cw: u32,
    pub ch: u32,
    pub alpha_flag: bool,
    pub bg_file_order: [u8; 4],
    pub loops: u16,
    pub frames: Vec<FrameSpec>,
}

pub fn anim_file(a: &AnimSpec) -> Vec<u8> {
    let mut body = vp8x(F_ANIM | if a.alpha_flag { F_ALPHA } else { 0 }, a.cw, a.ch);
    body.extend_from_slice(&anim_chunk(a.bg_file_order, a.loops));
    for f in &a.frames {
        body.extend_from_slice(&anmf(f));
    }
    riff(&body)
}

/// decode a payload standalone with the crate itself, the way `read_frame` treats it:
/// VP8L -> RGBA, VP8 -> RGB, ALPH+VP8 -> RGBA.  Returns (has_alpha, pixels).
pub fn decode_payload(p: &Payload, w: u32, h: u32) -> Result<(bool, Vec<u8>), String> {
    use image_webp::WebPDecoder;
    use std::io::Cursor;
    match p {
        Payload::Lossless(b) => {
            let mut buf = vec![0u8; (w * h * 4) as usize];
            image_webp::verif_hooks::vp8l_decode(Cursor::new(&b[..]), w, h, false, &mut buf).map_err(|e| format!("{e:?}"))?;
            Ok((true, buf))
        }
        Payload::Lossy(_) => {
            let file = simple_file(p);
            let mut d = WebPDecoder::new(Cursor::new(file)).map_err(|e| format!("{e:?}"))?;
            let mut buf = vec![0u8; (w * h * 3) as usize];
            d.read_image(&mut buf).map_err(|e| format!("{e:?}"))?;
            Ok((false, buf))
        }
        Payload::LossyAlpha(..) => {
            let file = extended_still(p, w, h, true);
            let mut d = WebPDecoder::new(Cursor::new(file)).map_err(|e| format!("{e:?}"))?;
            let mut buf = vec![0u8; (w * h * 4) as usize];
            d.read_image(&mut buf).map_err(|e| format!("{e:?}"))?;
            Ok((true, buf))
        }
    }
}

/// random pixels with structure: flat areas, gradients, noise; alpha from a small palette of
/// interesting values (0, 255, 1, 254, 128, random)
pub fn random_rgba(rng: &mut Rng, w: u32, h: u32, alpha_mode: u32) -> Vec<u8> {
    let n = (w * h) as usize;
    let mut v = Vec::with_capacity(n * 4);
    let style = rng.below(4);
    let base = [rng.byte(), rng.byte(), rng.byte()];
    for i in 0..n {
        let (x, y) = ((i as u32) % w, (i as u32) / w);
        let rgb = match style {
            0 => base,
            1 => [(x * 255 / w.max(1)) as u8, (y * 255 / h.max(1)) as u8, base[2]],
            2 => [rng.byte(), rng.byte(), rng.byte()],
            _ => {
                if (x / 2 + y / 2) % 2 == 0 {
                    base
                } else {
                    [base[1], base[2], base[0]]
                }
            }
        };
        let a = match alpha_mode {
            0 => 255,
            1 => *rng.pick(&[0u8, 255]),
            2 => *rng.pick(&[0u8, 255, 1, 254, 128, 127]),
            _ => rng.byte(),
        };
        v.extend_from_slice(&[rgb[0], rgb[1], rgb[2], a]);
    }
    v
}
pub fn drop_alpha(rgba: &[u8]) -> Vec<u8> {
    rgba.chunks_exact(4).flat_map(|p| [p[0], p[1], p[2]]).collect()
}
