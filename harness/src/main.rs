mod common;
mod c12;
mod c13;
mod c15;
mod c06;
mod c07;
mod c09;
mod c08;
mod c14;
mod c05;
mod c11;
mod c10;
mod c03;
mod c01;
mod c04;
mod c02;
mod vp8lbits;
mod vp8lgen;
mod animgen;
mod webpfile;
mod oracle;

use common::*;

fn main() {
    let args: Vec<String> = std::env::args().collect();
    if args.len() < 2 {
        eprintln!("usage: vharness <property> [--tier quick|thorough] [--seed N] [--drv PATH] [--out FILE] [--replay CASE]");
        std::process::exit(2);
    }
    let prop = args[1].to_uppercase();
    let mut o = Opts {
        tier: "quick".into(),
        seed: 1,
        drv: "/verif/lean/.lake/build/bin/drv".into(),
        out: String::new(),
        replay: None,
        jobs: std::thread::available_parallelism().map(|n| n.get()).unwrap_or(4),
    };
    let mut i = 2;
    while i < args.len() {
        match args[i].as_str() {
            "--tier" => {
                o.tier = args[i + 1].clone();
                i += 1;
            }
            "--seed" => {
                o.seed = args[i + 1].parse().unwrap_or(1);
                i += 1;
            }
            "--drv" => {
                o.drv = args[i + 1].clone();
                i += 1;
            }
            "--out" => {
                o.out = args[i + 1].clone();
                i += 1;
            }
            "--replay" => {
                o.replay = Some(match args[i + 1].strip_prefix('@') {
                    Some(path) => std::fs::read_to_string(path).expect("replay file").trim().to_string(),
                    None => args[i + 1].clone(),
                });
                i += 1;
            }
            "--jobs" => {
                o.jobs = args[i + 1].parse().unwrap_or(4);
                i += 1;
            }
            x => {
                eprintln!("unknown argument {x}");
                std::process::exit(2);
            }
        }
        i += 1;
    }
    // panics inside the code under test are caught per case; keep their messages off stderr noise
    std::panic::set_hook(Box::new(|_| {}));
    let report = match prop.as_str() {
        "C12" => c12::run(&o),
        "C13" => c13::run(&o),
        "C15" => c15::run(&o),
        "C06" => c06::run(&o),
        "C07" => c07::run(&o),
        "C09" => c09::run(&o),
        "C08" => c08::run(&o),
        "C14" => c14::run(&o),
        "C05" => c05::run(&o),
        "C11" => c11::run(&o),
        "C10" => c10::run(&o),
        "C03" => c03::run(&o),
        "C01" => c01::run(&o),
        "C04" => c04::run(&o),
        "C02" => c02::run(&o),
        _ => {
            eprintln!("unknown property {prop}");
            std::process::exit(2);
        }
    };
    let js = serde_json::to_string_pretty(&report.to_json()).unwrap();
    if o.out.is_empty() {
        println!("{js}");
    } else {
        std::fs::write(&o.out, js).unwrap();
    }
}
