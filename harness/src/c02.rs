//! C02: VP8 keyframe reconstruction.  (a) kernel hooks (idct4x4, iwht4x4, simple / sub-block /
//! macroblock loop-filter kernels) against the Lean model `Vp8K.*`; (b) whole frames:
//! libwebp-encoded keyframes under many encoder configurations and every size residue mod 16,
//! `Vp8Decoder::decode_frame` planes against libwebp's `WebPDecodeYUV` sample for sample.
use crate::common::*;
use crate::oracle;
use crate::webpfile::*;
use image_webp::verif_hooks as hk;
use serde_json::json;
use std::io::Cursor;

fn ints(v: &[i32]) -> String {
    v.iter().map(|x| x.to_string()).collect::<Vec<_>>().join(",")
}

fn kernel_cases(drv: &mut Drv, rep: &mut Report, rng: &mut Rng, n: usize) {
    for i in 0..n {
        match i % 5 {
            0 | 1 => {
                // idct / iwht on coefficient blocks: dequantised coefficients are in the i16 range
                let mag = *rng.pick(&[1i32, 8, 64, 512, 2048, 32767]);
                let mut blk: Vec<i32> = (0..16).map(|_| if rng.chance(1, 3) { 0 } else { (rng.below((2 * mag + 1) as u64) as i32) - mag }).collect();
                if rng.chance(1, 8) {
                    for b in blk.iter_mut().skip(1) { *b = 0; }
                }
                let name = if i % 5 == 0 { "idct" } else { "iwht" };
                let line = format!("vp8k {name} {}", ints(&blk));
                let inp = blk.clone();
                let r = catch(|| { if name == "idct" { hk::idct4x4(&mut blk) } else { hk::iwht4x4(&mut blk) } });
                let got = if r.is_ok() { ints(&blk) } else { "PANIC".into() };
                let exp = drv.ask(&line);
                rep.case(&line, inp.iter().any(|&c| c != 0));
                rep.hit(&format!("kernel_{name}"));
                if got != exp {
                    rep.disagree(Disagreement { case: line, got, expected: exp, class: "violation", obligation: format!("C02: {name}4x4 equals the RFC 6386 / libwebp inverse transform (Vp8K.{name})"), detail: String::new() });
                }
            }
            k => {
                // loop filter kernels on 8 pixels across an edge (stride 1, point 4)
                let style = rng.below(4);
                let base = rng.byte();
                let mut px: Vec<u8> = (0..8).map(|j| match style { 0 => rng.byte(), 1 => base.wrapping_add((rng.below(7) as u8).wrapping_sub(3)), 2 => if j < 4 { base } else { base.wrapping_add(rng.below(40) as u8) }, _ => *rng.pick(&[0u8, 1, 2, 127, 128, 129, 253, 254, 255]) }).collect();
                let (hev, interior, edge) = (rng.below(3) as u8, *rng.pick(&[0u8, 1, 3, 9, 20, 63]), *rng.pick(&[0u8, 2, 10, 30, 80, 200, 255]));
                let name = ["simple", "subblock", "macroblock"][k - 2];
                let line = format!("vp8k {name} {hev} {interior} {edge} {}", px.iter().map(|x| x.to_string()).collect::<Vec<_>>().join(","));
                let inp = px.clone();
                let r = catch(|| match k { 2 => hk::lf_simple(edge, &mut px, 4, 1), 3 => hk::lf_subblock(hev, interior, edge, &mut px, 4, 1), _ => hk::lf_macroblock(hev, interior, edge, &mut px, 4, 1) });
                let got = if r.is_ok() { px.iter().map(|x| x.to_string()).collect::<Vec<_>>().join(",") } else { "PANIC".into() };
                let exp = drv.ask(&line);
                rep.case(&line, true);
                rep.hit(&format!("kernel_lf_{name}{}", if px != inp { "_filtered" } else { "_unchanged" }));
                if got != exp {
                    rep.disagree(Disagreement { case: line, got, expected: exp, class: "violation", obligation: format!("C02: the {name} loop-filter kernel equals RFC 6386 section 15 (Vp8K.{name})"), detail: String::new() });
                }
            }
        }
    }
}

/// the intra predictors on random workspaces (hook 5cd911b) against the model Vp8Pred.predict:
/// every sub-block predictor at every sub-block position of the luma workspace and at random
/// positions / strides, the 16x16 and 8x8 predictors with every availability combination
fn predictor_cases(drv: &mut Drv, rep: &mut Report, rng: &mut Rng, n: usize) {
    let names = ["b_dc", "tm", "b_ve", "b_he", "b_ld", "b_rd", "b_vr", "b_vl", "b_hd", "b_hu", "v", "h", "dc"];
    for i in 0..n {
        let kind = (i % 13) as u8;
        // geometry: the decoder's own workspaces (luma 21 x 17, chroma 9 x 9) and random ones
        let (size, x0, y0, stride, rows) = match kind {
            0 | 2..=9 => {
                if rng.chance(1, 2) { (4usize, 1 + 4 * rng.below(4) as usize, 1 + 4 * rng.below(4) as usize, 21usize, 17usize) }
                else { let x0 = rng.range(1, 6) as usize; let y0 = rng.range(1, 5) as usize; (4, x0, y0, x0 + 8 + rng.below(5) as usize, y0 + 4 + rng.below(3) as usize) }
            }
            1 => match rng.below(3) { 0 => (16, 1, 1, 21, 17), 1 => (8, 1, 1, 9, 9), _ => (4, 1 + 4 * rng.below(4) as usize, 1 + 4 * rng.below(4) as usize, 21, 17) },
            _ => if rng.chance(1, 2) { (16, 1, 1, 21, 17) } else { (8, 1, 1, 9, 9) },
        };
        let (above, left) = (rng.chance(1, 2), rng.chance(1, 2));
        let style = rng.below(3);
        let base = rng.byte();
        let mut ws: Vec<u8> = (0..stride * rows).map(|_| match style { 0 => rng.byte(), 1 => base.wrapping_add(rng.below(9) as u8), _ => *rng.pick(&[0u8, 1, 127, 128, 254, 255]) }).collect();
        let line = format!("vp8pred {kind} {size} {x0} {y0} {stride} {} {} {}", above as u8, left as u8, hex(&ws));
        let r = catch(|| hk::vp8_predict(kind, &mut ws, size, x0, y0, stride, above, left));
        let got = if r.is_ok() { hex(&ws) } else { "PANIC".into() };
        let exp = drv.ask(&line);
        rep.case(&line, true);
        rep.hit(&format!("predictor_{}", names[kind as usize]));
        if got != exp {
            let k = got.as_bytes().iter().zip(exp.as_bytes()).position(|(a, b)| a != b).unwrap_or(0) / 2;
            rep.disagree(Disagreement { case: line, got, expected: exp, class: "violation", obligation: format!("C02: intra predictor {} equals RFC 6386 section 12 / libwebp's predictor (model Vp8Pred.predict, theorems C02.subblock_predictors_are_reference / C02.block_predictors_are_reference)", names[kind as usize]), detail: format!("first differing workspace byte: row {} column {}", k / stride, k % stride) });
        }
    }
}

/// `read_quantization_indices` (hook 91cb7bc) against the model Vp8Quant.readQuant: headers written
/// with the RFC's boolean encoder (base index and deltas favouring 0, 127, +-15, explicit "-0"),
/// every segment-header state, levels over the whole i8 range, truncated and random partitions
fn quant_cases(drv: &mut Drv, rep: &mut Report, rng: &mut Rng, n: usize) {
    for i in 0..n {
        let se = rng.chance(2, 3);
        let dv = rng.chance(1, 2);
        let mut levels = [0i8; 4];
        for l in levels.iter_mut() { *l = match rng.below(6) { 0 => 0, 1 => 127, 2 => -127, 3 => -128, _ => rng.byte() as i8 }; }
        let data: Vec<u8> = if i % 8 == 7 {
            let len = rng.below(9) as usize;
            let mut d: Vec<u8> = (0..len).map(|_| rng.byte()).collect();
            if !d.is_empty() && d[0] == 255 { d[0] = 254; }
            d
        } else {
            let mut e = Be::new();
            let yac = match rng.below(5) { 0 => 0, 1 => 127, 2 => rng.below(8) as u32, 3 => 120 + rng.below(8) as u32, _ => rng.below(128) as u32 };
            e.lit(yac, 7);
            for _ in 0..5 {
                let v: i32 = match rng.below(6) { 0 | 1 => 0, 2 => 15, 3 => -15, _ => rng.below(31) as i32 - 15 };
                e.opt_signed(v, 4, rng.chance(1, 8));
            }
            let mut d = e.finish();
            if i % 8 == 6 { d.truncate(rng.below(3) as usize); }
            d
        };
        let line = format!("vp8quant {} {} {} {}", se as u8, dv as u8, levels.iter().map(|l| l.to_string()).collect::<Vec<_>>().join(","), if data.is_empty() { "-".to_string() } else { hex(&data) });
        let got = match catch(|| hk::vp8_quant_factors(&data, se, dv, levels)) {
            Ok(Ok(f)) => f.iter().map(|s| s.iter().map(|x| x.to_string()).collect::<Vec<_>>().join(",")).collect::<Vec<_>>().join(";"),
            Ok(Err(_)) => "err".to_string(),
            Err(m) => format!("PANIC {m}"),
        };
        let exp = drv.ask(&line);
        rep.case(&line, true);
        rep.hit(if got == "err" { "quant_partition_exhausted" } else if se { if dv { "quant_segments_delta" } else { "quant_segments_absolute" } } else { "quant_no_segments" });
        if got != exp {
            rep.disagree(Disagreement { case: line, got, expected: exp, class: "violation", obligation: "C02: read_quantization_indices computes the dequantisation factors of RFC 6386 sections 9.6 / 14.1 (model Vp8Quant.readQuant, theorem C02.quant_factors_are_reference: = libwebp's VP8ParseQuant)".into(), detail: format!("segments_enabled {se}, delta_values {dv}") });
        }
    }
}

/// the loop-filter driver `Vp8Decoder::loop_filter` over whole frames (hook 73798e6) against the
/// model Vp8LF.filterFrame: display sizes with every residue mod 16 (the planes are macroblock
/// aligned; only the displayed part is compared, the padding beyond it must still be filtered
/// because filters applied to displayed samples read it), both filter types, every sharpness,
/// levels 1..63, random B_PRED / coefficient flags, planes that are smooth enough for the filters
/// to engage (ramps + small noise + block steps)
fn loopfilter_cases(drv: &mut Drv, rep: &mut Report, rng: &mut Rng, n: usize) {
    for i in 0..n {
        let (w, h) = match i % 4 { 0 => (1 + rng.below(40) as usize, 1 + rng.below(40) as usize), 1 => (17 + rng.below(16) as usize, [3usize, 7, 11, 19, 23, 27][rng.below(6) as usize]), 2 => ([3usize, 7, 11, 19, 23, 27][rng.below(6) as usize], 17 + rng.below(16) as usize), _ => (16 * (1 + rng.below(2) as usize) + rng.below(16) as usize, 16 * (1 + rng.below(2) as usize) + rng.below(16) as usize) };
        let (mbw, mbh) = (w.div_ceil(16), h.div_ceil(16));
        let simple = rng.chance(1, 4);
        let sharp = if rng.chance(1, 3) { 0 } else { rng.below(8) as u8 };
        let level = match rng.below(4) { 0 => 1 + rng.below(14) as u8, 1 => 15 + rng.below(25) as u8, 2 => 40 + rng.below(24) as u8, _ => *rng.pick(&[1u8, 14, 15, 39, 40, 63]) };
        let amp = *rng.pick(&[1u64, 2, 3, 5, 9, 20]);
        let step = *rng.pick(&[0u64, 2, 4, 8, 30]);
        let plane = |rng: &mut Rng, pw: usize, ph: usize, blk: usize| -> Vec<u8> {
            let (gx, gy, base) = (rng.below(4) as i64, rng.below(4) as i64, 40 + rng.below(150) as i64);
            let bw = pw / blk;
            let offs: Vec<i64> = (0..bw * (ph / blk)).map(|_| if step == 0 { 0 } else { rng.below(2 * step + 1) as i64 - step as i64 }).collect();
            (0..pw * ph).map(|k| { let (x, y) = ((k % pw) as i64, (k / pw) as i64); (base + gx * x / 2 + gy * y / 2 + offs[(k / pw / blk) * bw + (k % pw) / blk] + rng.below(amp) as i64).clamp(0, 255) as u8 }).collect()
        };
        let y = plane(rng, mbw * 16, mbh * 16, 4);
        let u = plane(rng, mbw * 8, mbh * 8, 4);
        let v = plane(rng, mbw * 8, mbh * 8, 4);
        let mbs: Vec<(bool, bool)> = (0..mbw * mbh).map(|_| (rng.chance(1, 3), rng.chance(1, 2))).collect();
        let line = format!("vp8lf {w} {h} {} {sharp} {level} {} {} {} {}", simple as u8, mbs.iter().map(|m| format!("{}{}", m.0 as u8, m.1 as u8)).collect::<String>(), hex(&y), hex(&u), hex(&v));
        let crop = |b: &[u8], stride: usize, cw: usize, ch: usize| -> Vec<u8> { (0..ch).flat_map(|r| b[r * stride..r * stride + cw].to_vec()).collect() };
        let got = match catch(|| hk::vp8_loop_filter(w as u16, h as u16, simple, sharp, level, &y, &u, &v, &mbs)) {
            Ok((fy, fu, fv)) => format!("{} {} {}", hex(&crop(&fy, mbw * 16, w, h)), hex(&crop(&fu, mbw * 8, w.div_ceil(2), h.div_ceil(2))), hex(&crop(&fv, mbw * 8, w.div_ceil(2), h.div_ceil(2)))),
            Err(m) => format!("PANIC {m}"),
        };
        let exp = drv.ask(&line);
        rep.case(&line, true);
        rep.hit(if simple { "loopfilter_driver_simple" } else { "loopfilter_driver_normal" });
        if h % 16 != 0 || w % 16 != 0 { rep.hit("loopfilter_driver_partial_macroblocks"); }
        let changed = got != format!("{} {} {}", hex(&crop(&y, mbw * 16, w, h)), hex(&crop(&u, mbw * 8, w.div_ceil(2), h.div_ceil(2))), hex(&crop(&v, mbw * 8, w.div_ceil(2), h.div_ceil(2))));
        if changed { rep.hit("loopfilter_driver_frame_changed_by_filter"); }
        if got != exp {
            let k = got.as_bytes().iter().zip(exp.as_bytes()).position(|(a, b)| a != b).unwrap_or(0);
            rep.disagree(Disagreement { case: line, got: got.chars().skip(k.saturating_sub(8)).take(40).collect(), expected: exp.chars().skip(k.saturating_sub(8)).take(40).collect(), class: "violation", obligation: "C02: the loop filter visits, for every macroblock in raster order, the left macroblock edge, the inner vertical edges, the top macroblock edge and the inner horizontal edges over the whole macroblock (RFC 6386 section 15.2; model Vp8LF.filterFrame) - displayed samples compared".into(), detail: format!("{w}x{h} simple={simple} sharpness={sharp} level={level}; first differing hex position {k} of the y/u/v display planes") });
        }
    }
}

/// `read_residual_data` for one macroblock (hook d9b6b20) against the model Vp8Resid.readResidual:
/// both macroblock kinds (with Y2 + inverse WHT / B_PRED), every context-flag pattern above and to
/// the left, default and random probabilities, quantiser sextuples incl. the extremes, partitions
/// that are random, sparse (many empty blocks, so the DC-only and untouched-block paths are taken)
/// or end inside the macroblock
fn residual_cases(drv: &mut Drv, rep: &mut Report, rng: &mut Rng, n: usize) {
    for i in 0..n {
        let bpred = rng.chance(1, 2);
        let mut top = [0u8; 9];
        let mut left = [0u8; 9];
        for k in 0..9 { top[k] = rng.chance(1, 2) as u8; left[k] = rng.chance(1, 2) as u8; }
        let quant: [i16; 6] = match rng.below(4) { 0 => [4, 4, 8, 8, 4, 4], 1 => [157, 284, 314, 440, 132, 284], _ => [rng.range(4, 157) as i16, rng.range(4, 284) as i16, 2 * rng.range(4, 157) as i16, rng.range(8, 440) as i16, rng.range(4, 132) as i16, rng.range(4, 284) as i16] };
        let len = match i % 5 { 0 => rng.below(12) as usize, 1 => rng.range(12, 60) as usize, _ => rng.range(60, 700) as usize };
        let style = rng.below(5);
        let mut data: Vec<u8> = (0..len).map(|_| match style { 0 => rng.byte(), 1 => if rng.chance(1, 8) { rng.byte() } else { 0 }, 2 => if rng.chance(1, 8) { rng.byte() } else { 255 }, 3 => rng.byte() & rng.byte(), _ => rng.byte() | rng.byte() }).collect();
        if !data.is_empty() && data[0] == 255 { data[0] = 254; }
        let probs: Vec<u8> = if rng.chance(1, 2) {
            (0..4).flat_map(image_webp::verif_hooks::default_coeff_probs).collect()
        } else {
            (0..4 * 8 * 3 * 11).map(|_| if rng.chance(1, 12) { *rng.pick(&[0u8, 1, 254, 255]) } else { rng.byte() }).collect()
        };
        let fl = |a: &[u8; 9]| a.iter().map(|v| if *v != 0 { '1' } else { '0' }).collect::<String>();
        let line = format!("vp8resid {} {} {} {} {} {}", bpred as u8, fl(&top), fl(&left), quant.iter().map(|q| q.to_string()).collect::<Vec<_>>().join(","), hex(&probs), if data.is_empty() { "-".to_string() } else { hex(&data) });
        let got = match catch(|| hk::vp8_read_residual_data(&data, &probs, bpred, top, left, quant)) {
            Ok(Ok((blocks, nz, t, l))) => format!("ok {} {} {} {}", nz as u8, fl(&t), fl(&l), blocks.iter().map(|v| v.to_string()).collect::<Vec<_>>().join(",")),
            Ok(Err(_)) => "err".to_string(),
            Err(m) => format!("PANIC {m}"),
        };
        let exp = drv.ask(&line);
        rep.case(&line, true);
        rep.hit(if got == "err" { "residual_partition_exhausted" } else if bpred { "residual_bpred" } else { "residual_with_y2" });
        if got.starts_with("ok 0") { rep.hit("residual_all_zero_macroblock"); }
        if got != exp {
            let k = got.split(' ').zip(exp.split(' ')).position(|(a, b)| a != b).unwrap_or(9);
            rep.disagree(Disagreement { case: line, got: got.chars().take(120).collect(), expected: exp.chars().take(120).collect(), class: "violation", obligation: "C02: read_residual_data reads the 25 / 24 blocks of a macroblock in the order, with the plane types, contexts and dequantisation factors RFC 6386 section 13 defines, spreads the inverse WHT of the Y2 block over the luma DC positions and inverts the DCT of every coded block (model Vp8Resid.readResidual)".into(), detail: format!("first differing field: {}", ["status", "non-zero flag", "context flags above", "context flags left", "values"].get(k).unwrap_or(&"?")) });
        }
    }
}

/// `intra_predict_luma` + `intra_predict_chroma` of one macroblock (hook 0765b56) against the model
/// Vp8Intra.predictMb: every macroblock position class (first row / column, last column, interior)
/// of frames of 1..3 x 1..3 macroblocks, every 16x16 / chroma mode, B_PRED with random sub-block
/// modes, residues that are zero, small, or push the clamp in either direction, random planes and
/// borders; the planes and the two luma borders afterwards are compared byte for byte
fn intra_cases(drv: &mut Drv, rep: &mut Report, rng: &mut Rng, n: usize) {
    for i in 0..n {
        let (mbw, mbh) = if rng.chance(1, 2) { (3usize, 3usize) } else { (1 + rng.below(3) as usize, 1 + rng.below(3) as usize) };
        let (mbx, mby) = (rng.below(mbw as u64) as usize, rng.below(mbh as u64) as usize);
        let luma_mode = (i % 5) as i8;
        let chroma_mode = rng.below(4) as i8;
        let mut bmodes = [0i8; 16];
        for b in bmodes.iter_mut() { *b = rng.below(10) as i8; }
        let rstyle = rng.below(4);
        let res: Vec<i32> = (0..384).map(|k| {
            let blk_zero = rstyle == 0 || (rstyle == 1 && (k / 16) % 3 != 0);
            if blk_zero { 0 } else { match rng.below(6) { 0 => 0, 1 => rng.below(9) as i32 - 4, 2 => rng.below(101) as i32 - 50, 3 => 300, 4 => -300, _ => rng.below(601) as i32 - 300 } }
        }).collect();
        let pstyle = rng.below(3);
        let mut gen = |rng: &mut Rng, len: usize| -> Vec<u8> { (0..len).map(|_| match pstyle { 0 => rng.byte(), 1 => 100 + rng.below(40) as u8, _ => *rng.pick(&[0u8, 1, 127, 128, 129, 254, 255]) }).collect() };
        let y = gen(rng, mbw * 16 * mbh * 16);
        let u = gen(rng, mbw * 8 * mbh * 8);
        let v = gen(rng, mbw * 8 * mbh * 8);
        let top = gen(rng, mbw * 16 + 20);
        let left = gen(rng, 17);
        let line = format!("vp8intra {mbw} {mbx} {mby} {luma_mode} {chroma_mode} {} {} {} {} {} {} {}", bmodes.iter().map(|b| b.to_string()).collect::<String>(), res.iter().map(|r| r.to_string()).collect::<Vec<_>>().join(","), hex(&top), hex(&left), hex(&y), hex(&u), hex(&v));
        let got = match catch(|| hk::vp8_intra_predict(mbw as u16, mbh as u16, mbx, mby, luma_mode, chroma_mode, bmodes, &res, &top, &left, &y, &u, &v)) {
            Ok(Some((fy, fu, fv, ft, fl))) => format!("{} {} {} {} {}", hex(&fy), hex(&fu), hex(&fv), hex(&ft), hex(&fl)),
            Ok(None) => "bad-mode".to_string(),
            Err(m) => format!("PANIC {m}"),
        };
        let exp = drv.ask(&line);
        rep.case(&line, true);
        rep.hit(&format!("intra_luma_mode_{}", ["dc", "v", "h", "tm", "b"][luma_mode as usize]));
        rep.hit(match (mbx == 0, mby == 0, mbx + 1 == mbw) { (true, true, _) => "intra_position_corner", (true, false, _) => "intra_position_first_column", (false, true, _) => "intra_position_first_row", (false, false, true) => "intra_position_last_column", _ => "intra_position_interior" });
        if got != exp {
            let k = got.split(' ').zip(exp.split(' ')).position(|(a, b)| a != b).unwrap_or(9);
            rep.disagree(Disagreement { case: line, got: got.split(' ').nth(k).unwrap_or("").chars().take(80).collect(), expected: exp.split(' ').nth(k).unwrap_or("").chars().take(80).collect(), class: "violation", obligation: "C02: a macroblock is reconstructed as RFC 6386 section 12 defines: border of the workspace, predictor chosen by the macroblock / sub-block / chroma mode, residue added with a clamp to 0..255, reconstructed samples stored in the planes and kept as borders for the next macroblocks (model Vp8Intra.predictMb over the proved predictor bodies)".into(), detail: format!("first differing output: {}", ["y plane", "u plane", "v plane", "top border", "left border"].get(k).unwrap_or(&"?")) });
        }
    }
}

/// `read_frame_header` (hook cee2c32) against the model Vp8Header.parse: synthetic key frames whose
/// first partition is random or written field by field with boundary values (segment header, filter
/// header, deltas, partition count, quantiser indices, probability updates, skip probability),
/// whole and with the first partition cut short (the code's `check`s must report the exhaustion)
fn header_cases(drv: &mut Drv, rep: &mut Report, rng: &mut Rng, n: usize) {
    for i in 0..n {
        let (w, h) = (1 + rng.below(40) as u32, 1 + rng.below(40) as u32);
        let style = rng.next();
        let (mut vp8, _) = synth_frame(rng, w, h, style);
        let p0len = ((vp8[0] as usize) | ((vp8[1] as usize) << 8) | ((vp8[2] as usize) << 16)) >> 5;
        if i % 4 == 3 {
            // cut the first partition to a few bytes; the partition sizes and partitions follow as before
            let keep = rng.below(40) as usize;
            let keep = keep.min(p0len);
            let tag: u32 = (1 << 4) | ((keep as u32) << 5);
            let mut cut = tag.to_le_bytes()[..3].to_vec();
            cut.extend_from_slice(&vp8[3..10 + keep]);
            cut.extend_from_slice(&vp8[10 + p0len..]);
            vp8 = cut;
        }
        let p0len = ((vp8[0] as usize) | ((vp8[1] as usize) << 8) | ((vp8[2] as usize) << 16)) >> 5;
        let p0 = &vp8[10..10 + p0len];
        let line = format!("vp8hdr {}", if p0.is_empty() { "-".to_string() } else { hex(p0) });
        let got = match catch(|| hk::vp8_frame_header(&vp8)) {
            Ok(Ok((v, probs))) => format!("{} {}", v.iter().map(|x| x.to_string()).collect::<Vec<_>>().join(","), hex(&probs)),
            Ok(Err(_)) => "err".to_string(),
            Err(m) => format!("PANIC {m}"),
        };
        let exp = drv.ask(&line);
        rep.case(&line, true);
        rep.hit(if got == "err" { "frame_header_error" } else { "frame_header_parsed" });
        // an error of the real function that the model does not predict can come from the partition
        // layout behind the first partition (not part of the model): counted, not compared
        if got == "err" && exp != "err" { rep.hit("frame_header_error_outside_the_model(partition layout)"); continue; }
        if got != exp {
            let (gv, ev): (Vec<&str>, Vec<&str>) = (got.split(|c| c == ',' || c == ' ').collect(), exp.split(|c| c == ',' || c == ' ').collect());
            let k = gv.iter().zip(ev.iter()).position(|(a, b)| a != b).unwrap_or(gv.len().min(ev.len()));
            rep.disagree(Disagreement { case: line, got: gv.get(k).map(|s| s.chars().take(60).collect()).unwrap_or_default(), expected: ev.get(k).map(|s| s.chars().take(60).collect()).unwrap_or_default(), class: "violation", obligation: "C02: the frame header fields are read from the first partition as RFC 6386 sections 9.2 - 9.11 / 19.2 define (model Vp8Header.parse over the boolean decoder of C15)".into(), detail: format!("first differing field: #{k} of pixel type, segments enabled, update map, delta values, 4 quantiser levels, 4 filter levels, 3 tree probabilities, filter type, level, sharpness, 4 ref deltas, 4 mode deltas, partitions, 24 factors, skip probability, token probabilities") });
        }
    }
}

/// whole key frames: the real decoder against the composed Lean decoder Vp8Frame.decode (frame tag,
/// header, partitions, per macroblock header / residuals or skip / reconstruction, loop filter, crop)
/// - synthetic random-symbol frames with random and boundary-valued headers and small frames
/// encoded by libwebp with varied options; the same frames are compared with libwebp by frame_case
fn frame_model_cases(drv: &mut Drv, rep: &mut Report, rng: &mut Rng, n: usize) {
    for i in 0..n {
        let (w, h) = match i % 4 { 0 => (1 + rng.below(16) as u32, 1 + rng.below(16) as u32), 1 => (1 + rng.below(40) as u32, 1 + rng.below(40) as u32), 2 => (17 + rng.below(31) as u32, 1 + rng.below(20) as u32), _ => (16 * (1 + rng.below(2) as u32), 16 * (1 + rng.below(3) as u32)) };
        let vp8: Vec<u8> = if i % 3 == 2 {
            let am = rng.below(4) as u32;
            let rgb = random_rgba(rng, w, h, am);
            let (q, fs, sh, ft, seg, part) = (rng.below(101) as f32, rng.below(101) as i32, rng.below(8) as i32, rng.below(2) as i32, 1 + rng.below(4) as i32, rng.below(4) as i32);
            let file = match catch(|| oracle::encode(&drop_alpha(&rgb), w as i32, h as i32, false, |c| { c.quality = q; c.method = (i % 5) as i32; c.filter_strength = fs; c.filter_sharpness = sh; c.filter_type = ft; c.segments = seg; c.partitions = part; c.autofilter = 0; })) { Ok(f) => f, Err(_) => continue };
            match chunks_of(&file).into_iter().find(|(cc, _)| cc == b"VP8 ") { Some((_, v)) => v, None => continue }
        } else {
            let style = rng.next();
            synth_frame(rng, w, h, style).0
        };
        // every fifth frame is damaged: cut short, or one byte of the first 40 changed (the model must
        // reject exactly the frames the decoder rejects and agree on the planes of the others)
        let mut vp8 = vp8;
        if i % 5 == 4 {
            if rng.chance(1, 2) { let k = rng.below(vp8.len() as u64 + 1) as usize; vp8.truncate(k); }
            else if !vp8.is_empty() { let k = rng.below(vp8.len().min(40) as u64) as usize; vp8[k] ^= 1 << rng.below(8); }
        }
        let line = format!("vp8framemodel {}", if vp8.is_empty() { "00".to_string() } else { hex(&vp8) });
        if vp8.is_empty() { vp8.push(0); }
        let got = match catch(|| image_webp::vp8::Vp8Decoder::decode_frame(Cursor::new(&vp8[..]))) {
            Ok(Ok(f)) => format!("ok {} {} {}/{} {}/{} {}/{}", f.width, f.height, fnv_bytes(FNV_INIT, &f.ybuf), f.ybuf.len(), fnv_bytes(FNV_INIT, &f.ubuf), f.ubuf.len(), fnv_bytes(FNV_INIT, &f.vbuf), f.vbuf.len()),
            Ok(Err(_)) => "err".to_string(),
            Err(m) => format!("PANIC {m}"),
        };
        let exp = drv.ask(&line);
        rep.case(&line, true);
        if i % 5 == 4 { rep.hit("frame_model_damaged_frame"); }
        rep.hit(if got == "err" { "frame_model_rejected" } else if i % 3 == 2 { "frame_model_libwebp_encoded" } else { "frame_model_synthetic" });
        if got != exp {
            let k = got.split(' ').zip(exp.split(' ')).position(|(a, b)| a != b).unwrap_or(0);
            rep.disagree(Disagreement { case: line, got: got.clone(), expected: exp, class: "violation", obligation: "C02: the decoder reconstructs a key frame as the composition of its modelled parts does (Vp8Frame.decode: header, partitions, macroblock headers, residuals, reconstruction, loop filter, crop); the same frames are compared with libwebp".into(), detail: format!("{w}x{h}; first differing field: {}", ["status", "width", "height", "Y plane", "U plane", "V plane"].get(k).unwrap_or(&"?")) });
        }
    }
}

/// `read_coefficients` (hook 99a8eca) against the model Vp8Coef.readCoefficients: random and biased
/// partitions (long zero runs, end-of-block right away, large categories), the crate's default
/// probabilities and random ones (incl. 0 and 255), every plane and starting context, several calls
/// in a row on one partition (the decoder state carries over), partitions that end inside a block
fn coefficient_cases(drv: &mut Drv, rep: &mut Report, rng: &mut Rng, n: usize) {
    for i in 0..n {
        let plane = rng.below(4) as usize;
        let len = match i % 4 { 0 => rng.below(6) as usize, 1 => rng.range(6, 40) as usize, _ => rng.range(40, 200) as usize };
        let style = rng.below(4);
        let data: Vec<u8> = (0..len).map(|_| match style { 0 => rng.byte(), 1 => if rng.chance(1, 6) { rng.byte() } else { 0 }, 2 => if rng.chance(1, 6) { rng.byte() } else { 255 }, _ => *rng.pick(&[0u8, 1, 127, 128, 254, 255, 0x55, 0xAA]) }).collect();
        let mut data = data;
        if !data.is_empty() && data[0] == 255 { data[0] = 254; } // outside the boolean coder's range (C15)
        let probs: Vec<u8> = if rng.chance(1, 2) {
            // the crate's defaults for this plane
            image_webp::verif_hooks::default_coeff_probs(plane)
        } else {
            (0..8 * 3 * 11).map(|_| if rng.chance(1, 10) { *rng.pick(&[0u8, 1, 254, 255]) } else { rng.byte() }).collect()
        };
        let calls: Vec<(usize, i16, i16)> = (0..rng.range(1, 7)).map(|_| (rng.below(3) as usize, rng.range(1, 1000) as i16, rng.range(1, 1000) as i16)).collect();
        let line = format!("vp8coef {plane} {} {} {}", hex(&probs), if data.is_empty() { "-".to_string() } else { hex(&data) }, calls.iter().map(|c| format!("{},{},{}", c.0, c.1, c.2)).collect::<Vec<_>>().join(";"));
        let got = match catch(|| hk::vp8_read_coefficients(&data, &probs, plane, &calls)) {
            Ok(v) => v.iter().map(|r| match r { Ok((has, b)) => format!("ok {} {}", *has as u8, ints(&b[..])), Err(_) => "err".to_string() }).collect::<Vec<_>>().join("|"),
            Err(m) => format!("PANIC {m}"),
        };
        let exp_raw = drv.ask(&line);
        // on an error the block is not part of the result
        let exp = exp_raw.split('|').map(|r| if r.starts_with("err") { "err".to_string() } else { r.to_string() }).collect::<Vec<_>>().join("|");
        rep.case(&line, true);
        rep.hit(if got.contains("err") { "coefficients_partition_exhausted" } else { "coefficients_ok" });
        if got != exp {
            rep.disagree(Disagreement { case: line, got, expected: exp, class: "violation", obligation: "C02: read_coefficients decodes the DCT tokens of a block as RFC 6386 section 13 defines (model Vp8Coef.readCoefficients over the boolean decoder of C15)".into(), detail: format!("plane {plane}, {} calls", calls.len()) });
        }
    }
}

/// RFC 6386 section 7.3 boolean decoder, used only to read the frame header of a synthetic
/// stream (to lay the partitions out and to label the case); independent of the crate's.
struct Bd<'a> { d: &'a [u8], pos: usize, value: u32, range: u32, bits: i32 }
impl<'a> Bd<'a> {
    fn new(d: &'a [u8]) -> Self {
        let b = |i: usize| u32::from(*d.get(i).unwrap_or(&0));
        Bd { d, pos: 2, value: (b(0) << 8) | b(1), range: 255, bits: 0 }
    }
    fn bit(&mut self, p: u32) -> u32 {
        let split = 1 + (((self.range - 1) * p) >> 8);
        let big = split << 8;
        let r = if self.value >= big { self.range -= split; self.value -= big; 1 } else { self.range = split; 0 };
        while self.range < 128 {
            self.value <<= 1;
            self.range <<= 1;
            self.bits += 1;
            if self.bits == 8 {
                self.bits = 0;
                self.value |= u32::from(*self.d.get(self.pos).unwrap_or(&0));
                self.pos += 1;
            }
        }
        r
    }
    fn lit(&mut self, n: u32) -> u32 { let mut v = 0; for _ in 0..n { v = (v << 1) | self.bit(128); } v }
    fn signed(&mut self, n: u32) -> i32 { let v = self.lit(n) as i32; if self.bit(128) == 1 { -v } else { v } }
}


/// RFC 6386 section 7.3 boolean encoder (for headers whose fields the generator chooses)
struct Be { out: Vec<u8>, range: u32, bottom: u32, bit_count: i32 }
impl Be {
    fn new() -> Self { Be { out: Vec::new(), range: 255, bottom: 0, bit_count: 24 } }
    fn carry(&mut self) {
        let mut i = self.out.len();
        while i > 0 { i -= 1; if self.out[i] == 255 { self.out[i] = 0; } else { self.out[i] += 1; break; } }
    }
    fn put(&mut self, bit: bool, p: u32) {
        let split = 1 + (((self.range - 1) * p) >> 8);
        if bit { self.bottom = self.bottom.wrapping_add(split); if self.bottom < split { self.carry(); } self.range -= split; } else { self.range = split; }
        while self.range < 128 {
            self.range <<= 1;
            if self.bottom & (1 << 31) != 0 { self.carry(); }
            self.bottom <<= 1;
            self.bit_count -= 1;
            if self.bit_count == 0 { self.out.push((self.bottom >> 24) as u8); self.bottom &= (1 << 24) - 1; self.bit_count = 8; }
        }
    }
    fn lit(&mut self, v: u32, n: u32) { for i in (0..n).rev() { self.put((v >> i) & 1 == 1, 128); } }
    fn opt_signed(&mut self, v: i32, n: u32, force: bool) {
        if v == 0 && !force { self.put(false, 128); } else { self.put(true, 128); self.lit(v.unsigned_abs(), n); self.put(v < 0, 128); }
    }
    fn finish(mut self) -> Vec<u8> { for _ in 0..32 { self.put(false, 128); } self.out }
}

/// first partition with generator-chosen header fields (boundary values favoured) up to the
/// quantiser indices, followed by random symbols
fn controlled_p0(rng: &mut Rng, len: usize) -> Vec<u8> {
    let mut e = Be::new();
    let sv = |rng: &mut Rng, max: i32| -> i32 { match rng.below(6) { 0 => 0, 1 => max, 2 => -max, 3 => 1, 4 => -1, _ => rng.below(2 * max as u64 + 1) as i32 - max } };
    e.lit(0, 1); // colour space
    e.lit(0, 1); // clamping required
    let seg = rng.chance(1, 2);
    e.put(seg, 128);
    if seg {
        let map = rng.chance(3, 4);
        let data = rng.chance(3, 4);
        e.put(map, 128);
        e.put(data, 128);
        if data {
            e.put(rng.chance(1, 2), 128); // absolute / delta
            for _ in 0..4 { let v = sv(rng, 127); e.opt_signed(v, 7, rng.chance(1, 8)); }
            for _ in 0..4 { let v = sv(rng, 63); e.opt_signed(v, 6, rng.chance(1, 8)); }
        }
        if map { for _ in 0..3 { if rng.chance(2, 3) { e.put(true, 128); let p = *rng.pick(&[0u32, 1, 64, 128, 200, 255]); e.lit(p, 8); } else { e.put(false, 128); } } }
    }
    e.put(rng.chance(1, 2), 128); // filter type
    let level = match rng.below(6) { 0 => 0, 1 => 63, 2 => 1, 3 => 14 + rng.below(3) as u32, 4 => 39 + rng.below(3) as u32, _ => rng.below(64) as u32 };
    e.lit(level, 6);
    e.lit(rng.below(8) as u32, 3);
    let adj = rng.chance(2, 3);
    e.put(adj, 128);
    if adj {
        let upd = rng.chance(3, 4);
        e.put(upd, 128);
        if upd {
            for _ in 0..4 { let v = sv(rng, 63); e.opt_signed(v, 6, rng.chance(1, 8)); }
            for _ in 0..4 { let v = sv(rng, 63); e.opt_signed(v, 6, rng.chance(1, 8)); }
        }
    }
    e.lit(rng.below(4) as u32, 2); // partitions
    let q = match rng.below(5) { 0 => 0, 1 => 127, 2 => rng.below(16) as u32, _ => rng.below(128) as u32 };
    e.lit(q, 7);
    for _ in 0..5 { let v = sv(rng, 15); e.opt_signed(v, 4, false); }
    e.lit(rng.below(2) as u32, 1); // refresh entropy
    // random symbols follow (decoded under whatever probabilities the syntax asks for)
    for _ in 0..(len * 8) { let b = rng.chance(1, 2); e.put(b, 128); }
    let mut out = e.finish();
    out.truncate(len.max(64));
    while out.len() < len { out.push(rng.byte()); }
    out
}

#[derive(Debug, Default)]
pub struct Hdr { color: u32, clamp: u32, seg: bool, seg_map: bool, seg_data: bool, seg_abs: bool, seg_lf: [i32; 4], seg_q: [i32; 4], simple: bool, level: u32, sharp: u32, lf_adj: bool, ref_delta: [i32; 4], mode_delta: [i32; 4], parts_log2: u32 }

fn parse_hdr(p0: &[u8]) -> Hdr {
    let mut b = Bd::new(p0);
    let mut h = Hdr::default();
    h.color = b.lit(1);
    h.clamp = b.lit(1);
    h.seg = b.lit(1) == 1;
    if h.seg {
        h.seg_map = b.lit(1) == 1;
        h.seg_data = b.lit(1) == 1;
        if h.seg_data {
            h.seg_abs = b.lit(1) == 1;
            for i in 0..4 { if b.lit(1) == 1 { h.seg_q[i] = b.signed(7); } }
            for i in 0..4 { if b.lit(1) == 1 { h.seg_lf[i] = b.signed(6); } }
        }
        if h.seg_map { for _ in 0..3 { if b.lit(1) == 1 { b.lit(8); } } }
    }
    h.simple = b.lit(1) == 1;
    h.level = b.lit(6);
    h.sharp = b.lit(3);
    h.lf_adj = b.lit(1) == 1;
    if h.lf_adj && b.lit(1) == 1 {
        for i in 0..4 { if b.lit(1) == 1 { h.ref_delta[i] = b.signed(6); } }
        for i in 0..4 { if b.lit(1) == 1 { h.mode_delta[i] = b.signed(6); } }
    }
    h.parts_log2 = b.lit(2);
    h
}

/// A synthetic keyframe: EVERY byte string is a valid boolean-coded partition (the decoder maps
/// any bits to symbols), so random partitions give uniformly random header fields, segment maps,
/// intra modes incl. all sub-block modes, skip flags, probability updates and coefficient
/// patterns - far from what one encoder produces.  Partitions are sized so that no reader
/// reaches its end (then the stream is valid and libwebp decodes it).
pub fn synth_frame(rng: &mut Rng, w: u32, h: u32, style: u64) -> (Vec<u8>, Hdr) {
    let mbs_w = ((w + 15) / 16) as usize;
    let mbs_h = ((h + 15) / 16) as usize;
    let fill = |rng: &mut Rng, n: usize, style: u64| -> Vec<u8> {
        match style % 4 {
            0 => rng.bytes(n),
            // random prefix then zeros: sparse coefficients after a busy start
            1 => { let k = rng.below(n as u64 / 4 + 1) as usize; let mut v = rng.bytes(k); v.resize(n, 0); v }
            // bytes biased to few set bits
            2 => (0..n).map(|_| rng.byte() & rng.byte() & rng.byte()).collect(),
            _ => (0..n).map(|_| if rng.chance(1, 3) { rng.byte() } else { 0 }).collect(),
        }
    };
    let p0len = 2200 + 200 * mbs_w * mbs_h;
    let p0 = if (style >> 8) % 2 == 0 {
        controlled_p0(rng, p0len)
    } else {
        let mut p0 = fill(rng, p0len, if style % 8 < 4 { 0 } else { style });
        // first two literal bits (colour space, clamping type) = 0: clamping required, as libwebp assumes
        p0[0] &= 0x3f;
        p0
    };
    let hdr = parse_hdr(&p0);
    let nparts = 1usize << hdr.parts_log2;
    let mut out = Vec::new();
    let tag: u32 = (0) | (0 << 1) | (1 << 4) | ((p0.len() as u32) << 5);
    out.extend_from_slice(&tag.to_le_bytes()[..3]);
    out.extend_from_slice(&[0x9d, 0x01, 0x2a]);
    out.extend_from_slice(&(w as u16 | ((rng.below(4) as u16) << 14)).to_le_bytes());
    out.extend_from_slice(&(h as u16 | ((rng.below(4) as u16) << 14)).to_le_bytes());
    out.extend_from_slice(&p0);
    let parts: Vec<Vec<u8>> = (0..nparts).map(|i| {
        let rows = (mbs_h + nparts - 1 - i) / nparts;
        fill(rng, 64 + 9300 * mbs_w * rows.max(1), style / 4)
    }).collect();
    for p in &parts[..nparts - 1] {
        out.extend_from_slice(&(p.len() as u32).to_le_bytes()[..3]);
    }
    for p in &parts { out.extend_from_slice(p); }
    (out, hdr)
}

fn synth_cases(rep: &mut Report, rng: &mut Rng, n: usize) {
    for i in 0..n {
        let (w, h) = match i % 6 {
            0 => (1 + rng.below(16), 1 + rng.below(16)),
            1 => (1 + rng.below(48), 1 + rng.below(48)),
            2 => (16 * (1 + rng.below(3)), 16 * (1 + rng.below(3))),
            3 => (1 + rng.below(80), 1 + rng.below(20)),
            4 => (1 + rng.below(20), 1 + rng.below(80)),
            _ => (17 + rng.below(31), 17 + rng.below(31)),
        };
        let style = rng.next();
        let (vp8, hd) = synth_frame(rng, w as u32, h as u32, style);
        for (c, k) in [(hd.seg, "synth_segments"), (hd.seg && hd.seg_map, "synth_segment_map"), (hd.seg && hd.seg_data && hd.seg_abs, "synth_segment_abs"), (hd.seg && hd.seg_data && !hd.seg_abs, "synth_segment_delta"), (hd.simple, "synth_simple_filter"), (!hd.simple, "synth_normal_filter"), (hd.level == 0, "synth_level0"), (hd.level == 0 && hd.seg && hd.seg_lf.iter().any(|&x| x > 0), "synth_level0_segment_override"), (hd.lf_adj, "synth_lf_delta_enabled"), (hd.ref_delta[0] != 0, "synth_ref_delta0_nonzero"), (hd.mode_delta[0] != 0, "synth_mode_delta0_nonzero"), (hd.sharp > 0, "synth_sharpness")] {
            if c { rep.hit(k); }
        }
        rep.hit(&format!("synth_partitions_{}", 1 << hd.parts_log2));
        let label = format!("synth {w}x{h} {hd:?}");
        if i < 2 { rep.sample(json!({"frame": label, "bytes": vp8.len()})); }
        if hd.color != 0 || hd.clamp != 0 {
            rep.hit("synth_skipped_colour_or_clamp_bit_set");
            continue;
        }
        // RFC 6386 (and libvpx) clamp the segment-adjusted level to 0..63 BEFORE adding the
        // reference/mode deltas; libwebp clamps only at the end.  Where the two differ the RFC
        // is normative and libwebp's planes are not the reference: such frames are decoded
        // (no panic) but not compared; the level computation itself is compared with the Lean
        // model (RFC rule) through the hook for all those combinations.
        let c63 = |v: i32| v.clamp(0, 63);
        let ambiguous = hd.level > 0 && hd.lf_adj && (0..if hd.seg { 4 } else { 1 }).any(|sgm| {
            let base = if hd.seg { if hd.seg_abs { hd.seg_lf[sgm] } else { hd.level as i32 + hd.seg_lf[sgm] } } else { hd.level as i32 };
            [0, hd.mode_delta[0]].iter().any(|m| c63(c63(base) + hd.ref_delta[0] + m) != c63(base + hd.ref_delta[0] + m))
        });
        if ambiguous {
            rep.hit("synth_not_compared_level_clamp_order(RFC_vs_libwebp)");
            let r = catch(|| image_webp::vp8::Vp8Decoder::decode_frame(Cursor::new(&vp8[..])).is_ok());
            if let Err(m) = r {
                rep.disagree(Disagreement { case: format!("vp8frame {} {label}", hex(&vp8)), got: format!("PANIC {m}"), expected: "decoded".into(), class: "violation", obligation: "C02: a valid keyframe decodes".into(), detail: label });
            }
            continue;
        }
        frame_case(rep, &riff(&chunk(b"VP8 ", &vp8)), &label);
    }
}

/// context-bookkeeping records of decoded frames waiting for the model: (request line, contexts recorded by the hook)
static CTX_LINES: std::sync::Mutex<Vec<(String, String, String)>> = std::sync::Mutex::new(Vec::new());

/// turns the hook's log of one decoded frame into the `vp8ctx` request and the recorded contexts
fn ctx_request(log: &[u32], mbw: u32, mbh: u32) -> Option<(String, String)> {
    let mut mbs: Vec<String> = Vec::new();
    let mut cur: Option<(u32, u32, String)> = None; // (hasY2, skipped, bits)
    let mut recorded = String::new();
    let mut i = 0;
    let mut expect = (0u32, 0u32);
    while i < log.len() {
        match log[i] {
            1 => {
                if let Some((h, s, b)) = cur.take() { mbs.push(format!("{h}{s}:{b}")); }
                if log[i + 1] != expect.0 || log[i + 2] != expect.1 { return None; }
                expect = if expect.0 + 1 == mbw { (0, expect.1 + 1) } else { (expect.0 + 1, expect.1) };
                cur = Some((log[i + 3], log[i + 4], String::new()));
                i += 5;
            }
            2 => {
                let c = cur.as_mut()?;
                c.2.push(if log[i + 3] != 0 { '1' } else { '0' });
                recorded.push(char::from(b'0' + log[i + 2] as u8));
                i += 4;
            }
            3 => i += 4,
            4 | 5 => i += 2,
            6 => i += 38,
            7 => i += 33,
            _ => return None,
        }
    }
    if let Some((h, s, b)) = cur.take() { mbs.push(format!("{h}{s}:{b}")); }
    if mbs.len() as u32 != mbw * mbh { return None; }
    Some((format!("vp8ctx {mbw} {mbh} {}", mbs.join(" ")), recorded))
}

/// the sub-block mode part of the hook's log as a `vp8mode` request and the recorded (top, left) contexts
fn mode_request(log: &[u32], mbw: u32, mbh: u32) -> Option<(String, String)> {
    let mut mbs: Vec<String> = Vec::new();
    let mut cur: Option<String> = None;
    let mut recorded = String::new();
    let mut i = 0;
    let mut expect_x = 0u32;
    while i < log.len() {
        match log[i] {
            5 => {
                if let Some(m) = cur.take() { mbs.push(m); }
                if log[i + 1] != expect_x { return None; }
                expect_x = if expect_x + 1 == mbw { 0 } else { expect_x + 1 };
                cur = Some(String::new());
                i += 2;
            }
            3 => {
                let c = cur.as_mut()?;
                if c.is_empty() { c.push('b'); }
                c.push(char::from(b'0' + log[i + 3] as u8));
                recorded.push(char::from(b'0' + log[i + 1] as u8));
                recorded.push(char::from(b'0' + log[i + 2] as u8));
                i += 4;
            }
            4 => { let c = cur.as_mut()?; c.push('m'); c.push(char::from(b'0' + log[i + 1] as u8)); i += 2; }
            1 => i += 5,
            2 => i += 4,
            6 => i += 38,
            7 => i += 33,
            _ => return None,
        }
    }
    if let Some(m) = cur.take() { mbs.push(m); }
    if mbs.len() as u32 != mbw * mbh || mbs.iter().any(|m| m.len() != 2 && m.len() != 17) { return None; }
    Some((format!("vp8mode {mbw} {mbh} {} {}", hk::intra_mode_default(), mbs.join(" ")), recorded))
}

/// the luma border part of the hook's log as a `vp8border` request and the recorded borders
fn border_request(log: &[u32], mbw: u32, mbh: u32) -> Option<(String, String)> {
    let mut mbs: Vec<String> = Vec::new();
    let mut recorded = String::new();
    let mut i = 0;
    while i < log.len() {
        match log[i] {
            6 => { for k in 0..37 { recorded.push_str(&format!("{:02x}", log[i + 1 + k])); } i += 38; }
            7 => { mbs.push((0..32).map(|k| format!("{:02x}", log[i + 1 + k])).collect()); i += 33; }
            1 => i += 5,
            2 | 3 => i += 4,
            4 | 5 => i += 2,
            _ => return None,
        }
    }
    if mbs.len() as u32 != mbw * mbh || recorded.len() as u32 != 74 * mbw * mbh { return None; }
    Some((format!("vp8border {mbw} {mbh} {}", mbs.join(" ")), recorded))
}

pub fn frame_case(rep: &mut Report, file: &[u8], label: &str) {
    let Some((_, vp8)) = chunks_of(file).into_iter().find(|(cc, _)| cc == b"VP8 ") else { return };
    let simple = riff(&chunk(b"VP8 ", &vp8));
    let Some((w, h, y, u, v)) = oracle::decode_yuv(&simple) else {
        rep.hit("oracle_rejected");
        return;
    };
    let case = format!("vp8frame {} {label}", hex(&vp8));
    rep.case(&case, true);
    rep.oracle_checks += 1;
    rep.hit(&format!("frame_w{}_h{}", w % 16, h % 16).replace("w0", "w0(aligned)"));
    hk::take_max_abs_coefficient();
    hk::take_max_transform_value();
    hk::take_ctx_log();
    let r = catch(|| image_webp::vp8::Vp8Decoder::decode_frame(Cursor::new(&vp8[..])).map_err(|e| format!("{e:?}")));
    let ctx_log = hk::take_ctx_log();
    if let Ok(Ok(_)) = &r {
        let (mbw, mbh) = ((w + 15) / 16, (h + 15) / 16);
        if mbw * mbh <= 4000 {
            match ctx_request(&ctx_log, mbw, mbh) {
                Some((line, rec)) => {
                    if let Some((bl, br)) = border_request(&ctx_log, mbw, mbh) {
                        let mut l = CTX_LINES.lock().unwrap(); if l.len() < 60000 { l.push((bl, br, case.clone())); }
                    } else {
                        rep.disagree(Disagreement { case: case.clone(), got: "malformed border log".into(), expected: "one border and one reconstruction record per macroblock".into(), class: "correspondence", obligation: "tie2: the border-bookkeeping hook log is well-formed".into(), detail: label.into() });
                    }
                    if let Some((ml, mr)) = mode_request(&ctx_log, mbw, mbh) {
                        for t in ml.split(' ').skip(4) { rep.hit(if t.starts_with('b') { "mode_mb_b_pred" } else { "mode_mb_16x16" }); }
                        let mut l = CTX_LINES.lock().unwrap(); if l.len() < 40000 { l.push((ml, mr, case.clone())); }
                    } else {
                        rep.disagree(Disagreement { case: case.clone(), got: "malformed mode log".into(), expected: "one record per macroblock".into(), class: "correspondence", obligation: "tie2: the mode-bookkeeping hook log is well-formed".into(), detail: label.into() });
                    }
                    for t in line.split(' ').skip(3) { match &t[..2] { "01" => rep.hit("ctx_mb_skipped_without_y2"), "11" => rep.hit("ctx_mb_skipped_with_y2"), "00" => rep.hit("ctx_mb_coded_without_y2"), _ => rep.hit("ctx_mb_coded_with_y2") } }
                    let mut l = CTX_LINES.lock().unwrap(); if l.len() < 40000 { l.push((line, rec, case.clone())); }
                }
                None => rep.disagree(Disagreement { case: case.clone(), got: "malformed context log".into(), expected: "one record per macroblock in raster order".into(), class: "correspondence", obligation: "tie2: the context-bookkeeping hook log is well-formed".into(), detail: label.into() }),
            }
        }
    }
    let maxc = hk::take_max_abs_coefficient();
    let maxt = hk::take_max_transform_value();
    if maxc > 32767 || maxt > 32767 {
        // Reference decoders (RFC 6386's, libvpx, libwebp) hold dequantised coefficients in 16
        // bits and compute the inverse transforms in 16-bit SIMD lanes / 32-bit C arithmetic: a
        // stream whose coefficients or transform intermediates leave the 16-bit range has no
        // defined reconstruction (the references themselves disagree).  No real encoder comes
        // near (residuals are below 2^12).  Such frames must decode without panic, nothing more.
        rep.hit(if maxc > 32767 { "frame_not_compared_coefficient_outside_16_bits" } else { "frame_not_compared_transform_intermediate_outside_16_bits" });
        if let Err(m) = r {
            rep.disagree(Disagreement { case, got: format!("PANIC {m}"), expected: "no panic".into(), class: "violation", obligation: "C02/C03: decoding never panics".into(), detail: label.into() });
        }
        return;
    }
    rep.hit(&format!("frame_max_coefficient_2^{}", 32 - maxc.leading_zeros()));
    match r {
        Ok(Ok(f)) => {
            let dims_ok = u32::from(f.width) == w && u32::from(f.height) == h && f.ybuf.len() == y.len() && f.ubuf.len() == u.len() && f.vbuf.len() == v.len();
            let d = |a: &[u8], b: &[u8]| a.iter().zip(b).filter(|(x, y)| x != y).count();
            if label == "replay" {
                rep.notes.push(format!("impl Y {} U {} V {}", hex(&f.ybuf[..f.ybuf.len().min(512)]), hex(&f.ubuf[..f.ubuf.len().min(128)]), hex(&f.vbuf[..f.vbuf.len().min(128)])));
                rep.notes.push(format!("ref  Y {} U {} V {}", hex(&y[..y.len().min(512)]), hex(&u[..u.len().min(128)]), hex(&v[..v.len().min(128)])));
            }
            if !dims_ok || f.ybuf != y || f.ubuf != u || f.vbuf != v {
                let first = f.ybuf.iter().zip(&y).position(|(a, b)| a != b);
                rep.disagree(Disagreement {
                    case,
                    got: format!("planes {}x{} sizes {}/{}/{}; differing samples Y {} U {} V {}", f.width, f.height, f.ybuf.len(), f.ubuf.len(), f.vbuf.len(), d(&f.ybuf, &y), d(&f.ubuf, &u), d(&f.vbuf, &v)),
                    expected: format!("libwebp planes {w}x{h} sizes {}/{}/{}", y.len(), u.len(), v.len()),
                    class: "violation",
                    obligation: "C02: decoded Y, U, V planes equal the RFC 6386 reconstruction (libwebp's WebPDecodeYUV) sample for sample, with plane sizes w x h and ceil(w/2) x ceil(h/2)".into(),
                    detail: format!("{label}; first differing luma sample at {:?}", first.map(|k| (k as u32 % w, k as u32 / w))),
                });
            }
        }
        Ok(Err(e)) => rep.disagree(Disagreement { case, got: format!("err {e}"), expected: "decoded".into(), class: "violation", obligation: "C02: a valid keyframe decodes".into(), detail: label.into() }),
        Err(m) => rep.disagree(Disagreement { case, got: format!("PANIC {m}"), expected: "decoded".into(), class: "violation", obligation: "C02: a valid keyframe decodes".into(), detail: label.into() }),
    }
}

/// `calculate_filter_parameters` through its hook against `Vp8K.filterParams`: the whole grid of
/// frame level x sharpness x B_PRED for no segments / absolute / delta segment values and
/// deltas at boundary and random values
fn fparam_cases(drv: &mut Drv, rep: &mut Report, rng: &mut Rng, random: usize) {
    let mut lines = Vec::new();
    let mut args = Vec::new();
    let bnd = [-63i32, -62, -40, -16, -1, 0, 1, 15, 39, 62, 63];
    for lvl in 0..64u8 {
        for sharp in 0..8u8 {
            for bp in [false, true] {
                args.push((lvl, sharp, false, false, 0i8, 0i32, 0i32, bp));
                let (a, b, c) = (*rng.pick(&bnd), *rng.pick(&bnd), *rng.pick(&bnd));
                args.push((lvl, sharp, true, rng.chance(1, 2), a as i8, b, c, bp));
            }
        }
    }
    for _ in 0..random {
        args.push((rng.below(64) as u8, rng.below(8) as u8, rng.chance(2, 3), rng.chance(1, 2), (rng.below(127) as i32 - 63) as i8, rng.below(127) as i32 - 63, rng.below(127) as i32 - 63, rng.chance(1, 2)));
    }
    for a in &args {
        lines.push(format!("vp8k fparams {} {} {} {} {} {} {} {}", a.0, a.1, a.2 as u8, a.3 as u8, a.4, a.5, a.6, a.7 as u8));
    }
    let exp = drv.ask_many(&lines);
    for ((a, line), exp) in args.iter().zip(&lines).zip(&exp) {
        let r = catch(|| hk::vp8_filter_parameters(a.0, a.1, a.2, a.3, a.4, a.5, a.6, a.7));
        let got = match r {
            Ok((l, i, h)) => format!("{l},{i},{h},{},{}", (u32::from(l) + 2) * 2 + u32::from(i), u32::from(l) * 2 + u32::from(i)),
            Err(m) => format!("PANIC {m}"),
        };
        rep.case(line, true);
        rep.hit("kernel_filter_parameters");
        if &got != exp {
            rep.disagree(Disagreement { case: line.clone(), got, expected: exp.clone(), class: "violation", obligation: "C02: filter level / interior limit / hev threshold follow RFC 6386 sections 9.6 and 15.1 (Vp8K.filterParams)".into(), detail: String::new() });
        }
    }
}

pub fn run(o: &Opts) -> Report {
    let mut rep = Report::new("C02");
    let mut drv = Drv::spawn(&o.drv);
    if let Some(case) = &o.replay {
        let p: Vec<&str> = case.split_whitespace().collect();
        if p[0] == "vp8frame" {
            frame_case(&mut rep, &riff(&chunk(b"VP8 ", &unhex(p[1]))), "replay");
        } else if p[0] == "vp8framemodel" {
            let vp8 = unhex(p[1]);
            let got = match catch(|| image_webp::vp8::Vp8Decoder::decode_frame(Cursor::new(&vp8[..]))) {
                Ok(Ok(f)) => format!("ok {} {} {}/{} {}/{} {}/{}", f.width, f.height, fnv_bytes(FNV_INIT, &f.ybuf), f.ybuf.len(), fnv_bytes(FNV_INIT, &f.ubuf), f.ubuf.len(), fnv_bytes(FNV_INIT, &f.vbuf), f.vbuf.len()),
                Ok(Err(_)) => "err".to_string(),
                Err(m) => format!("PANIC {m}"),
            };
            let exp = drv.ask(case);
            rep.case(case, true);
            if got != exp {
                rep.disagree(Disagreement { case: case.to_string(), got, expected: exp, class: "violation", obligation: "C02: the decoder reconstructs a key frame as Vp8Frame.decode does".into(), detail: "replayed".into() });
            }
            frame_case(&mut rep, &riff(&chunk(b"VP8 ", &vp8)), "replay");
        } else if ["vp8quant", "vp8lf", "vp8resid", "vp8intra"].contains(&p[0]) {
            // re-run the hook on the arguments of the line and compare with the model again
            let bytes = |t: &str| if t == "-" { Vec::new() } else { unhex(t) };
            let fl9 = |t: &str| { let mut a = [0u8; 9]; for (k, c) in t.chars().take(9).enumerate() { a[k] = (c == '1') as u8; } a };
            let sfl = |a: &[u8; 9]| a.iter().map(|v| if *v != 0 { '1' } else { '0' }).collect::<String>();
            let got = match p[0] {
                "vp8quant" => {
                    let lv: Vec<i8> = p[3].split(',').map(|x| x.parse().unwrap_or(0)).collect();
                    match catch(|| hk::vp8_quant_factors(&bytes(p[4]), p[1] == "1", p[2] == "1", [lv[0], lv[1], lv[2], lv[3]])) {
                        Ok(Ok(f)) => f.iter().map(|s| s.iter().map(|x| x.to_string()).collect::<Vec<_>>().join(",")).collect::<Vec<_>>().join(";"),
                        Ok(Err(_)) => "err".to_string(),
                        Err(m) => format!("PANIC {m}"),
                    }
                }
                "vp8lf" => {
                    let (w, h): (usize, usize) = (p[1].parse().unwrap_or(1), p[2].parse().unwrap_or(1));
                    let (mbw, _mbh) = (w.div_ceil(16), h.div_ceil(16));
                    let mbs: Vec<(bool, bool)> = p[6].as_bytes().chunks(2).map(|c| (c[0] == b'1', c.get(1) == Some(&b'1'))).collect();
                    let crop = |b: &[u8], stride: usize, cw: usize, ch: usize| -> Vec<u8> { (0..ch).flat_map(|r| b[r * stride..r * stride + cw].to_vec()).collect() };
                    match catch(|| hk::vp8_loop_filter(w as u16, h as u16, p[3] == "1", p[4].parse().unwrap_or(0), p[5].parse().unwrap_or(0), &bytes(p[7]), &bytes(p[8]), &bytes(p[9]), &mbs)) {
                        Ok((fy, fu, fv)) => format!("{} {} {}", hex(&crop(&fy, mbw * 16, w, h)), hex(&crop(&fu, mbw * 8, w.div_ceil(2), h.div_ceil(2))), hex(&crop(&fv, mbw * 8, w.div_ceil(2), h.div_ceil(2)))),
                        Err(m) => format!("PANIC {m}"),
                    }
                }
                "vp8resid" => {
                    let q: Vec<i16> = p[4].split(',').map(|x| x.parse().unwrap_or(0)).collect();
                    match catch(|| hk::vp8_read_residual_data(&bytes(p[6]), &bytes(p[5]), p[1] == "1", fl9(p[2]), fl9(p[3]), [q[0], q[1], q[2], q[3], q[4], q[5]])) {
                        Ok(Ok((blocks, nz, t, l))) => format!("ok {} {} {} {}", nz as u8, sfl(&t), sfl(&l), blocks.iter().map(|v| v.to_string()).collect::<Vec<_>>().join(",")),
                        Ok(Err(_)) => "err".to_string(),
                        Err(m) => format!("PANIC {m}"),
                    }
                }
                _ => {
                    let n = |k: usize| p[k].parse::<usize>().unwrap_or(0);
                    let mut bm = [0i8; 16];
                    for (k, c) in p[6].chars().take(16).enumerate() { bm[k] = c.to_digit(10).unwrap_or(0) as i8; }
                    let res: Vec<i32> = p[7].split(',').map(|x| x.parse().unwrap_or(0)).collect();
                    let (y, u, v) = (bytes(p[10]), bytes(p[11]), bytes(p[12]));
                    let mbw = n(1);
                    let mbh = (y.len() / (mbw * 256).max(1)).max(1);
                    match catch(|| hk::vp8_intra_predict(mbw as u16, mbh as u16, n(2), n(3), n(4) as i8, n(5) as i8, bm, &res, &bytes(p[8]), &bytes(p[9]), &y, &u, &v)) {
                        Ok(Some((fy, fu, fv, ft, fl))) => format!("{} {} {} {} {}", hex(&fy), hex(&fu), hex(&fv), hex(&ft), hex(&fl)),
                        Ok(None) => "bad-mode".to_string(),
                        Err(m) => format!("PANIC {m}"),
                    }
                }
            };
            let exp = drv.ask(case);
            rep.case(case, true);
            if got != exp {
                let k = got.as_bytes().iter().zip(exp.as_bytes()).position(|(a, b)| a != b).unwrap_or(got.len().min(exp.len()));
                rep.disagree(Disagreement { case: case.to_string(), got: got.chars().skip(k.saturating_sub(10)).take(60).collect(), expected: exp.chars().skip(k.saturating_sub(10)).take(60).collect(), class: "violation", obligation: format!("C02: the real function behind `{}` equals its model (replayed)", p[0]), detail: format!("first differing character {k}") });
            }
        } else {
            let exp = drv.ask(case);
            rep.notes.push(format!("kernel replay: model says {exp}"));
        }
        return rep;
    }
    rep.rule = "(a) kernels through hooks vs the Lean model: idct4x4 / iwht4x4 on coefficient blocks of magnitudes 1..32767 (sparse, DC-only, dense), the three loop-filter kernels on 8-pixel edges (random, near-flat, step, extreme values) x hev thresholds 0..2 x interior/edge limits; (b) whole keyframes encoded by libwebp: sizes with every residue mod 16 in both dimensions incl. 1xN and Nx1, qualities 0..100, filter strength 0..100, sharpness 0..7, simple/strong filter, 1/2/4 segments, 1..8 partitions, image families (noise, gradients, flat, edges); planes compared with WebPDecodeYUV sample for sample; the repository's own lossy test images. distinct_nontrivial = distinct kernel inputs and frames".into();
    let mut rng = Rng::new(o.seed ^ 0xC02);
    kernel_cases(&mut drv, &mut rep, &mut rng, if o.thorough() { 200000 } else { 20000 });
    predictor_cases(&mut drv, &mut rep, &mut rng, if o.thorough() { 60000 } else { 6500 });
    coefficient_cases(&mut drv, &mut rep, &mut rng, if o.thorough() { 40000 } else { 4000 });
    quant_cases(&mut drv, &mut rep, &mut rng, if o.thorough() { 40000 } else { 4000 });
    loopfilter_cases(&mut drv, &mut rep, &mut rng, if o.thorough() { 12000 } else { 900 });
    residual_cases(&mut drv, &mut rep, &mut rng, if o.thorough() { 20000 } else { 1500 });
    intra_cases(&mut drv, &mut rep, &mut rng, if o.thorough() { 15000 } else { 1500 });
    header_cases(&mut drv, &mut rep, &mut rng, if o.thorough() { 6000 } else { 600 });
    frame_model_cases(&mut drv, &mut rep, &mut rng, if o.thorough() { 3000 } else { 300 });
    fparam_cases(&mut drv, &mut rep, &mut rng, if o.thorough() { 100000 } else { 6000 });
    // (b) frames
    let n = if o.thorough() { 1200 } else { 160 };
    for i in 0..n {
        let (w, h) = match i % 8 {
            0 => (1 + (i / 8) % 16 + 16 * rng.below(3), 1 + rng.below(40)),
            1 => (1 + rng.below(40), 1 + (i / 8) % 16 + 16 * rng.below(3)),
            2 => (1, 1 + rng.below(50)),
            3 => (1 + rng.below(50), 1),
            4 => (16 * (1 + rng.below(4)), 16 * (1 + rng.below(4))),
            _ => (1 + rng.below(70), 1 + rng.below(70)),
        };
        let (w, h) = (w as u32, h as u32);
        let rgba = match rng.below(5) {
            0 => random_rgba(&mut rng, w, h, 0),
            1 => (0..w * h).flat_map(|k| { let (x, y) = (k % w, k / w); [(x * 255 / w) as u8, (y * 255 / h) as u8, ((x + y) * 255 / (w + h)) as u8, 255] }).collect(),
            2 => vec![[rng.byte(), rng.byte(), rng.byte(), 255]; (w * h) as usize].concat(),
            3 => (0..w * h).flat_map(|k| { let (x, y) = (k % w, k / w); if (x / 5 + y / 3) % 2 == 0 { [250, 250, 250, 255] } else { [5, 5, 5, 255] } }).collect(),
            _ => (0..w * h).flat_map(|k| { let (x, y) = (k % w, k / w); let v = ((x * 7 + y * 13) % 256) as u8; [v, v.wrapping_add(rng.below(30) as u8), 255 - v, 255] }).collect(),
        };
        let q = *rng.pick(&[0.0f32, 5.0, 20.0, 50.0, 75.0, 90.0, 100.0]);
        let (fs, sh, ft, seg, part) = (*rng.pick(&[0i32, 10, 35, 60, 100]), rng.below(8) as i32, rng.below(2) as i32, *rng.pick(&[1i32, 2, 4]), rng.below(4) as i32);
        let label = format!("{w}x{h} q{q} filter{fs} sharp{sh} type{ft} seg{seg} part{part}");
        let file = match catch(|| oracle::encode(&drop_alpha(&rgba), w as i32, h as i32, false, |c| { c.quality = q; c.method = (i % 5) as i32; c.filter_strength = fs; c.filter_sharpness = sh; c.filter_type = ft; c.segments = seg; c.partitions = part; c.autofilter = 0; })) { Ok(f) => f, Err(_) => { rep.hit("encoder_failed"); continue; } };
        if i < 2 {
            rep.sample(json!({"frame": label, "bytes": file.len()}));
        }
        frame_case(&mut rep, &file, &label);
    }
    synth_cases(&mut rep, &mut rng, if o.thorough() { 6000 } else { 600 });
    // the repository's own lossy images
    for dir in ["gallery1", "gallery2", "regression"] {
        if let Ok(rd) = std::fs::read_dir(format!("/repo/tests/images/{dir}")) {
            let mut names: Vec<_> = rd.filter_map(|e| e.ok().map(|e| e.path())).collect();
            names.sort();
            for p in names {
                if let Ok(f) = std::fs::read(&p) {
                    if f.windows(4).any(|w| w == b"VP8 ") {
                        frame_case(&mut rep, &f, &format!("repo:{}", p.file_name().unwrap().to_string_lossy()));
                    }
                }
            }
        }
    }
    // tie 2 for the context bookkeeping (model Vp8Ctx.run, for which C02.coefficient_contexts_are_rfc
    // is proved): the complexity passed to every read_coefficients call of every decoded frame
    let pending: Vec<(String, String, String)> = std::mem::take(&mut *CTX_LINES.lock().unwrap());
    let lines: Vec<String> = pending.iter().map(|p| p.0.clone()).collect();
    if std::env::var("VERIF_DUMP_CTX").is_ok() { let _ = std::fs::write("/tmp/ctxlines.txt", pending.iter().map(|p| format!("{} || {}", p.0, p.1)).collect::<Vec<_>>().join("\n")); }
    let replies = ask_parallel(&o.drv, &lines, 8);
    for ((line, rec, case), reply) in pending.iter().zip(&replies) {
        let is_mode = line.starts_with("vp8mode");
        let is_border = line.starts_with("vp8border");
        rep.hit(if is_border { "border_bookkeeping_tie_frames" } else if is_mode { "mode_bookkeeping_tie_frames" } else { "context_bookkeeping_tie_frames" });
        let model = reply.split("ctx=").nth(1).unwrap_or("?");
        if !reply.starts_with("spec=true") {
            rep.disagree(Disagreement { case: case.clone(), got: reply.chars().take(80).collect(), expected: "spec=true".into(), class: "correspondence", obligation: if is_border { "instance of theorem C02.luma_borders_are_rfc (model = RFC rule)".into() } else if is_mode { "instance of theorem C02.subblock_mode_contexts_are_rfc (model = RFC rule)".into() } else { "instance of theorem C02.coefficient_contexts_are_rfc (model = RFC rule)".into() }, detail: String::new() });
        }
        if model != rec {
            let k = model.chars().zip(rec.chars()).position(|(a, b)| a != b).unwrap_or(model.len().min(rec.len()));
            let ob = if is_border {
                "C02: the border pixels (corner, 16 above, 4 above-right, 16 left) every macroblock is predicted from are the neighbouring pixels of the reconstructed frame as RFC 6386 section 12 defines them (127 / 129 outside the frame, above-right of the last column repeats the last pixel above; model Vp8Border.run = specification, proved)"
            } else if is_mode {
                "C02: the (above, left) mode contexts of every sub-block mode read are the modes of the neighbouring sub-blocks as RFC 6386 section 11.3 defines them (model Vp8Mode.run = specification, proved)"
            } else {
                "C02: the context (complexity) passed to every read_coefficients call is the one RFC 6386 section 13.3 defines from the neighbouring blocks (model Vp8Ctx.run = specification, proved)"
            };
            rep.disagree(Disagreement { case: case.clone(), got: format!("item #{k}: {:?}", rec.chars().nth(k)), expected: format!("item #{k}: {:?} ({} vs {} items)", model.chars().nth(k), rec.len(), model.len()), class: "violation", obligation: ob.into(), detail: String::new() });
        }
    }
    rep
}
