//! Random valid animations and their description for the Lean model.
use crate::common::*;
use crate::webpfile::*;

pub struct GenAnim {
    pub spec: AnimSpec,
    pub file: Vec<u8>,
    /// per frame: (has_alpha, decoded pixels) as the crate decodes the payload standalone
    pub decoded: Vec<(bool, Vec<u8>)>,
}

impl GenAnim {
    /// `<cw> <ch> <bghex> <alpha> <frames>` part of an `anim` request
    pub fn model_desc(&self) -> String {
        let frames: Vec<String> = self
            .spec
            .frames
            .iter()
            .zip(self.decoded.iter())
            .map(|(f, (ha, px))| {
                format!("{},{},{},{},{},{},{},{},{}", f.x, f.y, f.w, f.h, f.duration, f.blend as u8, f.dispose as u8, *ha as u8, hex(px))
            })
            .collect();
        format!(
            "{} {} {} {} {}",
            self.spec.cw,
            self.spec.ch,
            hex(&self.spec.bg_file_order),
            self.spec.alpha_flag as u8,
            if frames.is_empty() { "-".to_string() } else { frames.join(";") }
        )
    }
    pub fn shape(&self) -> String {
        self.spec
            .frames
            .iter()
            .map(|f| format!("{}{}{}", f.payload.kind(), if f.blend { "+blend" } else { "" }, if f.dispose { "+dispose" } else { "" }))
            .collect::<Vec<_>>()
            .join("|")
    }
}

pub struct GenOpts {
    pub max_canvas: u32,
    pub max_frames: u32,
    pub lossy: bool,
    /// restrict alpha to {0,255} and background to transparent (for the libwebp oracle leg)
    pub binary_alpha: bool,
}

pub fn gen_anim(rng: &mut Rng, o: &GenOpts) -> Option<GenAnim> {
    let cw = rng.range(1, o.max_canvas as u64) as u32;
    let ch = rng.range(1, o.max_canvas as u64) as u32;
    let nframes = rng.range(1, o.max_frames as u64) as usize;
    let bg = if o.binary_alpha {
        [0, 0, 0, 0]
    } else {
        match rng.below(4) {
            0 => [0, 0, 0, 0],
            1 => [255, 255, 255, 255],
            _ => [rng.byte(), rng.byte(), rng.byte(), *rng.pick(&[0u8, 255, 128, rng.0 as u8])],
        }
    };
    let mut frames = Vec::new();
    let mut decoded = Vec::new();
    for k in 0..nframes {
        // geometry: even offsets; bias towards sub-canvas first frames and full-canvas frames
        let full = rng.chance(1, 4);
        let (x, y, w, h) = if full {
            (0, 0, cw, ch)
        } else {
            let x = 2 * rng.below((cw as u64 + 1) / 2) as u32;
            let y = 2 * rng.below((ch as u64 + 1) / 2) as u32;
            let x = x.min(cw - 1) & !1;
            let y = y.min(ch - 1) & !1;
            let w = rng.range(1, (cw - x) as u64) as u32;
            let h = rng.range(1, (ch - y) as u64) as u32;
            (x, y, w, h)
        };
        let alpha_mode = if o.binary_alpha { rng.below(2) as u32 } else { rng.below(4) as u32 };
        let rgba = random_rgba(rng, w, h, alpha_mode);
        let kind = if o.lossy { rng.below(4) } else { 0 };
        let payload = match kind {
            0 | 1 => make_lossless(&rgba, w, h, rng.chance(1, 2)),
            2 => make_lossy(&drop_alpha(&rgba), w, h, *rng.pick(&[20.0f32, 60.0, 90.0])),
            _ => match make_lossy_alpha(&rgba, w, h, 70.0, *rng.pick(&[100, 60]), rng.below(3) as i32, rng.below(2) as i32) {
                Some(p) => p,
                None => make_lossless(&rgba, w, h, true),
            },
        };
        let dec = decode_payload(&payload, w, h).ok()?;
        decoded.push(dec);
        frames.push(FrameSpec {
            x,
            y,
            w,
            h,
            duration: if k % 3 == 2 { 0xff_ffff } else { rng.below(1000) as u32 },
            blend: rng.chance(1, 2),
            dispose: rng.chance(1, 2),
            payload,
        });
    }
    let spec = AnimSpec { cw, ch, alpha_flag: rng.chance(2, 3), bg_file_order: bg, loops: rng.below(3) as u16, frames };
    let file = anim_file(&spec);
    Some(GenAnim { spec, file, decoded })
}
