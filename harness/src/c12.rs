//! C12: `do_alpha_blending` against the Lean model `Blend.blendPixel` (tie 2).
//! Exhaustive over all 2^32 (s, sa, d, da) channel tuples (digest per source alpha),
//! plus random full pixels (cross-channel packing).
//!
//! Judgement for a pixel pair: implementation = model (`blend`) is the normal case; the model's
//! theorems then apply.  The opaque clause is false of the model itself (known finding
//! KF-C12-opaque, `C12.opaque_full_false`), so cases with source alpha 255 whose result equals the
//! model's are attributed to that finding.  If the implementation differs from the model it is
//! compared with the repaired model (`blendfixed`, proved to satisfy every clause); otherwise the
//! property's own predicates are evaluated on the implementation's result.
use crate::common::*;
use image_webp::verif_hooks as hk;
use serde_json::json;

pub const KF_OPAQUE: &str = "KF-C12-opaque";

fn impl_block(sa: u8, da: u8) -> Vec<u8> {
    let mut v = Vec::with_capacity(65537);
    v.push(hk::blend([0, 0, 0, sa], [0, 0, 0, da])[3]);
    for s in 0..=255u8 {
        for d in 0..=255u8 {
            v.push(hk::blend([s, d, s ^ 0x5a, sa], [d, s, d ^ 0xa5, da])[0]);
        }
    }
    v
}

fn impl_row(sa: u8) -> u64 {
    let mut h = FNV_INIT;
    for da in 0..=255u8 {
        let a = hk::blend([0, 0, 0, sa], [0, 0, 0, da])[3];
        h = fnv_byte(h, a);
        for s in 0..=255u8 {
            for d in 0..=255u8 {
                // channel 0 carries (s, d); the other channels carry different data so that
                // any cross-channel leakage would change the result of channel 0
                let r = hk::blend([s, d, s ^ 0x5a, sa], [d, s, d ^ 0xa5, da]);
                h = fnv_byte(h, r[0]);
            }
        }
    }
    h
}

/// The property's own clauses evaluated on a result (mirrors Props/C12.lean's statements).
fn property_holds(src: [u8; 4], dst: [u8; 4], got: [u8; 4]) -> Result<(), String> {
    let sa = i64::from(src[3]);
    let da = i64::from(dst[3]);
    if sa == 255 {
        return if got == src { Ok(()) } else { Err("opaque source must be returned unchanged".into()) };
    }
    if sa == 0 {
        return if got == dst { Ok(()) } else { Err("transparent source must leave the destination unchanged".into()) };
    }
    let a1 = 255 * sa + da * (255 - sa);
    let ra = i64::from(got[3]);
    if (255 * ra - a1).abs() > 255 {
        return Err(format!("result alpha {ra} not within 1 of {}/255", a1));
    }
    for c in 0..3 {
        let s = i64::from(src[c]);
        let d = i64::from(dst[c]);
        let r = i64::from(got[c]);
        let n1 = 255 * s * sa + d * da * (255 - sa);
        if (r * a1 - n1).abs() > 2 * 255 * 255 {
            return Err(format!("channel {c}: weighted error |{r}*{a1}-{n1}| > 2*255*255"));
        }
        if r < s.min(d) - 1 || r > s.max(d) + 1 {
            return Err(format!("channel {c}: {r} outside [min-1,max+1] of ({s},{d})"));
        }
    }
    Ok(())
}

fn check_pixel(drv: &mut Drv, rep: &mut Report, src: [u8; 4], dst: [u8; 4], model: Option<&str>) {
    let line = format!("blend {} {}", hex(&src), hex(&dst));
    let res = catch(|| hk::blend(src, dst));
    let got = match &res {
        Ok(v) => hex(v),
        Err(m) => format!("PANIC {m}"),
    };
    let exp = match model {
        Some(m) => m.to_string(),
        None => drv.ask(&line),
    };
    rep.case(&line, src[3] != 0 && src[3] != 255);
    if got == exp {
        if src[3] == 255 && got != hex(&src) {
            rep.known(KF_OPAQUE, &line, &format!("opaque source {} over {} returned {}", hex(&src), hex(&dst), got));
        }
        return;
    }
    let fixed = drv.ask(&format!("blendfixed {} {}", hex(&src), hex(&dst)));
    if got == fixed {
        rep.hit("equals_repaired_model");
        return;
    }
    let (class, detail) = match &res {
        Err(m) => ("violation", format!("panic: {m}")),
        Ok(v) => match property_holds(src, dst, *v) {
            Err(why) => ("violation", why),
            Ok(()) => ("correspondence", "implementation differs from the model but the C12 clauses hold on this pixel pair".to_string()),
        },
    };
    rep.disagree(Disagreement {
        case: line,
        got,
        expected: exp,
        class,
        obligation: "tie2: do_alpha_blending = Blend.blendPixel (theorems C12.blend_transparent, blend_alpha_bound, blend_channel_range, blend_channel_weighted_error, blend_no_overflow are about Blend.blendPixel)".into(),
        detail,
    });
}

pub fn run(o: &Opts) -> Report {
    let mut rep = Report::new("C12");
    let mut drv = Drv::spawn(&o.drv);
    if let Some(case) = &o.replay {
        let parts: Vec<&str> = case.split_whitespace().collect();
        let s = unhex(parts[1]);
        let d = unhex(parts[2]);
        check_pixel(&mut drv, &mut rep, [s[0], s[1], s[2], s[3]], [d[0], d[1], d[2], d[3]], None);
        return rep;
    }
    rep.rule = "all 256 source alphas x 256 destination alphas x 65536 (s,d) channel pairs through do_alpha_blending (channel 0, with unrelated data in the other channels) and through Blend.chanFull/alphaFull, compared by FNV digest per source alpha and expanded pixel by pixel on mismatch; plus random full pixels compared byte for byte. distinct_nontrivial = (sa,da) blocks with 0<sa<255 enumerated completely + distinct random pixels with 0<sa<255".into();

    let lines: Vec<String> = (0..256).map(|sa| format!("blendrow {sa}")).collect();
    let model = ask_parallel(&o.drv, &lines, o.jobs);
    let mut imp = vec![0u64; 256];
    std::thread::scope(|sc| {
        let hs: Vec<_> = (0..256usize)
            .map(|sa| sc.spawn(move || catch(|| impl_row(sa as u8))))
            .collect();
        for (sa, h) in hs.into_iter().enumerate() {
            imp[sa] = h.join().unwrap().unwrap_or(0);
        }
    });
    rep.evaluations += 256 * 256 * 65536;
    rep.distinct_extra += 254 * 256;
    rep.exhaustive = true;
    rep.exhaustive_note = "2^32 (s,sa,d,da) channel tuples: complete, both sides".into();
    rep.hit_n("rows_exhaustive", 256);
    let mut expanded_rows = 0;
    for sa in 0..256usize {
        if model[sa] == imp[sa].to_string() {
            if sa == 255 {
                // the model itself violates the opaque clause on this row: replay one witness
                check_pixel(&mut drv, &mut rep, [100, 150, 200, 255], [7, 9, 11, 200], None);
            }
            continue;
        }
        rep.hit("row_digest_mismatch");
        let fixed = drv.ask(&format!("blendrowfixed {sa}"));
        if fixed == imp[sa].to_string() {
            rep.hit("row_equals_repaired_model");
            continue;
        }
        // expand: find the first mismatching (sa, da) block by digest, then that block pixel by
        // pixel (batched); at most three rows are expanded per run
        if expanded_rows >= 3 {
            rep.hit("row_mismatch_not_expanded");
            continue;
        }
        expanded_rows += 1;
        let blines: Vec<String> = (0..256).map(|da| format!("blendblock {sa} {da}")).collect();
        let bmodel = ask_parallel(&o.drv, &blines, o.jobs);
        let mut found = 0;
        for da in 0..=255u8 {
            let blk = catch(|| impl_block(sa as u8, da)).unwrap_or_default();
            if fnv_bytes(FNV_INIT, &blk).to_string() == bmodel[da as usize] {
                continue;
            }
            let mut plines = Vec::with_capacity(65536);
            let mut pix = Vec::with_capacity(65536);
            for s in 0..=255u8 {
                for d in 0..=255u8 {
                    let src = [s, d, s ^ 0x5a, sa as u8];
                    let dst = [d, s, d ^ 0xa5, da];
                    plines.push(format!("blend {} {}", hex(&src), hex(&dst)));
                    pix.push((src, dst));
                }
            }
            let pm = ask_parallel(&o.drv, &plines, o.jobs);
            for (k, (src, dst)) in pix.iter().enumerate() {
                let got = catch(|| hk::blend(*src, *dst)).map(|v| hex(&v)).unwrap_or_else(|m| format!("PANIC {m}"));
                if got != pm[k] {
                    let before = rep.n_disagreements;
                    check_pixel(&mut drv, &mut rep, *src, *dst, Some(&pm[k]));
                    if rep.n_disagreements > before {
                        found += 1;
                        if found >= 2 {
                            break;
                        }
                    }
                }
            }
            if found >= 1 {
                break;
            }
        }
        if found == 0 {
            rep.disagree(Disagreement {
                case: format!("blendrow {sa}"),
                got: imp[sa].to_string(),
                expected: model[sa].clone(),
                class: "correspondence",
                obligation: "tie2: digest of one source-alpha row".into(),
                detail: "row digest differs; every differing pixel found equals the repaired model".into(),
            });
        }
    }

    // random full pixels (cross-channel packing), biased to the extremes
    let mut rng = Rng::new(o.seed);
    let n = if o.thorough() { 2_000_000 } else { 200_000 };
    let mut lines = Vec::with_capacity(n);
    let mut pix = Vec::with_capacity(n);
    for i in 0..n {
        let mut src = [rng.byte(), rng.byte(), rng.byte(), rng.byte()];
        let mut dst = [rng.byte(), rng.byte(), rng.byte(), rng.byte()];
        match i % 8 {
            0 => src[3] = 255,
            1 => src[3] = 0,
            2 => dst[3] = 0,
            3 => dst[3] = 255,
            4 => src[3] = *rng.pick(&[1u8, 2, 127, 128, 253, 254]),
            _ => {}
        }
        lines.push(format!("blend {} {}", hex(&src), hex(&dst)));
        pix.push((src, dst));
    }
    let model_px = ask_parallel(&o.drv, &lines, o.jobs);
    for (i, (src, dst)) in pix.iter().enumerate() {
        let k = if src[3] == 255 { "random_opaque_src" } else if src[3] == 0 { "random_transparent_src" } else { "random_partial_src" };
        rep.hit(k);
        if i < 3 {
            rep.sample(json!({"request": lines[i], "impl": hex(&hk::blend(*src, *dst)), "model": model_px[i]}));
        }
        check_pixel(&mut drv, &mut rep, *src, *dst, Some(&model_px[i]));
    }
    rep.sample(json!({"request": "blendrow 128", "impl_digest": imp[128].to_string(), "model_digest": model[128]}));
    rep
}
