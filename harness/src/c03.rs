//! C03: no byte string makes decoding panic, overflow, hang or index out of bounds.
//! Corruption stream over a corpus of valid files of every kind: every prefix, field-level
//! mutations of every size/dimension/offset/flag field, cross-field disagreements, bit flips in
//! entropy-coded payloads, oversubscribed code-length vectors; each case is driven through the
//! whole public API (new, accessors, read_image, read_frame to exhaustion, reset, again) under
//! catch_unwind in a checked build (overflow-checks + debug-assertions) with a time budget
//! proportional to input length + declared pixels.  Tie 2 for the modelled container parser:
//! outcome (accessor record or error kind) of `WebPDecoder::new` vs `Container.openFile`.
use crate::common::*;
use crate::webpfile::*;
use image_webp::WebPDecoder;
use serde_json::json;
use std::io::Cursor;
use std::time::Instant;

static MAX_BUF: std::sync::atomic::AtomicUsize = std::sync::atomic::AtomicUsize::new(64 << 20);

/// drive the whole API; returns (outcome class, detail, declared pixels)
pub fn drive(file: &[u8]) -> (String, String, u64) {
    let mut declared = 0u64;
    let r = catch(|| {
        let mut log = String::new();
        let mut d = match WebPDecoder::new(Cursor::new(file.to_vec())) {
            Ok(d) => d,
            Err(e) => return format!("err new {}", err_kind(&e)),
        };
        let (w, h) = d.dimensions();
        declared = u64::from(w) * u64::from(h);
        let _ = (d.has_alpha(), d.is_animated(), d.is_lossy(), d.num_frames(), d.loop_count(), d.loop_duration());
        for limit in [usize::MAX, 16] {
            d.set_memory_limit(limit);
            let _ = d.icc_profile();
            let _ = d.exif_metadata();
            let _ = d.xmp_metadata();
        }
        let Some(n) = d.output_buffer_size() else { return "ok (no buffer size)".into() };
        if n > MAX_BUF.load(std::sync::atomic::Ordering::Relaxed) {
            return "ok (buffer too large for the harness; not read)".into();
        }
        let mut buf = vec![0u8; n];
        match d.read_image(&mut buf) {
            Ok(()) => log.push_str("image:ok "),
            Err(e) => log.push_str(&format!("image:{} ", err_kind(&e))),
        }
        if d.is_animated() {
            for pass in 0..2 {
                let mut k = 0;
                loop {
                    match d.read_frame(&mut buf) {
                        Ok(_) => {
                            k += 1;
                            if k > d.num_frames() + 2 {
                                return format!("HANG read_frame returned more frames than num_frames ({k})");
                            }
                        }
                        Err(e) => {
                            log.push_str(&format!("frames{pass}:{k}:{} ", err_kind(&e)));
                            break;
                        }
                    }
                }
                d.reset_animation();
            }
        }
        format!("ok {log}")
    });
    match r {
        Ok(s) => {
            let class = s.split(' ').next().unwrap_or("").to_string();
            (class, s, declared)
        }
        Err(m) => ("PANIC".into(), m, declared),
    }
}

fn err_kind(e: &image_webp::DecodingError) -> String {
    match e {
        image_webp::DecodingError::IoError(io) if io.kind() == std::io::ErrorKind::UnexpectedEof => "IoError(UnexpectedEof)".into(),
        image_webp::DecodingError::IoError(_) => "IoError(other)".into(),
        o => format!("{o:?}").split(['(', ' ', '{']).next().unwrap_or("").to_string(),
    }
}

fn corpus(rng: &mut Rng) -> Vec<(String, Vec<u8>)> {
    let mut v: Vec<(String, Vec<u8>)> = Vec::new();
    let rgba = random_rgba(rng, 6, 5, 3);
    let ll = make_lossless(&rgba, 6, 5, true);
    v.push(("simple_lossless".into(), simple_file(&ll)));
    let lossy = make_lossy(&drop_alpha(&rgba), 6, 5, 60.0);
    v.push(("simple_lossy".into(), simple_file(&lossy)));
    v.push(("extended_lossless".into(), extended_still(&ll, 6, 5, true)));
    let alpha: Vec<u8> = rgba.chunks_exact(4).map(|p| p[3]).collect();
    let mut la = None;
    if let Payload::Lossy(b) = &lossy {
        for comp in [false, true] {
            let alph = crate::c05::make_alph(&alpha, 6, 5, 3, comp, 0, 0);
            let p = Payload::LossyAlpha(alph, b.clone());
            v.push((format!("lossy_alpha_{}", if comp { "lossless" } else { "raw" }), extended_still(&p, 6, 5, true)));
            la = Some(p);
        }
    }
    // libwebp lossless (palette / transforms / colour cache)
    let pal: Vec<u8> = (0..20 * 9).flat_map(|i| { let k = (i * 7 % 5) as u8; [k * 50, 255 - k * 40, k * 13, 255] }).collect();
    let f = crate::oracle::encode(&pal, 20, 9, true, |c| { c.lossless = 1; c.quality = 50.0; c.method = 3; c.exact = 1; });
    v.push(("libwebp_lossless_palette".into(), f));
    let noise = random_rgba(rng, 24, 17, 3);
    let f = crate::oracle::encode(&noise, 24, 17, true, |c| { c.lossless = 1; c.quality = 80.0; c.method = 4; c.exact = 1; });
    v.push(("libwebp_lossless_noise".into(), f));
    // grammar-generated VP8L streams (every transform, cache, meta codes, deep codes, references)
    for k in 0..4 {
        let (gw, gh) = (3 + rng.below(14) as u32, 2 + rng.below(10) as u32);
        let (st, _) = crate::vp8lgen::stream(rng, gw, gh);
        v.push((format!("generated_vp8l_{k}"), riff(&chunk(b"VP8L", &st))));
    }
    // metadata through the crate's encoder
    let mut out = Vec::new();
    {
        let mut e = image_webp::WebPEncoder::new(&mut out);
        e.set_icc_profile(rng.bytes(9));
        e.set_exif_metadata(rng.bytes(4));
        e.set_xmp_metadata(rng.bytes(7));
        let _ = e.encode(&rgba, 6, 5, image_webp::ColorType::Rgba8);
    }
    v.push(("extended_metadata".into(), out));
    // animations: lossless, mixed, lossy+alpha frames
    let mut frames = vec![
        FrameSpec { x: 0, y: 0, w: 6, h: 5, duration: 30, blend: true, dispose: true, payload: ll.clone() },
        FrameSpec { x: 2, y: 0, w: 6, h: 5, duration: 40, blend: false, dispose: false, payload: lossy.clone() },
    ];
    if let Some(p) = la {
        frames.push(FrameSpec { x: 0, y: 2, w: 6, h: 5, duration: 50, blend: true, dispose: true, payload: p });
    }
    let spec = AnimSpec { cw: 8, ch: 7, alpha_flag: true, bg_file_order: [9, 8, 7, 6], loops: 2, frames };
    v.push(("animated_mixed".into(), anim_file(&spec)));
    v
}

/// offsets of all chunk headers (fourcc position) found by walking the RIFF structure, incl. the
/// sub-chunks of ANMF
fn chunk_offsets(file: &[u8]) -> Vec<usize> {
    let mut out = vec![0];
    let mut p = 12;
    while p + 8 <= file.len() {
        out.push(p);
        let n = u32::from_le_bytes(file[p + 4..p + 8].try_into().unwrap()) as usize;
        if &file[p..p + 4] == b"ANMF" {
            let mut q = p + 8 + 16;
            while q + 8 <= (p + 8 + n).min(file.len()) {
                out.push(q);
                let m = u32::from_le_bytes(file[q + 4..q + 8].try_into().unwrap()) as usize;
                q += 8 + m + (m & 1);
            }
        }
        p += 8 + n + (n & 1);
    }
    out
}

fn mutations(name: &str, file: &[u8], rng: &mut Rng, thorough: bool) -> Vec<(String, Vec<u8>)> {
    let mut v = Vec::new();
    // every prefix
    let step = if file.len() > 600 && !thorough { file.len() / 400 + 1 } else { 1 };
    let mut k = 0;
    while k < file.len() {
        v.push((format!("{name}:prefix{k}"), file[..k].to_vec()));
        k += step;
    }
    let offs = chunk_offsets(file);
    // 32-bit size fields of every chunk
    for &o in &offs {
        if o + 8 > file.len() {
            continue;
        }
        let cur = u32::from_le_bytes(file[o + 4..o + 8].try_into().unwrap());
        for val in [0u32, 1, 7, 23, 24, 31, 32, cur.wrapping_sub(1), cur.wrapping_add(1), cur.wrapping_add(2), 0x7fff_ffff, 0xffff_fffe, 0xffff_ffff] {
            let mut f = file.to_vec();
            f[o + 4..o + 8].copy_from_slice(&val.to_le_bytes());
            v.push((format!("{name}:size@{o}={val:#x}"), f));
        }
        // fourcc replaced
        for cc in [b"VP8 ", b"VP8L", b"VP8X", b"ALPH", b"ANMF", b"ANIM", b"ICCP", b"XXXX"] {
            let mut f = file.to_vec();
            f[o..o + 4].copy_from_slice(cc);
            v.push((format!("{name}:fourcc@{o}={}", String::from_utf8_lossy(cc)), f));
        }
        // the bytes right after the header: dimensions, flags, offsets, signatures
        for d in 8..(8 + 28).min(file.len() - o) {
            for val in [0x00u8, 0x01, 0x7f, 0x80, 0xff] {
                if file[o + d] != val {
                    let mut f = file.to_vec();
                    f[o + d] = val;
                    v.push((format!("{name}:byte@{}={val:#x}", o + d), f));
                }
            }
        }
    }
    // random bit flips and byte replacements in payloads
    let n = if thorough { 1500 } else { 250 };
    for _ in 0..n {
        let mut f = file.to_vec();
        let flips = rng.range(1, 3);
        for _ in 0..flips {
            let p = rng.below(f.len() as u64) as usize;
            if rng.chance(1, 2) {
                f[p] ^= 1 << rng.below(8);
            } else {
                f[p] = rng.byte();
            }
        }
        v.push((format!("{name}:flips"), f));
    }
    // payload of a chunk shortened / lengthened with every enclosing size field (RIFF, ANMF)
    // adjusted, so that the container stays well-formed around a chunk that is too short or too
    // long for what its header promises (e.g. a raw ALPH plane shorter than width*height)
    for &o in &offs {
        if o + 8 > file.len() || o == 0 { continue; }
        let n = u32::from_le_bytes(file[o + 4..o + 8].try_into().unwrap()) as usize;
        let end = o + 8 + n + (n & 1);
        if end > file.len() { continue; }
        let mut sizes = vec![0usize, 1, 2, 3, n / 2, n.saturating_sub(2), n.saturating_sub(1), n + 1, n + 7];
        sizes.sort_unstable();
        sizes.dedup();
        for k in sizes {
            if k == n { continue; }
            let mut chunk_bytes = file[o..o + 4].to_vec();
            chunk_bytes.extend_from_slice(&(k as u32).to_le_bytes());
            for i in 0..k { chunk_bytes.push(if i < n { file[o + 8 + i] } else { 0 }); }
            if k & 1 == 1 { chunk_bytes.push(0); }
            let delta = chunk_bytes.len() as i64 - (end - o) as i64;
            let mut f = file[..o].to_vec();
            f.extend_from_slice(&chunk_bytes);
            f.extend_from_slice(&file[end..]);
            // enclosing containers: RIFF at 0 and any ANMF whose payload contains this chunk
            let fix = |f: &mut Vec<u8>, at: usize| {
                let cur = u32::from_le_bytes(f[at + 4..at + 8].try_into().unwrap()) as i64;
                f[at + 4..at + 8].copy_from_slice(&((cur + delta).max(0) as u32).to_le_bytes());
            };
            fix(&mut f, 0);
            for &a in &offs {
                if a + 8 <= file.len() && &file[a..a + 4] == b"ANMF" && a < o {
                    let an = u32::from_le_bytes(file[a + 4..a + 8].try_into().unwrap()) as usize;
                    if o < a + 8 + an { fix(&mut f, a); }
                }
            }
            v.push((format!("{name}:resize_chunk@{o}={k}"), f));
        }
    }
    // chunk deletion / duplication / swap
    if offs.len() > 3 {
        for i in 1..offs.len() {
            let o = offs[i];
            if o + 8 > file.len() { continue; }
            let n = u32::from_le_bytes(file[o + 4..o + 8].try_into().unwrap()) as usize;
            let end = (o + 8 + n + (n & 1)).min(file.len());
            let mut f = file[..o].to_vec();
            f.extend_from_slice(&file[end..]);
            v.push((format!("{name}:delete_chunk@{o}"), f));
            let mut f = file[..end].to_vec();
            f.extend_from_slice(&file[o..end]);
            f.extend_from_slice(&file[end..]);
            v.push((format!("{name}:duplicate_chunk@{o}"), f));
        }
    }
    v
}

/// cross-field disagreements built on purpose
fn crafted(rng: &mut Rng) -> Vec<(String, Vec<u8>)> {
    let mut v = Vec::new();
    // the `max_symbol` field of a normal prefix code at every width, at the boundary values of the
    // width and of the alphabet
    for n3 in 0..8u32 {
        for value in crate::vp8lbits::max_symbol_values(n3, 280) {
            v.push((format!("crafted:max_symbol_n3={n3}_value={value}"), crate::vp8lbits::file_with_max_symbol(n3, value, &[1, 1])));
        }
    }
    let rgba = random_rgba(rng, 6, 5, 3);
    let alpha: Vec<u8> = rgba.chunks_exact(4).map(|p| p[3]).collect();
    // ANMF whose ALPH+VP8 frame's VP8 dimensions disagree with the ANMF header
    for (vw, vh) in [(8u32, 8u32), (2, 2), (6, 4), (5, 5), (16, 1)] {
        if let Payload::Lossy(b) = make_lossy(&drop_alpha(&random_rgba(rng, vw, vh, 0)), vw, vh, 50.0) {
            let alph = crate::c05::make_alph(&alpha, 6, 5, 1, false, 0, 0);
            let spec = AnimSpec { cw: 8, ch: 8, alpha_flag: true, bg_file_order: [0; 4], loops: 0, frames: vec![FrameSpec { x: 0, y: 0, w: 6, h: 5, duration: 1, blend: true, dispose: false, payload: Payload::LossyAlpha(alph.clone(), b.clone()) }] };
            v.push((format!("anmf_alph_vp8_dims_{vw}x{vh}_vs_6x5"), anim_file(&spec)));
            // the same with a still
            v.push((format!("still_alph_vp8_dims_{vw}x{vh}_vs_6x5"), extended_still(&Payload::LossyAlpha(alph, b), 6, 5, true)));
        }
    }
    // stills whose VP8X canvas disagrees with the VP8 frame by a multiple of 65536 (the sizes that
    // survive a cast to u16 as 0 or as the frame's own size), next to their neighbours, with a
    // lossless-compressed ALPH that uses a transform (crate encoder with predictor) or any
    // grammar-generated stream: whichever of ALPH / VP8 is decoded first must not see a 0 x N image
    if let Payload::Lossy(b) = make_lossy(&drop_alpha(&rgba), 6, 5, 50.0) {
        let mut alphs: Vec<(String, Vec<u8>)> = vec![("enc".into(), crate::c05::make_alph(&alpha, 6, 5, 0, true, 0, 0)), ("encf".into(), crate::c05::make_alph(&alpha, 6, 5, 3, true, 0, 0))];
        for k in 0..3 {
            let (st, _) = crate::vp8lgen::stream(rng, 6, 5);
            let mut body = vec![1u8];
            body.extend_from_slice(&st[5..]);
            alphs.push((format!("gen{k}"), body));
        }
        for (an, alph) in &alphs {
            for (cw, ch) in [(65536u32, 5u32), (6, 65536), (65536, 65536), (131072, 5), (6, 196608), (65536 + 6, 5), (6, 65536 + 5), (65535, 5), (65537, 5), (6, 65535), (1 << 24, 5), (6, 1 << 24), (1 << 24, 1 << 24), (16384, 5), (6, 16385)] {
                v.push((format!("crafted:still_alph_{an}_canvas_{cw}x{ch}_vs_6x5"), extended_still(&Payload::LossyAlpha(alph.clone(), b.clone()), cw, ch, true)));
            }
        }
    }
    // ALPH followed by something that is not VP8
    let alph = crate::c05::make_alph(&alpha, 6, 5, 0, false, 0, 0);
    let ll = make_lossless(&rgba, 6, 5, false);
    let mut data = Vec::new();
    data.extend_from_slice(&[0; 6]);
    data.extend_from_slice(&u24(5));
    data.extend_from_slice(&u24(4));
    data.extend_from_slice(&u24(10));
    data.push(0);
    data.extend(chunk(b"ALPH", &alph));
    data.extend(ll.chunks());
    let mut body = vp8x(F_ANIM | F_ALPHA, 8, 8);
    body.extend(anim_chunk([0; 4], 0));
    body.extend(chunk(b"ANMF", &data));
    v.push(("anmf_alph_then_vp8l".into(), riff(&body)));
    // VP8L streams with hand-made code-length vectors (over- and under-subscribed) in every
    // role: see c01 for valid ones.  Here: a normal code whose lengths oversubscribe the code space.
    for lens in [vec![1u8, 1, 1, 2, 3, 4, 5, 6, 7, 8, 9, 10, 11, 12, 13, 14, 15, 15], vec![1, 1, 1], vec![15; 40], vec![2, 2, 2, 2, 2], vec![1, 2, 3, 4, 5, 6, 7, 8, 9, 10, 11, 12, 13, 14, 15]] {
        v.push((format!("vp8l_code_lengths_{}", lens.len()), crate::vp8lbits::file_with_green_lengths(&lens)));
    }
    // huge canvases with tiny payloads
    for (cw, ch) in [(1u32 << 24, 255u32), (65536, 16384), (16384, 16384), (1 << 24, 1)] {
        let mut body = vp8x(F_ANIM, cw, ch);
        body.extend(anim_chunk([1, 2, 3, 4], 0));
        let f = FrameSpec { x: 0, y: 0, w: 6, h: 5, duration: 1, blend: false, dispose: false, payload: ll.clone() };
        body.extend(anmf(&f));
        v.push((format!("huge_canvas_{cw}x{ch}"), riff(&body)));
    }
    // synthetic VP8 key frames (random-symbol partitions, generator-chosen boundary header fields:
    // loop-filter deltas +-63, levels 0/63, segment values +-63/+-127, quantiser extremes, 1..8
    // partitions, all intra modes, arbitrary coefficients), whole and cut short inside every partition
    for i in 0..260u32 {
        let (fw, fh) = (1 + rng.below(40) as u32, 1 + rng.below(40) as u32);
        let style = rng.next();
        let (vp8, _) = crate::c02::synth_frame(rng, fw, fh, style);
        let file = riff(&chunk(b"VP8 ", &vp8));
        if i % 4 == 0 {
            let cut = 10 + rng.below(vp8.len() as u64 - 10) as usize;
            v.push((format!("synthvp8:truncated@{fw}x{fh}"), riff(&chunk(b"VP8 ", &vp8[..cut]))));
        }
        if i % 4 == 1 {
            // first-partition size field pointing past the end / to zero
            let mut b = vp8.clone();
            let tag = u32::from(b[0]) | u32::from(b[1]) << 8 | u32::from(b[2]) << 16;
            let newsize: u32 = *rng.pick(&[0u32, 1, 7, (1 << 19) - 1, vp8.len() as u32]);
            let t2 = (tag & 31) | (newsize << 5);
            b[..3].copy_from_slice(&t2.to_le_bytes()[..3]);
            v.push((format!("synthvp8:partsize@{fw}x{fh}"), riff(&chunk(b"VP8 ", &b))));
        }
        v.push((format!("synthvp8:whole@{fw}x{fh}"), file));
    }
    v
}

pub fn run(o: &Opts) -> Report {
    let mut rep = Report::new("C03");
    let mut drv = Drv::spawn(&o.drv);
    if let Some(case) = &o.replay {
        let file = unhex(case.split_whitespace().nth(1).unwrap_or("-"));
        judge(&mut drv, &mut rep, "replay", &file);
        return rep;
    }
    rep.rule = "corpus of valid files of every kind (simple lossless/lossy, extended, lossy+ALPH raw/lossless, libwebp lossless with palette/transforms/cache, metadata, mixed animation) x {every prefix; every chunk size field set to 13 boundary values; every fourcc replaced by 8 others; each of the 28 bytes after every chunk header set to {00,01,7f,80,ff}; random bit flips / byte replacements; chunk deletion and duplication; every chunk's payload shortened / lengthened to 8 boundary lengths with the enclosing RIFF / ANMF sizes adjusted (a well-formed container around a chunk that is too short or too long for its own header)} + crafted cross-field disagreements (ANMF vs VP8 dimensions, ALPH followed by non-VP8, over/under-subscribed code lengths, huge canvases, synthetic random-symbol VP8 key frames with boundary header fields - whole, truncated, with wrong partition sizes); every case driven through new, all accessors with two memory limits, read_image, read_frame to exhaustion twice with reset, in a checked build under catch_unwind with a time budget; plus the container parser's outcome compared with Container.openFile. distinct_nontrivial = distinct mutated byte strings".into();
    let mut rng = Rng::new(o.seed ^ 0xC03);
    if o.thorough() || std::env::var("VERIF_BIGMEM").is_ok() {
        // canvases of 2^30 pixels and more need multi-GiB output buffers
        MAX_BUF.store(5usize << 30, std::sync::atomic::Ordering::Relaxed);
        rep.hit("big_buffers_enabled");
    }
    let mut cases: Vec<(String, Vec<u8>)> = Vec::new();
    for (name, file) in corpus(&mut rng) {
        let (class, detail, _) = drive(&file);
        if class != "ok" {
            rep.notes.push(format!("corpus file {name} is not accepted: {detail}"));
        }
        rep.sample(json!({"corpus": name, "bytes": file.len(), "baseline": detail}));
        cases.extend(mutations(&name, &file, &mut rng, o.thorough()));
        cases.push((name, file));
    }
    cases.extend(crafted(&mut rng));
    for (name, file) in &cases {
        let kind = name.split(':').nth(1).unwrap_or("crafted").split(['@', '=']).next().unwrap_or("").trim_end_matches(char::is_numeric).to_string();
        rep.hit(&format!("mutation_{kind}"));
        judge(&mut drv, &mut rep, name, file);
    }
    rep
}

fn judge(drv: &mut Drv, rep: &mut Report, name: &str, file: &[u8]) {
    let case = format!("file {} {name}", hex(file));
    let t0 = Instant::now();
    let (class, detail, declared) = drive(file);
    let dt = t0.elapsed().as_secs_f64();
    rep.case(&case, true);
    rep.hit(&format!("outcome_{class}"));
    // time budget: generous constant x (input bytes + declared pixels), floor 0.5 s
    let budget = 0.5 + 2e-6 * (file.len() as f64 + declared.min(1 << 33) as f64) * 50.0;
    if class == "PANIC" || class == "HANG" {
        rep.disagree(Disagreement { case, got: format!("{class}: {detail}"), expected: "Ok or DecodingError".into(), class: "violation", obligation: "C03: no byte string makes the decoder panic, overflow (checked build) or index out of bounds".into(), detail: name.to_string() });
        return;
    }
    if dt > budget {
        rep.disagree(Disagreement { case, got: format!("{dt:.2}s"), expected: format!("<= {budget:.2}s"), class: "violation", obligation: "C03: decoding finishes in time bounded by the input size plus the declared pixel count".into(), detail: name.to_string() });
        return;
    }
    // tie 2 for the container parser: same accessor record / error kind as the model
    if file.len() <= 4096 {
        let got = crate::c08::real_record(file, 1 << 40);
        let model = drv.ask(&format!("open {} {}", hex(file), 1u64 << 40));
        if got != model {
            rep.disagree(Disagreement { case, got, expected: model, class: "correspondence", obligation: "tie2: WebPDecoder::new on arbitrary bytes = Container.openFile (a total function: no panic by construction)".into(), detail: name.to_string() });
        }
    }
}
