//! C01: VP8L decoding against the specification decoder `VP8L.decode` (Lean, executable) and
//! against libwebp, on spec-valid streams from three sources: the crate's own encoder, libwebp's
//! lossless encoder under many configurations (all transforms, colour cache, meta prefix codes,
//! palettes of every packing width), and hand-built bit-level streams for the shapes no encoder
//! emits (simple codes in any symbol order, cache hits on never-written slots, maximal-length
//! symbol groups at every reservoir alignment, 15-bit codes, large distances).
use crate::common::*;
use crate::oracle;
use crate::vp8lbits::*;
use crate::webpfile::*;
use image_webp::verif_hooks as hk;
use image_webp::WebPDecoder;
use serde_json::json;
use std::io::Cursor;

/// largest image (in pixels) on which the list-based specification twin and the stream model with
/// the crate's entropy layer are run (300 in the quick tier, 2400 in the thorough tier)
static TWIN_PIXELS: std::sync::atomic::AtomicU64 = std::sync::atomic::AtomicU64::new(300);

fn decode_impl(stream: &[u8], w: u32, h: u32) -> Result<Vec<u8>, String> {
    match catch(|| {
        let mut buf = vec![0xA5u8; (w * h * 4) as usize];
        hk::vp8l_decode(Cursor::new(stream), w, h, false, &mut buf).map(|()| buf).map_err(|e| format!("{e:?}"))
    }) {
        Ok(r) => r,
        Err(m) => Err(format!("PANIC {m}")),
    }
}

fn dims_of(stream: &[u8]) -> Option<(u32, u32)> {
    if stream.len() < 5 || stream[0] != 0x2f {
        return None;
    }
    let hd = u32::from_le_bytes(stream[1..5].try_into().unwrap());
    Some(((hd & 0x3fff) + 1, ((hd >> 14) & 0x3fff) + 1))
}

/// one stream through implementation, specification and libwebp
fn one(drv: &mut Drv, rep: &mut Report, source: &str, stream: &[u8], with_spec: bool) {
    let Some((w, h)) = dims_of(stream) else { return };
    let case = format!("vp8l {} {source}", hex(stream));
    rep.case(&case, true);
    rep.hit(&format!("source_{}", source.split(':').next().unwrap_or("")));
    let lib = oracle::decode_rgba(&riff(&chunk(b"VP8L", stream)));
    let spec = if with_spec { Some(drv.ask(&format!("vp8lspec {}", hex(stream)))) } else { None };
    // the proof-friendly twin of the specification (VP8LP.decode, the one the theorems are about)
    // must say what the executable specification says
    if let Some(s) = &spec {
        if (w as u64) * (h as u64) <= TWIN_PIXELS.load(std::sync::atomic::Ordering::Relaxed) && stream.len() <= 2000 * (TWIN_PIXELS.load(std::sync::atomic::Ordering::Relaxed) as usize / 300) {
            let twin = drv.ask(&format!("vp8lspecp {}", hex(stream)));
            rep.hit("spec_twin_compared");
            if twin != *s {
                rep.disagree(Disagreement { case: case.clone(), got: twin, expected: s.clone(), class: "correspondence", obligation: "validation of the proof-friendly specification VP8LP.decode against the executable specification VP8L.decode (not about the code)".into(), detail: source.into() });
            }
            // the stream model with the crate's entropy layer (LStream.decodeCrate; proved equal to
            // VP8LP.decode in C01.entropy_layer_in_stream) against the real decoder
            let crate_model = drv.ask(&format!("vp8lcrate {}", hex(stream)));
            rep.hit("crate_entropy_model_compared");
            let real = match decode_impl(stream, w, h) { Ok(b) => format!("ok {w} {h} {}/{}", fnv_bytes(FNV_INIT, &b), b.len()), Err(_) => "invalid".to_string() };
            if crate_model != real {
                rep.disagree(Disagreement { case: case.clone(), got: real, expected: crate_model, class: "correspondence", obligation: "tie2: real VP8L decoder = LStream.decodeCrate (stream model with CodeRead.readCode + Huff.readSym)".into(), detail: source.into() });
            }
        }
    }
    let got = decode_impl(stream, w, h);
    // the same stream through a reader that exposes one byte (and, alternately, three bytes) per
    // fill_buf call: a valid stream is a valid stream however the reader hands it out
    for sched in [vec![1usize], vec![3, 1, 2]] {
        let piecewise = match catch(|| {
            let mut buf = vec![0x5Au8; (w * h * 4) as usize];
            hk::vp8l_decode(crate::c10::Chunked::new(stream.to_vec(), sched.clone(), None), w, h, false, &mut buf).map(|()| buf).map_err(|e| format!("{e:?}"))
        }) { Ok(r) => r, Err(m) => Err(format!("PANIC {m}")) };
        rep.hit("decoded_through_a_piecewise_reader");
        if piecewise.is_ok() != got.is_ok() || (piecewise.is_ok() && piecewise != got) {
            rep.disagree(Disagreement { case: case.clone(), got: match &piecewise { Ok(b) => format!("ok {}", fnv_bytes(FNV_INIT, b)), Err(e) => format!("err {e}") }, expected: match &got { Ok(b) => format!("ok {}", fnv_bytes(FNV_INIT, b)), Err(e) => format!("err {e}") }, class: "violation", obligation: "C01: a valid stream is never rejected and never decoded to different pixels - whatever pieces the reader hands the bytes out in".into(), detail: format!("{source}; reader schedule {sched:?}") });
        }
    }
    let digest = |b: &[u8]| format!("ok {w} {h} {}/{}", fnv_bytes(FNV_INIT, b), b.len());
    // the references must agree with each other first (validation of the specification)
    if let (Some(s), Some((_, _, l))) = (&spec, &lib) {
        rep.oracle_checks += 1;
        if *s != digest(l) {
            rep.hit("spec_vs_libwebp_disagree");
            rep.disagree(Disagreement { case: case.clone(), got: s.clone(), expected: digest(l), class: "correspondence", obligation: "validation of the specification VP8L.decode against libwebp (not about the code)".into(), detail: source.into() });
        }
    }
    let valid = lib.is_some() || spec.as_deref().map(|s| s.starts_with("ok")).unwrap_or(false);
    if !valid {
        rep.hit("stream_rejected_by_references");
        // outside the property's domain; the implementation must merely not panic (C03)
        if let Err(e) = &got {
            if e.starts_with("PANIC") {
                rep.disagree(Disagreement { case, got: e.clone(), expected: "error".into(), class: "violation", obligation: "C03 via C01: invalid stream must not panic".into(), detail: source.into() });
            }
        }
        return;
    }
    if lib.is_none() { rep.hit("libwebp_rejects_but_specification_accepts"); }
    let expected = match (&lib, &spec) {
        (Some((_, _, l)), _) => digest(l),
        (None, Some(s)) => s.clone(),
        _ => return,
    };
    match got {
        Ok(b) if digest(&b) == expected => {}
        Ok(b) => {
            let detail = match &lib {
                Some((_, _, l)) => {
                    let k = b.iter().zip(l.iter()).position(|(a, c)| a != c).unwrap_or(0);
                    format!("{source}: first difference at pixel ({}, {}) channel {}: {} vs {}", (k / 4) as u32 % w, (k / 4) as u32 / w, k % 4, b[k], l[k])
                }
                None => source.to_string(),
            };
            rep.disagree(Disagreement { case, got: digest(&b), expected, class: "violation", obligation: "C01: a spec-valid VP8L stream decodes to exactly the pixels the specification defines (= libwebp's)".into(), detail });
        }
        Err(e) => rep.disagree(Disagreement { case, got: format!("err {e}"), expected, class: "violation", obligation: "C01: a spec-valid VP8L stream is never rejected".into(), detail: source.into() }),
    }
}

/// images with structure that makes libwebp use palettes, transforms, cache, meta codes
fn image(rng: &mut Rng, kind: u64, w: u32, h: u32) -> Vec<u8> {
    let n = (w * h) as usize;
    match kind % 8 {
        0 => random_rgba(rng, w, h, 3),
        1 => {
            // palette of k colours (every packing width)
            let k = *rng.pick(&[1usize, 2, 3, 4, 5, 15, 16, 17, 64, 255, 256]);
            let pal: Vec<[u8; 4]> = (0..k).map(|_| [rng.byte(), rng.byte(), rng.byte(), if rng.chance(1, 3) { rng.byte() } else { 255 }]).collect();
            (0..n).flat_map(|i| pal[(i * 7 + i / (w as usize).max(1) * 3 + rng.below(3) as usize) % k]).collect()
        }
        2 => (0..n).flat_map(|i| { let (x, y) = (i as u32 % w, i as u32 / w); [(x * 255 / w.max(1)) as u8, (y * 255 / h.max(1)) as u8, ((x + y) * 127 / (w + h)) as u8, 255] }).collect(),
        3 => {
            // repeated tiles: long backward references at 2-D distances
            let tile = random_rgba(rng, 5, 4, 0);
            (0..n).flat_map(|i| { let (x, y) = (i as u32 % w, i as u32 / w); let t = ((y % 4) * 5 + x % 5) as usize * 4; [tile[t], tile[t + 1], tile[t + 2], tile[t + 3]] }).collect()
        }
        4 => vec![[rng.byte(), rng.byte(), rng.byte(), rng.byte()]; n].concat(),
        5 => {
            // photo-like: smooth + noise
            (0..n).flat_map(|i| { let (x, y) = (i as u32 % w, i as u32 / w); let v = ((x * x + y * 3) % 256) as u8; [v.wrapping_add(rng.below(4) as u8), v / 2, 255 - v, 255] }).collect()
        }
        6 => {
            // few colours with rare outliers: colour cache hits
            let pal: Vec<[u8; 4]> = (0..6).map(|_| [rng.byte(), rng.byte(), rng.byte(), 255]).collect();
            (0..n).flat_map(|_| if rng.chance(1, 20) { [rng.byte(), rng.byte(), rng.byte(), 255] } else { pal[rng.below(6) as usize] }).collect()
        }
        _ => random_rgba(rng, w, h, 1),
    }
}

/// hand-built streams
fn crafted() -> Vec<(String, Vec<u8>)> {
    let mut v = Vec::new();
    // two-symbol simple codes in every order, 1-bit and 8-bit first symbols, in every role
    for (a, b) in [(0u32, 1u32), (1, 0), (3, 7), (7, 3), (0, 255), (255, 0), (1, 1), (200, 200), (5, 0)] {
        let mut w = BitW::new();
        w.header(4, 2, true);
        w.put(0, 1);
        w.put(0, 1);
        w.put(0, 1);
        w.simple2(a, b); // green
        w.simple2(b, a); // red
        w.simple1(9); // blue
        w.simple2(a, b); // alpha
        w.simple1(0); // dist
        for i in 0..8u64 {
            w.put(i & 1, 1);
            w.put((i >> 1) & 1, 1);
            w.put((i >> 2) & 1, 1);
        }
        w.put(0, 16);
        v.push((format!("crafted:simple2_{a}_{b}"), w.finish()));
    }
    // colour cache: hits on never-written slots, then on slot 0 (which the hit must have filled)
    for bits in [1u64, 2, 4, 11] {
        let mut w = BitW::new();
        w.header(6, 1, true);
        w.put(0, 1); // no transform
        w.put(1, 1);
        w.put(bits, 4); // colour cache
        w.put(0, 1); // no meta
        // green alphabet = 280 + 2^bits: normal code over literal 1 (len 2), cache symbols 280, 281 (len 2, 2) and literal 0 (len 2)
        let alphabet = 280 + (1usize << bits);
        let mut lens = vec![0u8; alphabet.min(282)];
        lens[0] = 2;
        lens[1] = 2;
        lens[280] = 2;
        lens[281] = 2;
        w.normal_lengths(&lens, alphabet);
        w.simple1(0);
        w.simple1(1);
        w.simple1(0);
        w.simple1(0);
        // canonical codes (MSB-first): sym0=00, sym1=01, sym280=10, sym281=11; written bit-reversed
        let code = |w: &mut BitW, s: u32| { let c = match s { 0 => 0b00u64, 1 => 0b10, 280 => 0b01, _ => 0b11 }; w.put(c, 2) };
        code(&mut w, 1); // literal g=1
        code(&mut w, 281); // cache slot 1: never written
        code(&mut w, 280); // cache slot 0: holds what the previous hit inserted?
        code(&mut w, 0);
        code(&mut w, 280);
        code(&mut w, 281);
        w.put(0, 16);
        v.push((format!("crafted:cache_unwritten_slot_bits{bits}"), w.finish()));
    }
    // maximal symbol groups: a 15-bit length symbol + 10 extra bits followed by a 15-bit distance
    // symbol + 17 (57 bits in all) or 18 (58 bits) extra bits, at each of the 8 bit alignments.
    // 1024x1024 image: first row literals, then 200 runs of 4096 (distance 1) to move far enough
    // for the huge distance to be legal.
    for align in 0..8u32 {
        for sym in [37u32, 39] {
            let mut w = BitW::new();
            w.header(1024, 1024, true);
            w.put(0, 1);
            w.put(0, 1);
            w.put(0, 1);
            let mut lens = vec![0u8; 280];
            lens[0] = 1;
            for (k, l) in (2..=14u8).enumerate() {
                lens[1 + k] = l;
            }
            lens[278] = 15;
            lens[279] = 15;
            w.normal_lengths(&lens, 280);
            w.simple1(0);
            w.simple1(0);
            w.simple1(255);
            let mut dl = vec![0u8; 40];
            dl[0] = 1;
            dl[1] = 2;
            for (k, l) in (3..=14u8).enumerate() {
                dl[2 + k] = l;
            }
            dl[37] = 15;
            dl[39] = 15;
            w.normal_lengths(&dl, 40);
            // first row + alignment literals (symbol 0 = one zero bit each)
            for _ in 0..(1024 + align) {
                w.put(0, 1);
            }
            // 200 runs: length symbol 279 (all-ones word), extra 1023 => 4096; distance symbol 1 => code 2 => (1,0) => 1
            for _ in 0..200 {
                w.put(0x7fff, 15);
                w.put(1023, 10);
                w.put(0b01, 2);
            }
            // the group under test, twice, separated by a literal
            for _ in 0..2 {
                w.put(0x7fff, 15);
                w.put(5, 10);
                if sym == 39 {
                    w.put(0x7fff, 15);
                    w.put(0, 18);
                } else {
                    w.put(0x3fff, 15);
                    w.put(0, 17);
                }
                w.put(0, 1);
            }
            // fill the rest: runs of 4096 while they fit, then literals
            let mut done = 1024 + align as usize + 200 * 4096 + 2 * (3072 + 5 + 1 + 1);
            let total = 1024 * 1024;
            while total - done >= 4096 {
                w.put(0x7fff, 15);
                w.put(1023, 10);
                w.put(0b01, 2);
                done += 4096;
            }
            for _ in done..total {
                w.put(0, 1);
            }
            w.put(0, 64);
            v.push((format!("crafted:maxgroup_{}bits_align{align}", if sym == 39 { 58 } else { 57 }), w.finish()));
        }
    }
    // colour-indexed images at the extreme widths (libwebp's encoder stops at 16383, the format
    // and both decoders go to 16384): every pixel-packing width (1, 2, 4 bits and unpacked), the
    // colour table delta-coded with single-symbol codes, the packed indices alternating between
    // two byte values (one bit per packed pixel)
    for (wd, ht) in [(16384u32, 1u32), (16384, 2), (16383, 1), (16383, 2), (16381, 1), (8192, 3), (13, 2)] {
        for (ncol, ga, gb) in [(2u32, 0x5au32, 0xc3u32), (3, 0x24, 0x92), (4, 0x1b, 0xe4), (5, 0x43, 0x10), (16, 0x5a, 0xc3), (17, 3, 16)] {
            let mut w = BitW::new();
            w.header(wd, ht, true);
            w.put(1, 1); // transform present
            w.put(3, 2); // colour indexing
            w.put(u64::from(ncol - 1), 8);
            // colour table sub-image ncol x 1: no cache, five single-symbol codes => entry i = (i+1) * delta
            w.put(0, 1);
            w.simple1(7); // green delta
            w.simple1(3); // red delta
            w.simple1(5); // blue delta
            w.simple1(15); // alpha delta
            w.simple1(0); // distance
            w.put(0, 1); // no further transform
            w.put(0, 1); // no colour cache
            w.put(0, 1); // no meta prefix codes
            w.simple2(ga.min(gb), ga.max(gb)); // green = packed indices
            w.simple1(0);
            w.simple1(0);
            w.simple1(0);
            w.simple1(0);
            let per = if ncol <= 2 { 8 } else if ncol <= 4 { 4 } else if ncol <= 16 { 2 } else { 1 };
            let packed = (wd + per - 1) / per;
            for k in 0..u64::from(packed * ht) {
                w.put((k ^ (k >> 3) ^ (k >> 7)) & 1, 1);
            }
            w.put(0, 64);
            v.push((format!("crafted:palette{ncol}_{wd}x{ht}"), w.finish()));
        }
    }
    v
}

pub fn run(o: &Opts) -> Report {
    TWIN_PIXELS.store(if o.thorough() { 2400 } else { 300 }, std::sync::atomic::Ordering::Relaxed);
    let mut rep = Report::new("C01");
    let mut drv = Drv::spawn(&o.drv);
    if let Some(case) = &o.replay {
        if case.starts_with("hufdec ") {
            huf_one(&mut drv, &mut rep, case);
            return rep;
        }
        let stream = unhex(case.split_whitespace().nth(1).unwrap_or("-"));
        one(&mut drv, &mut rep, "replay", &stream, stream.len() < 20000);
        return rep;
    }
    rep.rule = "spec-valid VP8L streams: (1) this crate's encoder on 4 colour types x predictor on/off x image families; (2) libwebp's lossless encoder with method 0..6 x quality {0,40,75,100} x exact on/off on image families chosen to trigger every transform, palettes of 1,2,3,4,5,15,16,17,64,255,256 colours (all pixel-packing widths), colour cache and meta prefix codes, sizes incl. 1xN, Nx1, non-multiples of block sizes; (3) hand-built streams: two-symbol simple codes in every order and role, cache hits on never-written slots, 25-bit length groups followed by 33-bit distance groups at each of the 8 byte alignments; each decoded by LosslessDecoder::decode_frame (poisoned buffer), by the Lean specification VP8L.decode (images up to ~2500 pixels) and by libwebp; (4) the four inverse transforms through their hooks on random images (all 14 predictor modes in random per-block arrangement, sizes incl. 1xN/Nx1, all palette packing widths) against the specification's; plus the same payloads through the public API in the simple / extended / ALPH-less animation-frame wrappings. distinct_nontrivial = distinct streams".into();
    let mut rng = Rng::new(o.seed ^ 0xC01);
    // (1) own encoder
    let n1 = if o.thorough() { 400 } else { 60 };
    for i in 0..n1 {
        let (w, h) = match i % 5 { 0 => (1, rng.range(1, 30) as u32), 1 => (rng.range(1, 30) as u32, 1), _ => (rng.range(1, 40) as u32, rng.range(1, 40) as u32) };
        let rgba = image(&mut rng, i, w, h);
        let (ct, data): (image_webp::ColorType, Vec<u8>) = match i % 4 {
            0 => (image_webp::ColorType::Rgba8, rgba.clone()),
            1 => (image_webp::ColorType::Rgb8, drop_alpha(&rgba)),
            2 => (image_webp::ColorType::L8, rgba.chunks_exact(4).map(|p| p[1]).collect()),
            _ => (image_webp::ColorType::La8, rgba.chunks_exact(4).flat_map(|p| [p[1], p[3]]).collect()),
        };
        if let Ok(s) = hk::enc_frame(&data, w, h, ct, i % 2 == 0) {
            one(&mut drv, &mut rep, "own_encoder", &s, w * h <= 2500);
        }
    }
    // (2) libwebp encoder
    let n2 = if o.thorough() { 1500 } else { 220 };
    for i in 0..n2 {
        let (w, h) = match i % 7 { 0 => (1, rng.range(1, 40) as u32), 1 => (rng.range(1, 40) as u32, 1), 2 => (rng.range(30, 90) as u32, rng.range(30, 70) as u32), _ => (rng.range(2, 45) as u32, rng.range(2, 45) as u32) };
        let rgba = image(&mut rng, i / 2, w, h);
        let method = (i % 7) as i32;
        let quality = *rng.pick(&[0.0f32, 40.0, 75.0, 100.0]);
        let exact = (i / 7) % 2;
        let file = match catch(|| oracle::encode(&rgba, w as i32, h as i32, true, |c| { c.lossless = 1; c.method = method; c.quality = quality; c.exact = exact as i32; })) { Ok(f) => f, Err(_) => continue };
        let Some((_, stream)) = chunks_of(&file).into_iter().find(|(cc, _)| cc == b"VP8L") else { continue };
        if i < 2 {
            rep.sample(json!({"libwebp_stream": {"w": w, "h": h, "method": method, "quality": quality, "bytes": stream.len()}}));
        }
        // which features does the stream use? (for the histogram)
        feature_histogram(&mut rep, &stream);
        one(&mut drv, &mut rep, "libwebp_encoder", &stream, w * h <= 2500);
        // through the public API in the wrappings
        if i % 5 == 0 {
            let p = Payload::Lossless(stream.clone());
            let files = [("simple", simple_file(&p)), ("extended", extended_still(&p, w, h, true)), ("anim", anim_file(&AnimSpec { cw: w, ch: h, alpha_flag: true, bg_file_order: [0; 4], loops: 0, frames: vec![FrameSpec { x: 0, y: 0, w, h, duration: 1, blend: false, dispose: false, payload: p.clone() }] }))];
            let lib = oracle::decode_rgba(&files[0].1);
            for (wn, f) in &files {
                let got = catch(|| { let mut d = WebPDecoder::new(Cursor::new(f.clone())).ok()?; let n = d.output_buffer_size()?; let mut b = vec![0x11u8; n]; d.read_image(&mut b).ok()?; Some((d.has_alpha(), b)) });
                rep.case(&format!("wrapped {wn} {}", hex(f)), true);
                rep.hit(&format!("wrapping_{wn}"));
                if let (Ok(Some((ha, b))), Some((_, _, l))) = (&got, &lib) {
                    let exp = if *ha { l.clone() } else { drop_alpha(l) };
                    if *b != exp {
                        rep.disagree(Disagreement { case: format!("wrapped {wn} {}", hex(f)), got: format!("{}", fnv_bytes(FNV_INIT, b)), expected: format!("{}", fnv_bytes(FNV_INIT, &exp)), class: "violation", obligation: "C01: same pixels in every wrapping".into(), detail: wn.to_string() });
                    }
                } else if lib.is_some() {
                    rep.disagree(Disagreement { case: format!("wrapped {wn} {}", hex(f)), got: "rejected".into(), expected: "decoded".into(), class: "violation", obligation: "C01: a valid stream is never rejected, in any wrapping".into(), detail: wn.to_string() });
                }
            }
        }
    }
    // (4) inverse transforms through their hooks against the specification's, every mode
    let n4 = if o.thorough() { 6000 } else { 800 };
    for i in 0..n4 {
        // every fifth case is wide with larger blocks (runs of 17+ pixels inside one block, several blocks of 32..512 pixels)
        let wide = i % 5 == 4;
        let (w, h) = if wide { (rng.range(17, 90) as u32, rng.range(2, 5) as u32) } else { match i % 6 { 0 => (1u32, rng.range(1, 9) as u32), 1 => (rng.range(1, 12) as u32, 1u32), _ => (rng.range(1, 20) as u32, rng.range(1, 9) as u32) } };
        let img: Vec<u8> = match rng.below(3) { 0 => rng.bytes((w * h * 4) as usize), 1 => (0..w * h * 4).map(|_| *rng.pick(&[0u8, 1, 2, 127, 128, 254, 255])).collect(), _ => (0..w * h * 4).map(|k| (k * 3) as u8 ^ rng.below(4) as u8).collect() };
        let bits = if wide { rng.range(2, 9) as u8 } else { rng.range(2, 4) as u8 };
        let sub = |v: u32| (v + (1 << bits) - 1) >> bits;
        let (kind, line, got): (&str, String, Result<Vec<u8>, String>) = match i % 4 {
            0 => {
                // predictor sub-image: mode in the green byte; modes 0..13 (+14, 15 occasionally, which
                // are outside the specification) in random or constant arrangement
                let nmodes = if rng.chance(1, 10) { 16 } else { 14 };
                let fixed = rng.below(nmodes) as u8;
                let data: Vec<u8> = (0..sub(w) * sub(h)).flat_map(|_| [rng.byte(), if i % 8 == 0 { fixed } else { rng.below(nmodes) as u8 }, rng.byte(), rng.byte()]).collect();
                let mut im = img.clone();
                let r = catch(|| hk::inv_predictor(&mut im, w as u16, h as u16, bits, &data).map_err(|e| format!("{e:?}")));
                ("predictor", format!("vp8ltransform predictor {bits} {w} {h} {} {}", hex(&data), hex(&img)), r.and_then(|x| x).map(|()| im))
            }
            1 => {
                let data: Vec<u8> = rng.bytes((sub(w) * sub(h) * 4) as usize);
                let mut im = img.clone();
                let r = catch(|| hk::inv_color(&mut im, w as u16, bits, &data));
                ("color", format!("vp8ltransform color {bits} {w} {h} {} {}", hex(&data), hex(&img)), r.map(|()| im))
            }
            2 => {
                let mut im = img.clone();
                let r = catch(|| hk::inv_subgreen(&mut im));
                ("subgreen", format!("vp8ltransform subgreen 0 {w} {h} - {}", hex(&img)), r.map(|()| im))
            }
            _ => {
                let n = *rng.pick(&[1u16, 2, 3, 4, 5, 15, 16, 17, 100, 256]);
                let table = rng.bytes(n as usize * 4);
                let wb = if n <= 2 { 3 } else if n <= 4 { 2 } else if n <= 16 { 1 } else { 0 };
                let pw = (w + (1 << wb) - 1) >> wb;
                // the packed index image occupies the first pw*h pixels of the buffer
                // (the rest holds stale bytes: the transform must overwrite all of it)
                let mut im = rng.bytes((w * h * 4) as usize);
                let packed: Vec<u8> = (0..pw * h).flat_map(|_| [0, rng.byte(), 0, 255]).collect();
                im[..packed.len()].copy_from_slice(&packed);
                let inp = im.clone();
                let r = catch(|| hk::inv_index(&mut im, w as u16, h as u16, n, &table));
                // tie 2 for the in-place model (CIdx.apply, for which C01.color_indexing_in_place is proved)
                if let Ok(out) = &r.as_ref().map(|()| im.clone()) {
                    let mline = format!("cidx {w} {h} {} {}", hex(&table), hex(&inp));
                    let m = drv.ask(&mline);
                    rep.hit("transform_index_in_place_model");
                    if hex(out) != m {
                        rep.disagree(Disagreement { case: mline, got: hex(out), expected: m, class: "correspondence", obligation: "tie2: apply_color_indexing_transform = CIdx.apply (in-place model)".into(), detail: String::new() });
                    }
                }
                ("index", format!("vp8ltransform index 0 {w} {h} {} {}", hex(&table), hex(&inp[..packed.len()])), r.map(|()| im))
            }
        };
        rep.case(&line, true);
        rep.hit(&format!("transform_{kind}"));
        // tie 2 for the models of the drivers themselves (LTr.applyPredictor / applyColor / applySubGreen,
        // for which C01.predictor_transform_is_spec etc. are proved)
        if kind != "index" {
            if let Ok(out) = &got {
                let f: Vec<&str> = line.split(' ').collect();
                let mline = format!("ltr {kind} {} {} {} {} {}", f[2], f[3], f[4], f[5], f[6]);
                let m = drv.ask(&mline);
                rep.hit(&format!("transform_{kind}_driver_model"));
                if hex(out) != m {
                    rep.disagree(Disagreement { case: mline, got: hex(out), expected: m, class: "correspondence", obligation: format!("tie2: the {kind} inverse-transform driver of lossless_transform.rs = its model in Model/LosslessTransforms.lean"), detail: String::new() });
                }
            }
        }
        let exp = drv.ask(&line);
        let gots = match &got { Ok(b) => hex(b), Err(m) => format!("PANIC/ERR {m}") };
        if gots != exp {
            // predictor modes 14/15 are outside the specification: the code leaves such blocks
            // unpredicted, libwebp predicts 0xff000000; recorded, not a violation
            let outside = kind == "predictor" && line.split(' ').nth(5).map(|d| unhex(d).chunks_exact(4).any(|p| p[1] >= 14)).unwrap_or(false);
            if outside {
                rep.hit("predictor_mode_14_15_outside_spec");
                continue;
            }
            let e = unhex(&exp);
            let k = got.as_ref().ok().and_then(|b| b.iter().zip(e.iter()).position(|(a, c)| a != c)).unwrap_or(0);
            rep.disagree(Disagreement { case: line, got: gots, expected: exp, class: "violation", obligation: "C01: inverse transforms as the lossless specification defines them (per pixel, all 14 predictor modes incl. the right-edge top-right rule, colour transform, subtract green, colour indexing for every packing width)".into(), detail: format!("{kind}: first difference at pixel ({}, {}) channel {}", (k / 4) as u32 % w, (k / 4) as u32 / w, k % 4) });
        }
    }
    // (3) crafted
    // grammar-generated streams
    let ngen = if o.thorough() { 6000 } else { 700 };
    for i in 0..ngen {
        let (gw, gh) = match i % 7 {
            0 => (1 + rng.below(8) as u32, 1 + rng.below(8) as u32),
            1 => (1, 1 + rng.below(60) as u32),
            2 => (1 + rng.below(60) as u32, 1),
            3 => (1 + rng.below(100) as u32, 1 + rng.below(24) as u32),
            _ => (1 + rng.below(40) as u32, 1 + rng.below(40) as u32),
        };
        let (st, ft) = crate::vp8lgen::stream(&mut rng, gw, gh);
        for t in &ft.transforms { rep.hit(&format!("gen_transform_{}", ["predictor", "colour", "subtract_green", "colour_indexing"][*t as usize])); }
        if ft.transforms.len() >= 3 { rep.hit("gen_three_or_more_transforms"); }
        if ft.directed_flat_group > 0 { rep.hit("gen_directed_flat_group_with_tiny_cache"); }
        if ft.cache_bits > 0 { rep.hit("gen_colour_cache"); }
        if ft.groups > 1 { rep.hit("gen_meta_groups"); }
        if ft.max_len >= 15 { rep.hit("gen_code_depth_15"); } else if ft.max_len > 10 { rep.hit("gen_code_depth_11_to_14"); }
        if ft.backrefs > 0 { rep.hit("gen_backward_references"); }
        if ft.cache_hits > 0 { rep.hit("gen_cache_hits"); }
        if ft.rle_tokens > 0 { rep.hit("gen_length_rle_tokens"); }
        if ft.max_symbol_used > 0 { rep.hit("gen_max_symbol"); }
        if ft.sub_cache > 0 { rep.hit("gen_cache_in_sub_image"); }
        if i < 2 { rep.sample(json!({"generated": format!("{gw}x{gh} {ft:?}"), "bytes": st.len()})); }
        one(&mut drv, &mut rep, &format!("generated:{gw}x{gh}"), &st, gw * gh <= 1200 && i % 3 == 0);
    }
    // tie 2 for the op-level model of the pixel loop (LLoop.decode): transform-free generated
    // streams; the real decoder (two buffer poisons) against the model run on the generator's
    // operation list, and the model against its specification
    let nloop = if o.thorough() { 4000 } else { 500 };
    let mut lines = Vec::new();
    let mut outs = Vec::new();
    for i in 0..nloop {
        let (gw, gh) = match i % 5 { 0 => (1 + rng.below(6) as u32, 1 + rng.below(6) as u32), 1 => (1 + rng.below(70) as u32, 1 + rng.below(3) as u32), _ => (1 + rng.below(36) as u32, 1 + rng.below(36) as u32) };
        let (st, ft) = crate::vp8lgen::stream_opt(&mut rng, gw, gh, false);
        let Some((cfg, ops)) = ft.trace else { continue };
        for poison in [0u8, 0xa5] {
            let mut buf = vec![poison; (gw * gh * 4) as usize];
            let r = catch(|| hk::vp8l_decode(Cursor::new(&st[..]), gw, gh, false, &mut buf).map_err(|e| format!("{e:?}")));
            let got = match r { Ok(Ok(())) => format!("ok {}/{}", fnv_bytes(FNV_INIT, &buf), buf.len()), Ok(Err(e)) => format!("err {e}"), Err(m) => format!("PANIC {m}") };
            let pv = u32::from_be_bytes([poison, poison, poison, poison]);
            lines.push(format!("lloop {cfg} {pv} {ops}"));
            outs.push((got, hex(&st)));
        }
    }
    let replies = ask_parallel(&o.drv, &lines, 8);
    for ((line, (got, sthex)), reply) in lines.iter().zip(&outs).zip(&replies) {
        rep.case(line, true);
        rep.hit("pixel_loop_model_tie");
        let m = reply.strip_prefix("M=").and_then(|r| r.split(" S=").next()).unwrap_or("?");
        let sp = reply.split(" S=").nth(1).and_then(|r| r.split(" C=").next()).unwrap_or("?");
        if !reply.ends_with("C=true") {
            rep.disagree(Disagreement { case: line.clone(), got: reply.clone(), expected: "C=true".into(), class: "correspondence", obligation: "hypothesis of C01.loop_refines_spec (LLoop.cons: single-symbol groups carry only their literal; len, dist >= 1) holds for every generated valid stream".into(), detail: String::new() });
        }
        if m != sp {
            rep.disagree(Disagreement { case: line.clone(), got: m.to_string(), expected: sp.to_string(), class: "correspondence", obligation: "theorem C01.loop_refines_spec instance: LLoop.decode = LLoop.specDecode".into(), detail: String::new() });
        }
        if got != m {
            rep.disagree(Disagreement { case: format!("vp8l {sthex} looptie"), got: got.clone(), expected: m.to_string(), class: if got != sp { "violation" } else { "correspondence" }, obligation: "tie2: decode_image_data = LLoop.decode on the operations the stream encodes (and = the per-pixel specification)".into(), detail: line.chars().take(300).collect() });
        }
    }
    // the entropy decoder against the specification's canonical decoder (Prefix.decodeSymbol, for
    // which C14.codes_decodable / Prefix.decodeSym_canonical are proved): HuffmanTree::build_implicit
    // + read_symbol on generated code lengths of every shape (alphabets 2..600 and the 2328-symbol
    // green alphabet, depths to 15, primary-table-only and secondary-tree codes), incomplete /
    // over-subscribed / single / empty length vectors, and random byte strings incl. truncation
    let nhuf = if o.thorough() { 6000 } else { 700 };
    let mut hlines = Vec::new();
    for i in 0..nhuf {
        let n = match i % 8 { 0 => 2 + rng.below(4) as usize, 1 => 19, 2 => 40, 3 => 256, 4 => 280, 5 => 2 + rng.below(600) as usize, 6 if i % 64 == 6 => 2328, _ => 2 + rng.below(64) as usize };
        let used = match rng.below(4) { 0 => n, 1 => 2.min(n), _ => 2 + rng.below((n - 1) as u64) as usize }.min(n);
        let mut minbits = 1u8;
        while (1usize << minbits) < used { minbits += 1; }
        let maxd = minbits.max(match rng.below(4) { 0 => 15, 1 => 10, 2 => 11, _ => 1 + rng.below(15) as u8 });
        let depths = crate::vp8lgen::complete_depths(&mut rng, used, maxd);
        // scatter the used symbols over the alphabet
        let mut lengths = vec![0u8; n];
        let mut slots: Vec<usize> = (0..n).collect();
        for d in depths {
            let k = rng.below(slots.len() as u64) as usize;
            lengths[slots.swap_remove(k)] = d;
        }
        let kind = rng.below(12);
        match kind {
            0 => { let k = rng.below(n as u64) as usize; lengths[k] = if lengths[k] == 0 { 1 + rng.below(15) as u8 } else { 0 }; }
            1 => { let k = rng.below(n as u64) as usize; lengths[k] = 1 + rng.below(15) as u8; }
            2 => { lengths.iter_mut().for_each(|l| *l = 0); if rng.chance(1, 2) { let k = rng.below(n as u64) as usize; lengths[k] = 1 + rng.below(15) as u8; } }
            _ => {}
        }
        let nb = match rng.below(5) { 0 => rng.below(3) as usize, 1 => 64, _ => 1 + rng.below(40) as usize };
        let bytes: Vec<u8> = match rng.below(6) { 0 => vec![0xff; nb], 1 => vec![0; nb], _ => (0..nb).map(|_| rng.next() as u8).collect() };
        let nsym = 1 + rng.below(48) as usize;
        hlines.push(format!("hufdec {nsym} {} {}", join(&lengths), hex(&bytes)));
    }
    let hreplies = ask_parallel(&o.drv, &hlines, 8);
    for (line, reply) in hlines.iter().zip(&hreplies) {
        huf_check(&mut rep, line, reply);
    }
    // serialised prefix codes (simple and normal, run-length tokens, max_symbol, every alphabet of
    // the format; whole and truncated): the executable specification's reader and its
    // proof-friendly twin Prefix.readCodeL must agree on lengths and on the bits consumed, and a
    // whole serialisation must give back the generator's lengths
    let ncodes = if o.thorough() { 3000 } else { 400 };
    let mut clines = Vec::new();
    let mut cexp = Vec::new();
    for i in 0..ncodes {
        let alphabet = *rng.pick(&[256usize, 280, 40, 256 + 24 + 2, 256 + 24 + 64, 256 + 24 + 2048, 19, 2]);
        let (mut bytes, lengths) = crate::vp8lgen::serialised_code(&mut rng, alphabet);
        let whole = i % 5 != 0;
        if !whole { let k = rng.below(bytes.len() as u64 + 1) as usize; bytes.truncate(k); }
        clines.push(format!("rcl {alphabet} {}", hex(&bytes)));
        cexp.push(if whole { Some(lengths) } else { None });
    }
    let creplies = ask_parallel(&o.drv, &clines, 8);
    for ((line, exp), reply) in clines.iter().zip(&cexp).zip(&creplies) {
        rep.case(line, true);
        rep.hit(if reply.starts_with("agree none") { "code_reader_twin_rejects" } else { "code_reader_twin_accepts" });
        if !reply.starts_with("agree") {
            rep.disagree(Disagreement { case: line.clone(), got: reply.chars().take(200).collect(), expected: "agree".into(), class: "correspondence", obligation: "specification twin: Prefix.readCodeL = VP8L.readCode (lengths and bits consumed)".into(), detail: String::new() });
        } else if let Some(l) = exp {
            let want = format!("agree {} used=", join(l));
            if !reply.starts_with(&want) {
                rep.disagree(Disagreement { case: line.clone(), got: reply.chars().take(200).collect(), expected: want, class: "correspondence", obligation: "the specification reads a generated serialisation back as the lengths it was made from".into(), detail: String::new() });
            }
        }
    }
    // `read_huffman_code` itself (hook 910fc7a): the real code reader followed by symbol reads with
    // the tree it returns, against the model CodeRead.readCode + Huff.readSym (tie) and against the
    // specification's ReadCode + canonical decoder (C01.read_code_is_spec is the theorem between
    // the two).  Whole, truncated and bit-flipped serialisations of every alphabet of the format.
    let nrc = if o.thorough() { 6000 } else { 900 };
    let mut rlines = Vec::new();
    let mut rgot = Vec::new();
    for i in 0..nrc {
        let alphabet = *rng.pick(&[256usize, 280, 40, 256 + 24 + 2, 256 + 24 + 64, 256 + 24 + 2048, 256 + 24 + 1024]);
        let (mut bytes, _lengths) = crate::vp8lgen::serialised_code(&mut rng, alphabet);
        match i % 6 {
            0 => { let k = rng.below(bytes.len() as u64 + 1) as usize; bytes.truncate(k); }
            1 => { if !bytes.is_empty() { let k = rng.below(bytes.len() as u64 * 8) as usize; bytes[k / 8] ^= 1 << (k % 8); } }
            2 => { let extra = rng.bytes(6); bytes.extend_from_slice(&extra); }
            _ => {}
        }
        let n = 12usize;
        let got = match catch(|| hk::read_code_then_symbols(&bytes, alphabet as u16, n)) {
            Ok(Ok((single, syms, err))) => format!("ok single={} syms={} end={}", single as u8, join(&syms), if err.is_none() { "ok" } else { "err" }),
            Ok(Err(_)) => "err".to_string(),
            Err(m) => format!("PANIC {m}"),
        };
        rlines.push(format!("coderead {alphabet} {n} {}", if bytes.is_empty() { "-".to_string() } else { hex(&bytes) }));
        rgot.push(got);
    }
    // directed: the `max_symbol` field at every width and at the boundary values of that width and of
    // the alphabet (a 16-bit field holding 0xFFFE / 0xFFFF overflows `2 + value` in u16)
    for &alphabet in &[40usize, 256, 280, 2328] {
        for n3 in 0..8u32 {
            for value in max_symbol_values(n3, alphabet as u64) {
                for tokens in [&[1u8, 1][..], &[2, 2, 2, 2], &[1]] {
                    let mut w = BitW::new();
                    w.normal_with_max_symbol(n3, value, tokens);
                    w.put(0xA5A5, 16);
                    let bytes = w.finish();
                    let n = 4usize;
                    let got = match catch(|| hk::read_code_then_symbols(&bytes, alphabet as u16, n)) {
                        Ok(Ok((single, syms, err))) => format!("ok single={} syms={} end={}", single as u8, join(&syms), if err.is_none() { "ok" } else { "err" }),
                        Ok(Err(_)) => "err".to_string(),
                        Err(m) => format!("PANIC {m}"),
                    };
                    rlines.push(format!("coderead {alphabet} {n} {}", hex(&bytes)));
                    rgot.push(got);
                }
            }
        }
    }
    let rreplies = ask_parallel(&o.drv, &rlines, 8);
    for ((line, got), reply) in rlines.iter().zip(&rgot).zip(&rreplies) {
        rep.case(line, true);
        let mut parts = reply.split(" ;; ");
        let (spec, model) = (parts.next().unwrap_or(""), parts.next().unwrap_or(""));
        rep.hit(if spec == "err" { "read_code_rejected" } else if spec.contains("single=1") { "read_code_single" } else { "read_code_tree" });
        if got != spec {
            rep.disagree(Disagreement { case: line.clone(), got: got.clone(), expected: spec.into(), class: "violation", obligation: "C01: read_huffman_code accepts exactly the serialised prefix codes the specification accepts and the tree it returns decodes the following bits like the specification's canonical code".into(), detail: format!("model says {model}") });
        } else if got != model {
            rep.disagree(Disagreement { case: line.clone(), got: got.clone(), expected: model.into(), class: "correspondence", obligation: "tie2: read_huffman_code / read_huffman_code_lengths = CodeRead.readCode".into(), detail: String::new() });
        }
    }
    for (name, s) in crafted() {
        one(&mut drv, &mut rep, &name, &s, dims_of(&s).map(|(w, h)| w * h <= 2500).unwrap_or(false));
    }
    rep
}

/// the crate's HuffmanTree on one `hufdec n lengths hexbytes` request, in the driver's reply format
fn huf_impl(line: &str) -> String {
    let mut it = line.split_whitespace().skip(1);
    let n: usize = it.next().and_then(|x| x.parse().ok()).unwrap_or(0);
    let lengths: Vec<u16> = it.next().map(|l| if l == "-" { vec![] } else { l.split(',').filter_map(|x| x.parse().ok()).collect() }).unwrap_or_default();
    let bytes = unhex(it.next().unwrap_or("-"));
    let r = catch(|| match hk::Huff::build_implicit(lengths.clone()) {
        Err(_) => "invalid".to_string(),
        Ok(t) => {
            let (syms, err) = t.read_symbols(&bytes, n);
            format!("syms={} end={}", join(&syms), if err.is_none() { "ok" } else { "eof" })
        }
    });
    match r { Ok(s) => s, Err(m) => format!("PANIC {m}") }
}

fn huf_check(rep: &mut Report, line: &str, reply_both: &str) {
    let got = huf_impl(line);
    let (reply, model) = reply_both.split_once(" ;; ").unwrap_or((reply_both, "?"));
    let nontrivial = reply != "invalid";
    rep.case(line, nontrivial);
    rep.hit(if nontrivial { "entropy_decoder_tie_valid_code" } else { "entropy_decoder_tie_invalid_lengths" });
    if reply.ends_with("end=eof") { rep.hit("entropy_decoder_tie_data_exhausted"); }
    if let Some(l) = line.split_whitespace().nth(2) {
        let mx = l.split(',').filter_map(|x| x.parse::<u8>().ok()).max().unwrap_or(0);
        if nontrivial && mx > 10 { rep.hit("entropy_decoder_tie_secondary_tree"); }
        if nontrivial && mx == 15 { rep.hit("entropy_decoder_tie_depth_15"); }
    }
    if got != reply {
        rep.disagree(Disagreement { case: line.to_string(), got: got.clone(), expected: reply.to_string(), class: "violation",
            obligation: "HuffmanTree::build_implicit + read_symbol = the specification's canonical prefix decoder (Prefix.validLengths / Prefix.decodeSymbol) on the same lengths and bits".into(), detail: String::new() });
    }
    if got != model {
        rep.disagree(Disagreement { case: line.to_string(), got, expected: model.to_string(), class: if model != reply { "correspondence" } else { "violation" },
            obligation: "tie2: HuffmanTree::build_implicit + read_symbol = Huff.build + Huff.readSym (Model/Huffman.lean)".into(), detail: String::new() });
    }
}

fn huf_one(drv: &mut Drv, rep: &mut Report, line: &str) {
    let reply = drv.ask(line);
    huf_check(rep, line, &reply);
}

/// parse just enough of the stream to see which transforms / cache / meta codes it uses
fn feature_histogram(rep: &mut Report, s: &[u8]) {
    // bit cursor
    let bit = |p: usize| (s.get(p / 8).copied().unwrap_or(0) >> (p % 8)) & 1;
    let mut p = 40;
    let mut guard = 0;
    while bit(p) == 1 && guard < 4 {
        guard += 1;
        let ty = bit(p + 1) | (bit(p + 2) << 1);
        rep.hit(&format!("stream_transform_{}", ["predictor", "color", "subtract_green", "color_indexing"][ty as usize]));
        // cannot skip transform data without decoding; stop after the first
        break;
    }
    if bit(p) == 0 {
        p += 1;
        if bit(p) == 1 {
            rep.hit("stream_color_cache");
        }
    }
}
