//! C08: header and metadata accessors.  Generated well-formed container layouts (simple lossy,
//! simple lossless, extended still, animated; all flags; extreme dimensions; unknown chunks at any
//! position; odd lengths; metadata anywhere; memory limits around the chunk sizes) are opened
//! with the real decoder; every accessor is compared with (1) the values the layout defines by
//! construction (the specification), (2) the Lean model `Container.openFile` (tie 2),
//! (3) libwebp's demuxer where it accepts the file.
use crate::common::*;
use crate::oracle;
use crate::webpfile::*;
use image_webp::{LoopCount, WebPDecoder};
use serde_json::json;
use std::io::Cursor;

#[derive(Clone, Debug)]
pub struct Desc {
    pub kind: &'static str,
    pub file: Vec<u8>,
    pub width: u32,
    pub height: u32,
    pub alpha: bool,
    pub animated: bool,
    pub lossy: bool,
    pub frames: u32,
    pub loops: u32,
    pub duration: u64,
    pub icc: Option<Vec<u8>>,
    pub exif: Option<Vec<u8>>,
    pub xmp: Option<Vec<u8>>,
}

fn meta_str(v: &Result<Option<Vec<u8>>, String>) -> String {
    match v {
        Ok(None) => "none".into(),
        Ok(Some(b)) => format!("{}/{}", fnv_bytes(FNV_INIT, b), b.len()),
        Err(e) => format!("err:{e}"),
    }
}

fn err_name(e: &image_webp::DecodingError) -> String {
    use image_webp::DecodingError as E;
    match e {
        E::IoError(io) if io.kind() == std::io::ErrorKind::UnexpectedEof => "IoError(UnexpectedEof)".into(),
        E::IoError(_) => "IoError(other)".into(),
        other => {
            let s = format!("{other:?}");
            s.split(['(', ' ', '{']).next().unwrap_or("").to_string()
        }
    }
}

/// the canonical accessor record of the real decoder (same text as the driver's `open`)
pub fn real_record(file: &[u8], limit: usize) -> String { real_record_at(file, limit, 0, 0) }

/// the same through a reader in which the file is embedded: `prefix` foreign bytes before it, the
/// reader positioned at the file's first byte when the decoder is created; odd `suffix` = metadata
/// accessors in reverse order, each called twice
pub fn real_record_at(file: &[u8], limit: usize, prefix: usize, suffix: usize) -> String {
    let r = catch(|| {
        let mut stream: Vec<u8> = (0..prefix).map(|i| (i * 31 + 7) as u8).collect();
        stream.extend_from_slice(file);
        // (nothing is appended: what follows a file is outside the property; `suffix` only selects the accessor order)
        let mut cur = Cursor::new(stream);
        cur.set_position(prefix as u64);
        let mut d = match WebPDecoder::new(cur) {
            Ok(d) => d,
            Err(e) => return format!("err {}", err_name(&e)),
        };
        d.set_memory_limit(limit);
        let (w, h) = d.dimensions();
        let lc = match d.loop_count() {
            LoopCount::Forever => 0,
            LoopCount::Times(n) => u32::from(n.get()),
        };
        let m = |r: Result<Option<Vec<u8>>, image_webp::DecodingError>| meta_str(&r.map_err(|e| err_name(&e)));
        // `suffix` odd: the accessors are called in the opposite order, each twice (the first
        // answer is kept; a second answer that differs is reported in the record)
        let (icc, exif, xmp) = if suffix % 2 == 1 {
            let xmp = m(d.xmp_metadata());
            let exif = m(d.exif_metadata());
            let icc = m(d.icc_profile());
            let again = (m(d.icc_profile()), m(d.exif_metadata()), m(d.xmp_metadata()));
            if again != (icc.clone(), exif.clone(), xmp.clone()) { (format!("{icc}(second call: {})", again.0), format!("{exif}(second call: {})", again.1), format!("{xmp}(second call: {})", again.2)) } else { (icc, exif, xmp) }
        } else {
            (m(d.icc_profile()), m(d.exif_metadata()), m(d.xmp_metadata()))
        };
        format!(
            "ok dims={w}x{h} alpha={} animated={} lossy={} frames={} loop={lc} duration={} bufsize={} icc={icc} exif={exif} xmp={xmp}",
            d.has_alpha() as u8, d.is_animated() as u8, d.is_lossy() as u8, d.num_frames(), d.loop_duration(),
            d.output_buffer_size().map(|n| n.to_string()).unwrap_or("none".into())
        )
    });
    r.unwrap_or_else(|m| format!("PANIC {m}"))
}

fn expected_record(d: &Desc, limit: usize) -> String {
    let m = |v: &Option<Vec<u8>>| match v {
        None => "none".to_string(),
        Some(b) if b.len() > limit => "err:MemoryLimitExceeded".to_string(),
        Some(b) => format!("{}/{}", fnv_bytes(FNV_INIT, b), b.len()),
    };
    format!(
        "ok dims={}x{} alpha={} animated={} lossy={} frames={} loop={} duration={} bufsize={} icc={} exif={} xmp={}",
        d.width, d.height, d.alpha as u8, d.animated as u8, d.lossy as u8, d.frames, d.loops, d.duration,
        d.width as u64 * d.height as u64 * if d.alpha { 4 } else { 3 }, m(&d.icc), m(&d.exif), m(&d.xmp)
    )
}

fn dim14(rng: &mut Rng, max: u32) -> u32 {
    match rng.below(6) {
        0 => 1,
        1 => max,
        2 => max - 1,
        3 => *rng.pick(&[2u32, 255, 256, 257, 4096, 8191, 8192]),
        _ => rng.range(1, max as u64) as u32,
    }
}

fn vp8_header_payload(rng: &mut Rng, w: u32, h: u32) -> Vec<u8> {
    // frame tag: keyframe (bit 0 = 0), version, show_frame, first partition size: random but even tag
    let tag = (rng.next() as u32 & 0xff_fffe).to_le_bytes();
    let mut v = vec![tag[0], tag[1], tag[2], 0x9d, 0x01, 0x2a];
    // 14-bit size + 2 scale bits
    let ws = (w as u16) | ((rng.below(4) as u16) << 14);
    let hs = (h as u16) | ((rng.below(4) as u16) << 14);
    v.extend_from_slice(&ws.to_le_bytes());
    v.extend_from_slice(&hs.to_le_bytes());
    let n = rng.below(40) as usize;
    v.extend(rng.bytes(n));
    v
}
fn vp8l_header_payload(rng: &mut Rng, w: u32, h: u32, alpha: bool) -> Vec<u8> {
    let header: u32 = (w - 1) | ((h - 1) << 14) | ((alpha as u32) << 28);
    let mut v = vec![0x2f];
    v.extend_from_slice(&header.to_le_bytes());
    let n = rng.below(40) as usize;
    v.extend(rng.bytes(n));
    v
}
fn unknown_chunk(rng: &mut Rng) -> Vec<u8> {
    let cc = *rng.pick(&[*b"ABCD", *b"vp8 ", *b"JUNK", *b"iccp", *b"XMP\0", *b"FRGM"]);
    let n = rng.below(9) as usize;
    chunk(&cc, &rng.bytes(n))
}
fn meta(rng: &mut Rng) -> Vec<u8> {
    let n = *rng.pick(&[0usize, 1, 2, 3, 7, 64, 255, 256, 1000]);
    rng.bytes(n)
}

pub fn gen_desc(rng: &mut Rng) -> Desc {
    match rng.below(8) {
        0 => {
            let (w, h) = (dim14(rng, 16383), dim14(rng, 16383));
            let file = riff(&chunk(b"VP8 ", &vp8_header_payload(rng, w, h)));
            Desc { kind: "simple_lossy", file, width: w, height: h, alpha: false, animated: false, lossy: true, frames: 0, loops: 1, duration: 0, icc: None, exif: None, xmp: None }
        }
        1 => {
            let (w, h) = (dim14(rng, 16384), dim14(rng, 16384));
            let alpha = rng.chance(1, 2);
            let file = riff(&chunk(b"VP8L", &vp8l_header_payload(rng, w, h, alpha)));
            Desc { kind: "simple_lossless", file, width: w, height: h, alpha, animated: false, lossy: false, frames: 0, loops: 1, duration: 0, icc: None, exif: None, xmp: None }
        }
        2..=4 => {
            // extended still
            let big = rng.chance(1, 5);
            let (cw, ch) = if big { (*rng.pick(&[1u32 << 24, 65536, 16384]), rng.range(1, 255) as u32) } else { (dim14(rng, 16384), dim14(rng, 16384)) };
            let alpha = rng.chance(1, 2);
            let lossy = rng.chance(1, 2);
            let icc = if rng.chance(1, 2) { Some(meta(rng)) } else { None };
            let exif = if rng.chance(1, 2) { Some(meta(rng)) } else { None };
            let xmp = if rng.chance(1, 2) { Some(meta(rng)) } else { None };
            let flags = (if alpha { F_ALPHA } else { 0 }) | (if icc.is_some() { F_ICC } else { 0 }) | (if exif.is_some() { F_EXIF } else { 0 }) | (if xmp.is_some() { F_XMP } else { 0 });
            let (iw, ih) = (cw.min(16383), ch.min(16383));
            let mut image = Vec::new();
            if lossy {
                if rng.chance(1, 2) {
                    image.extend(chunk(b"ALPH", &rng.bytes(5)));
                }
                image.extend(chunk(b"VP8 ", &vp8_header_payload(rng, iw, ih)));
            } else {
                image.extend(chunk(b"VP8L", &vp8l_header_payload(rng, iw.max(1), ih.max(1), alpha)));
            }
            // order: spec order, or metadata moved around the image chunk
            let mut parts: Vec<Vec<u8>> = Vec::new();
            let m_icc = icc.as_ref().map(|b| chunk(b"ICCP", b));
            let m_exif = exif.as_ref().map(|b| chunk(b"EXIF", b));
            let m_xmp = xmp.as_ref().map(|b| chunk(b"XMP ", b));
            let mut metas: Vec<Vec<u8>> = [m_icc, m_exif, m_xmp].into_iter().flatten().collect();
            if rng.chance(1, 3) {
                // arbitrary positions
                let k = rng.below(metas.len() as u64 + 1) as usize;
                let after = metas.split_off(k);
                parts.extend(metas);
                parts.push(image);
                parts.extend(after);
            } else {
                let mut it = metas.into_iter();
                if icc.is_some() {
                    parts.push(it.next().unwrap());
                }
                parts.push(image);
                parts.extend(it);
            }
            let mut body = vp8x(flags, cw, ch);
            for p in parts {
                if rng.chance(1, 3) {
                    body.extend(unknown_chunk(rng));
                }
                body.extend(p);
            }
            if rng.chance(1, 3) {
                body.extend(unknown_chunk(rng));
            }
            Desc { kind: "extended_still", file: riff(&body), width: cw, height: ch, alpha, animated: false, lossy, frames: 0, loops: 1, duration: 0, icc, exif, xmp }
        }
        _ => {
            // animated
            let (cw, ch) = (dim14(rng, 16384).min(4096), dim14(rng, 16384).min(4096));
            let alpha = rng.chance(1, 2);
            let icc = if rng.chance(1, 3) { Some(meta(rng)) } else { None };
            let exif = if rng.chance(1, 3) { Some(meta(rng)) } else { None };
            let xmp = if rng.chance(1, 3) { Some(meta(rng)) } else { None };
            let flags = F_ANIM | (if alpha { F_ALPHA } else { 0 }) | (if icc.is_some() { F_ICC } else { 0 }) | (if exif.is_some() { F_EXIF } else { 0 }) | (if xmp.is_some() { F_XMP } else { 0 });
            let loops = *rng.pick(&[0u16, 1, 2, 65535, rng.0 as u16]);
            // now and then a long animation of maximum-length frames: the durations sum past 2^32
            let long = rng.chance(1, 40);
            let n = if long { *rng.pick(&[257usize, 300, 520]) } else { rng.range(1, 6) as usize };
            let mut body = vp8x(flags, cw, ch);
            if let Some(b) = &icc {
                body.extend(chunk(b"ICCP", b));
            }
            if rng.chance(1, 3) {
                body.extend(unknown_chunk(rng));
            }
            body.extend(anim_chunk([rng.byte(), rng.byte(), rng.byte(), rng.byte()], loops));
            let mut lossy = false;
            let mut duration = 0u64;
            for _ in 0..n {
                let fw = rng.range(1, cw.min(64) as u64) as u32;
                let fh = rng.range(1, ch.min(64) as u64) as u32;
                let rd = rng.below(1 << 24) as u32;
                let d = if long && !rng.chance(1, 50) { 0xff_ffff } else { *rng.pick(&[0u32, 1, 100, 0xff_ffff, rd]) };
                duration += u64::from(d);
                let mut data = Vec::new();
                data.extend_from_slice(&u24(0));
                data.extend_from_slice(&u24(0));
                data.extend_from_slice(&u24(fw - 1));
                data.extend_from_slice(&u24(fh - 1));
                data.extend_from_slice(&u24(d));
                data.push(rng.below(4) as u8);
                match rng.below(3) {
                    0 => data.extend(chunk(b"VP8L", &vp8l_header_payload(rng, fw, fh, true))),
                    1 => {
                        lossy = true;
                        data.extend(chunk(b"VP8 ", &vp8_header_payload(rng, fw, fh)));
                    }
                    _ => {
                        lossy = true;
                        // alpha data is arbitrary bytes: it may spell a chunk header, e.g. an
                        // uncompressed vertically filtered plane (info byte 0x58 = 'X') whose
                        // first values are 'M','P',' ' (regression of /repo a1f51e1)
                        let alph = if rng.chance(1, 3) {
                            let mut a = rng.pick(&[*b"XMP ", *b"EXIF", *b"ICCP", *b"VP8L", *b"ANIM"]).to_vec();
                            let n = rng.below(6) as u32;
                            a.extend_from_slice(&n.to_le_bytes());
                            let extra = rng.below(5) as usize;
                            a.extend(rng.bytes(n as usize + extra));
                            a
                        } else {
                            rng.bytes(4)
                        };
                        data.extend(chunk(b"ALPH", &alph));
                        data.extend(chunk(b"VP8 ", &vp8_header_payload(rng, fw, fh)));
                    }
                }
                if rng.chance(1, 4) {
                    data.extend(unknown_chunk(rng));
                }
                body.extend(chunk(b"ANMF", &data));
                if rng.chance(1, 4) {
                    body.extend(unknown_chunk(rng));
                }
            }
            if let Some(b) = &exif {
                body.extend(chunk(b"EXIF", b));
            }
            if let Some(b) = &xmp {
                body.extend(chunk(b"XMP ", b));
            }
            Desc { kind: "animated", file: riff(&body), width: cw, height: ch, alpha, animated: true, lossy, frames: n as u32, loops: u32::from(loops), duration, icc, exif, xmp }
        }
    }
}

fn one(drv: &mut Drv, rep: &mut Report, d: &Desc, limit: usize) {
    let line = format!("open {} {}", hex(&d.file), limit);
    let got = real_record(&d.file, limit);
    let exp = expected_record(d, limit);
    let model = drv.ask(&line);
    rep.case(&line, d.kind != "simple_lossy");
    rep.hit(&format!("kind_{}", d.kind));
    let over = [&d.icc, &d.exif, &d.xmp].iter().any(|m| m.as_ref().map(|b| b.len() > limit).unwrap_or(false));
    if over {
        rep.hit("memory_limit_below_a_chunk");
    }
    // the canvas of an extended file may exceed what output_buffer_size can hold; compare as text
    if got != exp {
        rep.disagree(Disagreement {
            case: line.clone(),
            got: got.clone(),
            expected: exp.clone(),
            class: "violation",
            obligation: "C08: accessors equal the values the file's headers define (specification by construction of the layout)".into(),
            detail: format!("layout {}; model says {model}", d.kind),
        });
        return;
    }
    if got != model {
        rep.disagree(Disagreement { case: line.clone(), got: got.clone(), expected: model, class: "correspondence", obligation: "tie2: WebPDecoder::new + accessors = Container.openFile".into(), detail: format!("layout {}", d.kind) });
    }
    // the file embedded in a larger stream (the reader positioned at its first byte): what the
    // headers define does not depend on where the file starts
    let k = d.file.len();
    for (prefix, suffix) in [(1usize, 0usize), (64 + k % 7, 1), (4096, 0), (0, 1)] {
        let emb = real_record_at(&d.file, limit, prefix, suffix);
        rep.hit("file_embedded_at_an_offset");
        if emb != got {
            rep.disagree(Disagreement { case: format!("{line} (embedded after {prefix} bytes)"), got: emb, expected: got.clone(), class: "violation", obligation: "C08: accessors equal the values the file's headers define - also when the file is read from a reader positioned at its first byte inside a larger stream, and whatever the order and number of accessor calls".into(), detail: format!("layout {}; {prefix} bytes before the file; accessor order variant {suffix}", d.kind) });
            break;
        }
    }
}

pub fn run(o: &Opts) -> Report {
    let mut rep = Report::new("C08");
    let mut drv = Drv::spawn(&o.drv);
    if let Some(case) = &o.replay {
        let p: Vec<&str> = case.split_whitespace().collect();
        let file = unhex(p[1]);
        let limit: usize = p[2].parse().unwrap_or(usize::MAX);
        let got = real_record(&file, limit);
        let model = drv.ask(case);
        rep.case(case, true);
        if got != model {
            rep.disagree(Disagreement { case: case.clone(), got, expected: model, class: "violation", obligation: "replay: accessors vs Container.openFile".into(), detail: String::new() });
        }
        return rep;
    }
    rep.rule = "generated well-formed layouts: simple lossy (14-bit sizes 1..16383 with scale bits), simple lossless (1..16384, alpha bit), extended stills (all flag combinations, 24-bit canvas incl. 2^24, metadata present/absent/empty/odd/1000 bytes at spec and non-spec positions, unknown chunks anywhere, ALPH present/absent), animations (1..6 frames, now and then 257..520 frames of maximum duration - sums beyond 2^32 -, durations incl. 0 and 2^24-1, loop counts incl. 0 and 65535, unknown chunks between and inside frames) x memory limits {unlimited, 0, size-1, size, 255}; accessors vs layout-defined values, vs the Lean model, vs libwebp WebPDemux. distinct_nontrivial = distinct (file, limit) cases other than simple lossy".into();
    let mut rng = Rng::new(o.seed ^ 0xC08);
    let n = if o.thorough() { 40000 } else { 4000 };
    for i in 0..n {
        let d = gen_desc(&mut rng);
        let sizes: Vec<usize> = [&d.icc, &d.exif, &d.xmp].iter().filter_map(|m| m.as_ref().map(|b| b.len())).collect();
        let limit = match rng.below(5) {
            0 => 0,
            1 if !sizes.is_empty() => sizes[0].saturating_sub(1),
            2 if !sizes.is_empty() => sizes[0],
            3 => 255,
            _ => 1 << 40,
        };
        if i < 3 {
            rep.sample(json!({"kind": d.kind, "file_len": d.file.len(), "limit": limit, "expected": expected_record(&d, limit)}));
        }
        one(&mut drv, &mut rep, &d, limit);
        // libwebp demuxer on a subset (it validates more than the crate; only accepted files count)
        if i % 4 == 0 {
            if let Some(di) = oracle::demux(&d.file) {
                rep.oracle_checks += 1;
                let ok = (di.canvas_w, di.canvas_h) == (d.width, d.height)
                    && (!d.animated || (di.frame_count == d.frames && di.loop_count == d.loops && di.durations.iter().map(|x| u64::from(*x)).sum::<u64>() == d.duration))
                    && (d.kind.starts_with("simple") || (di.icc == d.icc.clone().filter(|_| true) && di.exif == d.exif && di.xmp == d.xmp));
                if !ok {
                    rep.hit("oracle_differs_from_layout");
                    if rep.notes.len() < 5 {
                        rep.notes.push(format!("libwebp demux differs from the layout's values: {di:?} vs {} file {}", expected_record(&d, 1 << 40), hex(&d.file)));
                    }
                }
            } else {
                rep.hit("oracle_rejected_file");
            }
        }
    }
    rep
}
