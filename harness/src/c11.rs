//! C11: output buffers and container wrappings.  Every generated payload (VP8L with/without
//! alpha bit, VP8, ALPH+VP8) is wrapped as simple file, extended file (alpha flag clear/set) and
//! single full-canvas non-blended animation frame (flag clear/set), and read with
//!   - two poison fills of the output buffer (0x00 / 0xA5): results must be identical;
//!   - wrong buffer lengths {0, size-1, size+1}: error, buffer untouched;
//!   - twice in a row: identical;
//! and across wrappings: four-channel outputs equal, three-channel = four-channel without alpha.
//! Tie 2: each result against `ReadImage.readImage` fed with the crate's own payload decoding.
use crate::common::*;
use crate::webpfile::*;
use image_webp::verif_hooks as hk;
use image_webp::WebPDecoder;
use serde_json::json;
use std::io::Cursor;

fn read_with(file: &[u8], fill: u8, len_delta: i64) -> (String, Option<Vec<u8>>, usize, bool) {
    // returns (outcome text, buffer on success, expected size, has_alpha)
    let r = catch(|| {
        let mut d = match WebPDecoder::new(Cursor::new(file.to_vec())) {
            Ok(d) => d,
            Err(e) => return (format!("OPENERR {e:?}"), None, 0, false),
        };
        let size = d.output_buffer_size().unwrap_or(0);
        let len = (size as i64 + len_delta).max(0) as usize;
        let mut buf = vec![fill; len];
        let ha = d.has_alpha();
        match d.read_image(&mut buf) {
            Ok(()) => {
                // read again into a differently poisoned buffer
                let mut again = vec![fill ^ 0xff; len];
                let second = d.read_image(&mut again);
                if second.is_err() || again != buf {
                    return ("ok-but-second-read-differs".to_string(), Some(buf), size, ha);
                }
                ("ok".to_string(), Some(buf), size, ha)
            }
            Err(e) => {
                let untouched = buf.iter().all(|&b| b == fill);
                (format!("err {}{}", format!("{e:?}").split(['(', ' ']).next().unwrap_or(""), if untouched { "" } else { " buffer-modified" }), None, size, ha)
            }
        }
    });
    r.unwrap_or_else(|m| (format!("PANIC {m}"), None, 0, false))
}

/// reader over a stream in which the file starts at `prefix`; once armed it fails exactly once, at
/// the first read at or beyond stream offset `at`
struct Unusual { inner: Cursor<Vec<u8>>, at: Option<u64>, armed: std::rc::Rc<std::cell::Cell<bool>>, fired: std::rc::Rc<std::cell::Cell<bool>> }
impl Unusual {
    fn trip(&mut self) -> std::io::Result<()> {
        if let Some(at) = self.at {
            if self.armed.get() && !self.fired.get() && self.inner.position() >= at {
                self.fired.set(true);
                return Err(std::io::Error::new(std::io::ErrorKind::TimedOut, "injected transient fault"));
            }
        }
        Ok(())
    }
}
impl std::io::Read for Unusual { fn read(&mut self, b: &mut [u8]) -> std::io::Result<usize> { self.trip()?; self.inner.read(b) } }
impl std::io::BufRead for Unusual {
    fn fill_buf(&mut self) -> std::io::Result<&[u8]> { self.trip()?; self.inner.fill_buf() }
    fn consume(&mut self, a: usize) { self.inner.consume(a) }
}
impl std::io::Seek for Unusual { fn seek(&mut self, p: std::io::SeekFrom) -> std::io::Result<u64> { self.inner.seek(p) } }

/// read_image through an unusual reader: the file embedded after `prefix` foreign bytes, and / or
/// one transient fault at file offset `fault` after the decoder is open (the failed call is
/// repeated once).  Returns the outcome and the buffer of the successful call.
fn read_unusual(file: &[u8], fill: u8, prefix: usize, fault: Option<usize>) -> (String, Option<Vec<u8>>, bool) {
    let armed = std::rc::Rc::new(std::cell::Cell::new(false));
    let fired = std::rc::Rc::new(std::cell::Cell::new(false));
    let (a2, f2) = (armed.clone(), fired.clone());
    let r = catch(move || {
        let mut stream: Vec<u8> = (0..prefix).map(|i| (i * 29 + 5) as u8).collect();
        stream.extend_from_slice(file);
        let mut cur = Cursor::new(stream);
        cur.set_position(prefix as u64);
        let mut d = match WebPDecoder::new(Unusual { inner: cur, at: fault.map(|f| (prefix + f) as u64), armed: a2.clone(), fired: f2 }) {
            Ok(d) => d,
            Err(e) => return (format!("OPENERR {e:?}"), None),
        };
        a2.set(true);
        let size = d.output_buffer_size().unwrap_or(0);
        let mut buf = vec![fill; size];
        for attempt in 0..2 {
            match d.read_image(&mut buf) {
                Ok(()) => return ("ok".to_string(), Some(buf)),
                Err(e) => {
                    let text = format!("{e:?}");
                    if attempt == 1 || !text.contains("injected") { return (format!("err {text}"), None); }
                }
            }
        }
        ("err".to_string(), None)
    });
    match r { Ok((o, b)) => (o, b, fired.get()), Err(m) => (format!("PANIC {m}"), None, fired.get()) }
}

struct Item {
    payload: Payload,
    w: u32,
    h: u32,
    /// model description of the decoded payload (`lossless <ab> <rgbahex>` / `lossy y u v alph`)
    model: String,
    kind: String,
}

fn make_item(rng: &mut Rng, i: u64) -> Option<Item> {
    let (w, h): (u32, u32) = match i % 5 {
        0 => (1, rng.range(1, 7) as u32),
        1 => (rng.range(1, 9) as u32, 1),
        _ => (rng.range(1, 24) as u32, rng.range(1, 24) as u32),
    };
    let am = rng.below(4) as u32;
    let mut rgba = random_rgba(rng, w, h, am);
    let (mut w, mut h) = (w, h);
    if i % 4 <= 1 && (i / 4) % 3 == 0 {
        // constant images (every prefix code has a single symbol, nothing is read per pixel),
        // including 1x1 and the all-zero / opaque black pixels
        if rng.chance(1, 3) {
            w = 1;
            h = 1;
        }
        let rc = [rng.byte(), rng.byte(), rng.byte(), 255];
        let px = *rng.pick(&[[0u8, 0, 0, 0], [0, 0, 0, 255], [255, 255, 255, 255], rc, [7, 7, 7, 7]]);
        rgba = (0..w * h).flat_map(|_| px).collect();
    }
    match i % 4 {
        0 | 1 => {
            // VP8L: colour type decides the stream's own alpha bit
            let (data, ct, ab) = if i % 4 == 0 { (rgba.clone(), image_webp::ColorType::Rgba8, true) } else { (drop_alpha(&rgba), image_webp::ColorType::Rgb8, false) };
            if (i / 4) % 3 == 1 {
                // a grammar-generated stream (all transforms, colour cache, meta codes, backward
                // references, cache hits on unwritten slots): its pixels come from libwebp
                let (st, _) = crate::vp8lgen::stream(rng, w, h);
                let ab = (st[4] >> 4) & 1 == 1;
                let (_, _, px) = crate::oracle::decode_rgba(&riff(&chunk(b"VP8L", &st)))?;
                return Some(Item { payload: Payload::Lossless(st), w, h, model: format!("lossless {} {}", ab as u8, hex(&px)), kind: format!("VP8L_generated_alphabit{}", ab as u8) });
            }
            let s = hk::enc_frame(&data, w, h, ct, rng.chance(1, 2)).ok()?;
            let mut px = vec![0u8; (w * h * 4) as usize];
            hk::vp8l_decode(Cursor::new(&s[..]), w, h, false, &mut px).ok()?;
            let constant = rgba.chunks_exact(4).all(|p| p == &rgba[..4]);
            Some(Item { payload: Payload::Lossless(s), w, h, model: format!("lossless {} {}", ab as u8, hex(&px)), kind: format!("VP8L_alphabit{}{}", ab as u8, if constant { "_constant" } else { "" }) })
        }
        2 => {
            let p = make_lossy(&drop_alpha(&rgba), w, h, *rng.pick(&[30.0f32, 80.0]));
            let Payload::Lossy(b) = &p else { return None };
            let f = image_webp::vp8::Vp8Decoder::decode_frame(Cursor::new(&b[..])).ok()?;
            Some(Item { model: format!("lossy {} {} {} none", hex(&f.ybuf), hex(&f.ubuf), hex(&f.vbuf)), payload: p, w, h, kind: "VP8".into() })
        }
        _ => {
            let alpha: Vec<u8> = rgba.chunks_exact(4).map(|p| p[3]).collect();
            let Payload::Lossy(b) = make_lossy(&drop_alpha(&rgba), w, h, 70.0) else { return None };
            let filt = rng.below(4) as u8;
            let alph = crate::c05::make_alph(&alpha, w as usize, h as usize, filt, rng.chance(1, 2), 0, 0);
            let (f2, deltas) = hk::read_alph(&alph, w as u16, h as u16).ok()?;
            let f = image_webp::vp8::Vp8Decoder::decode_frame(Cursor::new(&b[..])).ok()?;
            Some(Item { model: format!("lossy {} {} {} {}:{}", hex(&f.ybuf), hex(&f.ubuf), hex(&f.vbuf), f2, hex(&deltas)), payload: Payload::LossyAlpha(alph, b), w, h, kind: "ALPH+VP8".into() })
        }
    }
}

pub fn run(o: &Opts) -> Report {
    let mut rep = Report::new("C11");
    let mut drv = Drv::spawn(&o.drv);
    rep.rule = "payloads (VP8L with alpha bit set/clear incl. constant-colour images down to 1x1 whose codes are all single-symbol, VP8, ALPH+VP8 with every filter; sizes 1xN, Nx1, up to 24x24) x wrappings {simple, extended flag 0/1, single full-canvas non-blended animation frame flag 0/1} x buffer poison {0x00, 0xA5} x buffer lengths {size, 0, size-1, size+1} x read twice; all outputs compared with each other (same payload => same pixels, RGB = RGBA without alpha), with ReadImage.readImage fed with the crate's own payload decoding, and buffers checked untouched on rejection. distinct_nontrivial = distinct (file, fill, length) reads".into();
    let mut rng = Rng::new(o.seed ^ 0xC11);
    let n = if o.thorough() { 1500 } else { 200 };
    for i in 0..n {
        let Ok(Some(it)) = catch(|| make_item(&mut rng, i)) else {
            rep.hit("generator_skipped");
            continue;
        };
        let bg = [rng.byte(), rng.byte(), rng.byte(), rng.byte()];
        let mut wrappings: Vec<(&str, Vec<u8>)> = Vec::new();
        if !matches!(it.payload, Payload::LossyAlpha(..)) {
            wrappings.push(("simple", simple_file(&it.payload)));
        }
        for a in [false, true] {
            wrappings.push((if a { "ext1" } else { "ext0" }, extended_still(&it.payload, it.w, it.h, a)));
            let spec = AnimSpec { cw: it.w, ch: it.h, alpha_flag: a, bg_file_order: bg, loops: 0, frames: vec![FrameSpec { x: 0, y: 0, w: it.w, h: it.h, duration: 10, blend: false, dispose: false, payload: it.payload.clone() }] };
            wrappings.push((if a { "anim1" } else { "anim0" }, anim_file(&spec)));
        }
        let mut rgba_out: Option<(String, Vec<u8>)> = None;
        let mut rgb_out: Option<(String, Vec<u8>)> = None;
        for (wname, file) in &wrappings {
            rep.hit(&format!("{}_{}", it.kind, wname));
            let case_base = format!("readimage {wname} {} {} {}", hex(&bg), it.w, it.h);
            let mut outs: Vec<Vec<u8>> = Vec::new();
            let mut size = 0usize;
            let mut ha = false;
            for fill in [0x00u8, 0xA5] {
                let (outcome, buf, sz, a) = read_with(file, fill, 0);
                size = sz;
                ha = a;
                let case = format!("{case_base} {fill} {sz} {} | file {}", it.model, hex(file));
                rep.case(&case, true);
                let line = case.split(" | ").next().unwrap().to_string();
                let model = drv.ask(&line);
                match buf {
                    Some(b) if outcome == "ok" => {
                        let got = format!("ok {}/{}", fnv_bytes(FNV_INIT, &b), b.len());
                        if got != model {
                            rep.disagree(Disagreement { case: case.clone(), got, expected: model, class: "violation", obligation: "tie2: read_image = ReadImage.readImage on the crate's own payload decoding (C11 theorems: every colour byte written, missing ALPH => opaque, RGB = RGBA without alpha)".into(), detail: format!("{} in {wname}, fill {fill:#x}", it.kind) });
                        }
                        outs.push(b);
                    }
                    _ => {
                        rep.disagree(Disagreement { case, got: outcome, expected: model, class: "violation", obligation: "C11: the same payload decodes in every wrapping and under both settings of the alpha flag; repeating read_image returns the same bytes".into(), detail: format!("{} in {wname}", it.kind) });
                    }
                }
            }
            if outs.len() == 2 && outs[0] != outs[1] {
                let k = outs[0].iter().zip(&outs[1]).position(|(a, b)| a != b).unwrap_or(0);
                rep.disagree(Disagreement { case: format!("{case_base} | file {}", hex(file)), got: format!("byte {k} = {:#x} after fill 0x00", outs[0][k]), expected: format!("{:#x} after fill 0xA5", outs[1][k]), class: "violation", obligation: "C11: on success every byte of the buffer is determined by the file alone".into(), detail: format!("{} in {wname}", it.kind) });
            }
            // wrong lengths
            for delta in [-(size as i64), -1, 1] {
                let (outcome, _, _, _) = read_with(file, 0x3C, delta);
                rep.case(&format!("{case_base} wronglen {delta} | file {}", hex(file)), true);
                if !outcome.starts_with("err") || outcome.contains("buffer-modified") {
                    if delta == -(size as i64) && size == 0 {
                        continue;
                    }
                    rep.disagree(Disagreement { case: format!("{case_base} wronglen {delta} | file {}", hex(file)), got: outcome, expected: "err (buffer untouched)".into(), class: "violation", obligation: "C11.wrong_len_rejected: any other buffer length is rejected and the buffer left untouched".into(), detail: format!("{} in {wname}, size {size}", it.kind) });
                }
            }
            // unusual readers: the file embedded behind foreign bytes (the reader positioned at its
            // first byte), and one transient I/O fault inside the image data with the failed call
            // repeated - the successful read_image must still deliver the file's pixels
            if let Some(b0) = outs.first() {
                let fault_at = 12 + rng.below(file.len().saturating_sub(12).max(1) as u64) as usize;
                for (what, prefix, fault) in [("embedded", 29usize, None), ("fault", 0usize, Some(fault_at)), ("embedded+fault", 5usize, Some(fault_at))] {
                    let (outcome, buf, fired) = read_unusual(file, 0x5A, prefix, fault);
                    rep.case(&format!("{case_base} unusual {what} {prefix} {fault:?} | file {}", hex(file)), true);
                    rep.hit(&format!("unusual_reader_{what}{}", if fault.is_some() && !fired { "_not_reached" } else { "" }));
                    if outcome != "ok" || buf.as_ref() != Some(b0) {
                        rep.disagree(Disagreement { case: format!("{case_base} unusual {what} prefix={prefix} fault={fault:?} | file {}", hex(file)), got: if outcome == "ok" { "ok with different bytes".into() } else { outcome }, expected: "ok with the bytes of the plain read".into(), class: "violation", obligation: "C11: on success every byte of the buffer is determined by the file alone - not by where the file starts in the reader, nor by an earlier call that failed with a transient I/O error".into(), detail: format!("{} in {wname}; {what}", it.kind) });
                    }
                }
            }
            if let Some(b) = outs.into_iter().next() {
                if size != (it.w * it.h) as usize * if ha { 4 } else { 3 } {
                    rep.disagree(Disagreement { case: format!("{case_base} | file {}", hex(file)), got: size.to_string(), expected: ((it.w * it.h) as usize * if ha { 4 } else { 3 }).to_string(), class: "violation", obligation: "C11.size_formula".into(), detail: String::new() });
                }
                let slot = if ha { &mut rgba_out } else { &mut rgb_out };
                match slot {
                    None => *slot = Some((wname.to_string(), b)),
                    Some((w0, b0)) => {
                        if *b0 != b {
                            rep.disagree(Disagreement { case: format!("{case_base} | file {}", hex(file)), got: format!("{wname}: {}", fnv_bytes(FNV_INIT, &b)), expected: format!("{w0}: {}", fnv_bytes(FNV_INIT, b0)), class: "violation", obligation: "C11: the same payload yields the same pixels in every wrapping".into(), detail: it.kind.clone() });
                        }
                    }
                }
            }
        }
        if let (Some((_, a)), Some((_, b))) = (&rgba_out, &rgb_out) {
            if drop_alpha(a) != *b {
                rep.disagree(Disagreement { case: format!("payload {} {}x{}", it.kind, it.w, it.h), got: "rgb != rgba without alpha".into(), expected: "equal".into(), class: "violation", obligation: "C11: the three-channel output equals the four-channel output with alpha dropped".into(), detail: format!("file {}", hex(&wrappings[0].1)) });
            }
        }
        if i < 2 {
            rep.sample(json!({"payload": it.kind, "w": it.w, "h": it.h, "wrappings": wrappings.iter().map(|w| w.0).collect::<Vec<_>>()}));
        }
    }
    // multi-frame animations: the same file with the VP8X alpha flag clear (three-channel frames) and
    // set (four-channel frames) - frames with their own alpha (VP8L with alpha, ALPH+VP8) are still
    // blended over what is below them, so every RGB frame must equal the RGBA frame without alpha
    let na = if o.thorough() { 400 } else { 60 };
    for k in 0..na {
        let (cw, ch) = (2 * rng.range(2, 9) as u32, 2 * rng.range(2, 9) as u32);
        let nf = rng.range(2, 4) as usize;
        let mut frames = Vec::new();
        for j in 0..nf {
            // frame rectangle with even offsets inside the canvas
            let (fw, fh) = if j == 0 { (cw, ch) } else { (rng.range(1, cw as u64) as u32, rng.range(1, ch as u64) as u32) };
            let (x, y) = (2 * rng.below(u64::from((cw - fw) / 2 + 1)) as u32, 2 * rng.below(u64::from((ch - fh) / 2 + 1)) as u32);
            let rgba = random_rgba(&mut rng, fw, fh, if j == 0 { 0 } else { 2 });
            let payload = match (k + j as u64) % 3 {
                0 => match hk::enc_frame(&rgba, fw, fh, image_webp::ColorType::Rgba8, false) { Ok(s) => Payload::Lossless(s), Err(_) => continue },
                1 => {
                    let alpha: Vec<u8> = rgba.chunks_exact(4).map(|p| p[3]).collect();
                    let Payload::Lossy(b) = make_lossy(&drop_alpha(&rgba), fw, fh, 70.0) else { continue };
                    Payload::LossyAlpha(crate::c05::make_alph(&alpha, fw as usize, fh as usize, rng.below(4) as u8, rng.chance(1, 2), 0, 0), b)
                }
                _ => make_lossy(&drop_alpha(&rgba), fw, fh, 70.0),
            };
            frames.push(FrameSpec { x, y, w: fw, h: fh, duration: 10 + j as u32, blend: j == 0 || rng.chance(2, 3), dispose: rng.chance(1, 3), payload });
        }
        if frames.len() < 2 { continue; }
        let bg = [rng.byte(), rng.byte(), rng.byte(), rng.byte()];
        let files: Vec<Vec<u8>> = [false, true].iter().map(|&a| anim_file(&AnimSpec { cw, ch, alpha_flag: a, bg_file_order: bg, loops: 0, frames: frames.clone() })).collect();
        let decode_all = |file: &[u8]| -> Result<Vec<Vec<u8>>, String> {
            match catch(|| {
                let mut d = WebPDecoder::new(Cursor::new(file.to_vec())).map_err(|e| format!("{e:?}"))?;
                let mut out = Vec::new();
                for _ in 0..d.num_frames() {
                    let mut buf = vec![0x5Au8; d.output_buffer_size().ok_or("size")?];
                    d.read_frame(&mut buf).map_err(|e| format!("{e:?}"))?;
                    out.push(buf);
                }
                Ok::<_, String>(out)
            }) { Ok(r) => r, Err(m) => Err(format!("PANIC {m}")) }
        };
        let case = format!("anim rgb-vs-rgba {}", hex(&files[0]));
        rep.case(&case, true);
        rep.hit("animation_rgb_vs_rgba");
        match (decode_all(&files[0]), decode_all(&files[1])) {
            (Ok(rgb), Ok(rgba)) => {
                for (fi, (a, b)) in rgb.iter().zip(&rgba).enumerate() {
                    if *a != drop_alpha(b) {
                        let px = a.chunks_exact(3).zip(drop_alpha(b).chunks_exact(3)).position(|(p, q)| p != q).unwrap_or(0);
                        rep.disagree(Disagreement { case: case.clone(), got: format!("frame {fi}: {}", fnv_bytes(FNV_INIT, a)), expected: format!("{}", fnv_bytes(FNV_INIT, &drop_alpha(b))), class: "violation", obligation: "C11: the three-channel output equals the four-channel output with alpha dropped (animation frames, VP8X alpha flag clear vs set)".into(), detail: format!("frame {fi} pixel ({}, {}); payload kinds of the frames: {:?}", px as u32 % cw, px as u32 / cw, frames.iter().map(|f| match f.payload { Payload::Lossless(_) => "VP8L", Payload::LossyAlpha(..) => "ALPH+VP8", _ => "VP8" }).collect::<Vec<_>>()) });
                        break;
                    }
                }
            }
            (a, b) => {
                if a.is_ok() != b.is_ok() {
                    rep.disagree(Disagreement { case: case.clone(), got: format!("{:?}", a.map(|v| v.len())), expected: format!("{:?}", b.map(|v| v.len())), class: "violation", obligation: "C11: an animation decodes alike with the VP8X alpha flag clear and set".into(), detail: String::new() });
                }
            }
        }
    }
    rep
}
