//! Shared plumbing: PRNG, Lean driver client, result record, hex, FNV.
use serde_json::{json, Value};
use std::collections::{BTreeMap, HashSet};
use std::io::{BufRead, BufReader, Write};
use std::process::{Child, ChildStdin, ChildStdout, Command, Stdio};

/// splitmix64: every random choice of a run derives from one seed.
#[derive(Clone)]
pub struct Rng(pub u64);
impl Rng {
    pub fn new(seed: u64) -> Self {
        Rng(seed ^ 0x9E37_79B9_7F4A_7C15)
    }
    pub fn next(&mut self) -> u64 {
        self.0 = self.0.wrapping_add(0x9E37_79B9_7F4A_7C15);
        let mut z = self.0;
        z = (z ^ (z >> 30)).wrapping_mul(0xBF58_476D_1CE4_E5B9);
        z = (z ^ (z >> 27)).wrapping_mul(0x94D0_49BB_1331_11EB);
        z ^ (z >> 31)
    }
    pub fn below(&mut self, n: u64) -> u64 {
        if n == 0 {
            0
        } else {
            self.next() % n
        }
    }
    pub fn range(&mut self, lo: u64, hi_incl: u64) -> u64 {
        lo + self.below(hi_incl - lo + 1)
    }
    pub fn byte(&mut self) -> u8 {
        self.next() as u8
    }
    pub fn chance(&mut self, num: u64, den: u64) -> bool {
        self.below(den) < num
    }
    pub fn pick<'a, T>(&mut self, xs: &'a [T]) -> &'a T {
        &xs[self.below(xs.len() as u64) as usize]
    }
    pub fn bytes(&mut self, n: usize) -> Vec<u8> {
        (0..n).map(|_| self.byte()).collect()
    }
    pub fn fork(&mut self) -> Rng {
        Rng(self.next())
    }
}

pub fn hex(b: &[u8]) -> String {
    if b.is_empty() {
        return "-".into();
    }
    let mut s = String::with_capacity(b.len() * 2);
    for x in b {
        s.push_str(&format!("{x:02x}"));
    }
    s
}
pub fn unhex(s: &str) -> Vec<u8> {
    if s == "-" {
        return vec![];
    }
    (0..s.len() / 2)
        .map(|i| u8::from_str_radix(&s[2 * i..2 * i + 2], 16).unwrap())
        .collect()
}
pub fn join<T: ToString>(xs: &[T]) -> String {
    if xs.is_empty() {
        return "-".into();
    }
    xs.iter().map(|x| x.to_string()).collect::<Vec<_>>().join(",")
}

pub const FNV_INIT: u64 = 0xcbf29ce484222325;
#[inline]
pub fn fnv_byte(h: u64, b: u8) -> u64 {
    (h ^ u64::from(b)).wrapping_mul(0x100000001b3)
}
pub fn fnv_bytes(mut h: u64, bs: &[u8]) -> u64 {
    for &b in bs {
        h = fnv_byte(h, b);
    }
    h
}

/// Client of the compiled Lean driver (`drv`): one request line → one reply line.
pub struct Drv {
    child: Child,
    stdin: Option<ChildStdin>,
    stdout: BufReader<ChildStdout>,
}
impl Drv {
    pub fn spawn(path: &str) -> Drv {
        let mut child = Command::new(path)
            .stdin(Stdio::piped())
            .stdout(Stdio::piped())
            .spawn()
            .unwrap_or_else(|e| panic!("cannot start Lean driver {path}: {e}"));
        let stdin = child.stdin.take();
        let stdout = BufReader::new(child.stdout.take().unwrap());
        Drv { child, stdin, stdout }
    }
    pub fn ask(&mut self, line: &str) -> String {
        let w = self.stdin.as_mut().unwrap();
        w.write_all(line.as_bytes()).unwrap();
        w.write_all(b"\n").unwrap();
        w.flush().unwrap();
        let mut s = String::new();
        self.stdout.read_line(&mut s).unwrap();
        s.trim_end().to_string()
    }
    /// Send many requests, pipelined (writer thread), collect the replies in order.
    pub fn ask_many(&mut self, lines: &[String]) -> Vec<String> {
        let mut w = self.stdin.take().unwrap();
        let mut out = Vec::with_capacity(lines.len());
        std::thread::scope(|sc| {
            let h = sc.spawn(move || {
                let mut bw = std::io::BufWriter::new(&mut w);
                for l in lines {
                    bw.write_all(l.as_bytes()).unwrap();
                    bw.write_all(b"\n").unwrap();
                }
                bw.flush().unwrap();
                drop(bw);
                w
            });
            for _ in 0..lines.len() {
                let mut s = String::new();
                self.stdout.read_line(&mut s).unwrap();
                out.push(s.trim_end().to_string());
            }
            self.stdin = Some(h.join().unwrap());
        });
        out
    }
}
impl Drop for Drv {
    fn drop(&mut self) {
        drop(self.stdin.take());
        let _ = self.child.wait();
    }
}

/// Ask `lines` of the model using `n` driver processes in parallel; replies in order.
pub fn ask_parallel(path: &str, lines: &[String], n: usize) -> Vec<String> {
    let n = n.max(1).min(lines.len().max(1));
    let chunk = lines.len().div_ceil(n).max(1);
    let mut out: Vec<Vec<String>> = Vec::new();
    std::thread::scope(|sc| {
        let hs: Vec<_> = lines
            .chunks(chunk)
            .map(|c| {
                sc.spawn(move || {
                    let mut d = Drv::spawn(path);
                    d.ask_many(c)
                })
            })
            .collect();
        for h in hs {
            out.push(h.join().unwrap());
        }
    });
    out.into_iter().flatten().collect()
}

#[derive(Clone, Debug)]
pub struct Disagreement {
    /// the request line(s) that reproduce it
    pub case: String,
    pub got: String,
    pub expected: String,
    /// "violation": the case is in the domain of a property theorem, so implementation ≠ model
    /// is implementation ≠ specification.  "correspondence": outside that domain.
    pub class: &'static str,
    /// which theorem / correspondence obligation this case is an instance of
    pub obligation: String,
    pub detail: String,
}

/// What a run covered; serialised to the JSON the orchestrator turns into evidence.
pub struct Report {
    pub property: String,
    pub evaluations: u64,
    pub distinct: HashSet<u64>,
    pub distinct_extra: u64,
    pub rule: String,
    pub samples: Vec<Value>,
    pub histogram: BTreeMap<String, u64>,
    pub exhaustive: bool,
    pub exhaustive_note: String,
    pub disagreements: Vec<Disagreement>,
    pub n_disagreements: u64,
    pub notes: Vec<String>,
    pub oracle_checks: u64,
    /// known-finding id -> (number of cases explained exactly by it, one example case, what failed)
    pub known_hits: BTreeMap<String, (u64, String, String)>,
}
impl Report {
    pub fn new(property: &str) -> Self {
        Report {
            property: property.into(),
            evaluations: 0,
            distinct: HashSet::new(),
            distinct_extra: 0,
            rule: String::new(),
            samples: vec![],
            histogram: BTreeMap::new(),
            exhaustive: false,
            exhaustive_note: String::new(),
            disagreements: vec![],
            n_disagreements: 0,
            notes: vec![],
            oracle_checks: 0,
            known_hits: BTreeMap::new(),
        }
    }
    pub fn hit(&mut self, key: &str) {
        *self.histogram.entry(key.to_string()).or_insert(0) += 1;
    }
    pub fn hit_n(&mut self, key: &str, n: u64) {
        *self.histogram.entry(key.to_string()).or_insert(0) += n;
    }
    /// count one evaluated case; `nontrivial` cases are deduplicated by the hash of their canonical text
    pub fn case(&mut self, canonical: &str, nontrivial: bool) {
        self.evaluations += 1;
        if nontrivial {
            self.distinct.insert(fnv_bytes(FNV_INIT, canonical.as_bytes()));
        }
    }
    pub fn sample(&mut self, v: Value) {
        if self.samples.len() < 8 {
            self.samples.push(v);
        }
    }
    pub fn disagree(&mut self, d: Disagreement) {
        self.n_disagreements += 1;
        // keep the first 20, and beyond that the first 3 of every obligation not yet represented,
        // so that a flood from one oracle does not hide what the other oracles say
        let same = self.disagreements.iter().filter(|x| x.obligation == d.obligation).count();
        if self.disagreements.len() < 20 || (same < 3 && self.disagreements.len() < 60) {
            self.disagreements.push(d);
        }
    }
    /// a failing case that is explained exactly by the modelled deviation of a listed finding
    pub fn known(&mut self, id: &str, case: &str, what: &str) {
        let e = self
            .known_hits
            .entry(id.to_string())
            .or_insert((0, case.to_string(), what.to_string()));
        e.0 += 1;
    }
    pub fn to_json(&self) -> Value {
        json!({
            "property": self.property,
            "evaluations": self.evaluations,
            "distinct_nontrivial": self.distinct.len() as u64 + self.distinct_extra,
            "rule": self.rule,
            "samples": self.samples,
            "histogram": self.histogram,
            "exhaustive": self.exhaustive,
            "exhaustive_note": self.exhaustive_note,
            "oracle_checks": self.oracle_checks,
            "n_disagreements": self.n_disagreements,
            "notes": self.notes,
            "known_hits": self.known_hits.iter().map(|(k, v)| json!({"id": k, "count": v.0, "case": v.1, "what": v.2})).collect::<Vec<_>>(),
            "disagreements": self.disagreements.iter().map(|d| json!({
                "case": d.case, "got": d.got, "expected": d.expected, "class": d.class,
                "obligation": d.obligation, "detail": d.detail})).collect::<Vec<_>>(),
        })
    }
}

pub struct Opts {
    pub tier: String,
    pub seed: u64,
    pub drv: String,
    pub out: String,
    pub replay: Option<String>,
    pub jobs: usize,
}
impl Opts {
    pub fn thorough(&self) -> bool {
        self.tier == "thorough"
    }
}

/// Run `f` catching panics; returns Err(message) on panic.
pub fn catch<T>(f: impl FnOnce() -> T) -> Result<T, String> {
    match std::panic::catch_unwind(std::panic::AssertUnwindSafe(f)) {
        Ok(v) => Ok(v),
        Err(e) => {
            let msg = if let Some(s) = e.downcast_ref::<&str>() {
                s.to_string()
            } else if let Some(s) = e.downcast_ref::<String>() {
                s.clone()
            } else {
                "panic".to_string()
            };
            Err(msg)
        }
    }
}
