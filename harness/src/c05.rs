//! C05: alpha plane reconstruction and RGB(A) conversion of lossy stills.
//!  (a) `get_alpha_predictor` through its hook, driving the same sequential loop as decoder.rs,
//!      against `Alpha.unfilterInto` and the container-spec reconstruction `AlphaSpec`;
//!  (b) `read_alpha_chunk` through its hook on raw and VP8L-compressed ALPH bodies, all info bytes;
//!  (c) whole files (VP8X + ALPH + VP8): alpha plane = the plane the ALPH body was built from and
//!      = libwebp's; colour bytes = libwebp's point-sampling conversion of the crate's own planes.
use crate::common::*;
use crate::oracle;
use crate::webpfile::*;
use image_webp::verif_hooks as hk;
use image_webp::WebPDecoder;
use serde_json::json;
use std::io::Cursor;

/// forward filter per the container specification (inverse of the reconstruction): deltas
fn forward_filter(alpha: &[u8], w: usize, h: usize, f: u8) -> Vec<u8> {
    let mut d = vec![0u8; w * h];
    for y in 0..h {
        for x in 0..w {
            let i = y * w + x;
            let a = |xx: usize, yy: usize| i32::from(alpha[yy * w + xx]);
            let pred: i32 = if x == 0 && y == 0 {
                0
            } else {
                match f {
                    0 => 0,
                    1 => if x == 0 { a(0, y - 1) } else { a(x - 1, y) },
                    2 => if y == 0 { a(x - 1, 0) } else { a(x, y - 1) },
                    _ => if x == 0 { a(0, y - 1) } else if y == 0 { a(x - 1, 0) } else { (a(x - 1, y) + a(x, y - 1) - a(x - 1, y - 1)).clamp(0, 255) },
                }
            };
            d[i] = alpha[i].wrapping_sub(pred as u8);
        }
    }
    d
}

/// ALPH chunk body for a target alpha plane: filter f, raw or VP8L-compressed (headerless stream)
pub fn make_alph(alpha: &[u8], w: usize, h: usize, f: u8, compressed: bool, pre: u8, top: u8) -> Vec<u8> {
    let d = forward_filter(alpha, w, h, f);
    let mut body = vec![(top << 6) | (pre << 4) | (f << 2) | compressed as u8];
    if compressed {
        // green channel carries the value; the crate's encoder writes a 5-byte (40-bit) header first
        let s = hk::enc_frame(&d, w as u32, h as u32, image_webp::ColorType::L8, w % 2 == 0).expect("encode");
        body.extend_from_slice(&s[5..]);
    } else {
        body.extend_from_slice(&d);
    }
    body
}

fn unfilter_via_hook(w: usize, h: usize, f: u8, d: &[u8]) -> Result<Vec<u8>, String> {
    catch(|| {
        let mut buf: Vec<u8> = (0..4 * w * h).map(|i| (i * 37 + 11) as u8).collect();
        for y in 0..h {
            for x in 0..w {
                let p = hk::alpha_predictor(x, y, w, f, &buf);
                buf[(y * w + x) * 4 + 3] = p.wrapping_add(d[y * w + x]);
            }
        }
        buf.chunks_exact(4).map(|p| p[3]).collect()
    })
}

fn plane_case(drv: &mut Drv, rep: &mut Report, w: usize, h: usize, f: u8, d: &[u8]) {
    let line = format!("alphaunfilter {w} {h} {f} {}", hex(d));
    let got = match unfilter_via_hook(w, h, f, d) {
        Ok(a) => hex(&a),
        Err(m) => format!("PANIC {m}"),
    };
    let reply = drv.ask(&line);
    let (m, s) = reply.strip_prefix("M=").and_then(|r| r.split_once(" S=")).unwrap_or(("?", "?"));
    rep.case(&line, w * h > 1 && f != 0);
    rep.hit(&format!("unfilter_filter{f}{}", if w == 1 || h == 1 { "_1px_row_or_col" } else { "" }));
    if got != s {
        rep.disagree(Disagreement { case: line, got, expected: s.into(), class: "violation", obligation: "C05: alpha = the container specification's reconstruction (AlphaSpec.reconstruct; C05.alpha_plane_eq)".into(), detail: format!("model says {m}") });
    } else if got != m {
        rep.disagree(Disagreement { case: line, got, expected: m.into(), class: "correspondence", obligation: "tie2: get_alpha_predictor loop = Alpha.unfilterInto".into(), detail: String::new() });
    }
}

fn file_case(rep: &mut Report, w: u32, h: u32, rgb: &[u8], alpha: &[u8], f: u8, compressed: bool, quality: f32, kind: &str) {
    let Payload::Lossy(vp8) = make_lossy(rgb, w, h, quality) else { return };
    let alph = make_alph(alpha, w as usize, h as usize, f, compressed, 0, 0);
    let file = extended_still(&Payload::LossyAlpha(alph, vp8.clone()), w, h, true);
    let case = format!("lossyalpha {}", hex(&file));
    rep.case(&case, true);
    rep.hit(&format!("file_{kind}_filter{f}_{}", if compressed { "lossless" } else { "raw" }));
    let res = catch(|| {
        let mut d = WebPDecoder::new(Cursor::new(file.clone())).map_err(|e| format!("{e:?}"))?;
        let mut buf = vec![0x5Au8; (w * h * 4) as usize];
        d.read_image(&mut buf).map_err(|e| format!("{e:?}"))?;
        Ok::<_, String>(buf)
    });
    let buf = match res {
        Ok(Ok(b)) => b,
        Ok(Err(e)) | Err(e) => {
            rep.disagree(Disagreement { case, got: e, expected: "decoded".into(), class: "violation", obligation: "C05: a valid lossy+ALPH still decodes".into(), detail: kind.into() });
            return;
        }
    };
    let got_alpha: Vec<u8> = buf.chunks_exact(4).map(|p| p[3]).collect();
    if got_alpha != alpha {
        let i = got_alpha.iter().zip(alpha).position(|(a, b)| a != b).unwrap_or(0);
        rep.disagree(Disagreement { case, got: hex(&got_alpha), expected: hex(alpha), class: "violation", obligation: "C05: alpha channel equals the specified reconstruction exactly".into(), detail: format!("{kind} filter {f} compressed {compressed}: first difference at pixel ({}, {})", i % w as usize, i / w as usize) });
        return;
    }
    // colour: libwebp's point-sampling conversion of the crate's own reconstructed planes
    if let Ok(frame) = image_webp::vp8::Vp8Decoder::decode_frame(Cursor::new(&vp8[..])) {
        let cw = (w as usize).div_ceil(2);
        let mut exp = vec![0u8; (w * h * 3) as usize];
        for y in 0..h as usize {
            let ys = &frame.ybuf[y * w as usize..(y + 1) * w as usize];
            let us = &frame.ubuf[cw * (y / 2)..cw * (y / 2) + cw];
            let vs = &frame.vbuf[cw * (y / 2)..cw * (y / 2) + cw];
            oracle::sampler_row(oracle::MODE_RGB, ys, us, vs, &mut exp[y * w as usize * 3..(y + 1) * w as usize * 3]);
        }
        let got_rgb = drop_alpha(&buf);
        rep.oracle_checks += 1;
        if got_rgb != exp {
            let i = got_rgb.iter().zip(&exp).position(|(a, b)| a != b).unwrap_or(0);
            rep.disagree(Disagreement { case: case.clone(), got: format!("byte {i}: {}", got_rgb[i]), expected: format!("{}", exp[i]), class: "violation", obligation: "C05: each pixel's colour is libwebp's BT.601 conversion of luma (x,y) and chroma (x/2,y/2) of the reconstructed planes".into(), detail: format!("pixel ({}, {}) channel {}", (i / 3) % w as usize, (i / 3) / w as usize, i % 3) });
            return;
        }
    }
    // whole-file oracle: libwebp without fancy upsampling (alpha must agree; colour differences
    // here are C02's subject and only counted)
    if let Some((_, _, lib)) = oracle::decode_rgba_nofancy(&file) {
        let la: Vec<u8> = lib.chunks_exact(4).map(|p| p[3]).collect();
        if la != got_alpha {
            rep.disagree(Disagreement { case, got: hex(&got_alpha), expected: hex(&la), class: "violation", obligation: "C05: alpha channel equals libwebp's".into(), detail: kind.into() });
        } else if drop_alpha(&lib) != drop_alpha(&buf) {
            rep.hit("file_rgb_differs_from_libwebp(C02)");
        } else {
            rep.hit("file_bit_exact_with_libwebp");
        }
    }
}

pub fn run(o: &Opts) -> Report {
    let mut rep = Report::new("C05");
    let mut drv = Drv::spawn(&o.drv);
    if let Some(case) = &o.replay {
        let p: Vec<&str> = case.split_whitespace().collect();
        if p[0] == "alphaunfilter" {
            plane_case(&mut drv, &mut rep, p[1].parse().unwrap(), p[2].parse().unwrap(), p[3].parse().unwrap(), &unhex(p[4]));
        } else {
            rep.notes.push("file-level replay: decode the file in the record with the crate and libwebp".into());
        }
        return rep;
    }
    rep.rule = "(a) delta planes 1..17 x 1..9 (all parities, 1-pixel rows/columns) x 4 filters, random/extreme deltas, through get_alpha_predictor + the decoder's sequential loop vs Alpha.unfilterInto and AlphaSpec.reconstruct; (b) all 256 ALPH info bytes and raw / VP8L-compressed bodies through read_alpha_chunk; (c) VP8X+ALPH+VP8 files for every filter x {raw, lossless} x sizes incl. odd and 1xN/Nx1 x alpha planes (binary, gradients, quantised levels, noise): alpha vs the plane the body encodes and vs libwebp, colour vs libwebp's sampler applied to the crate's own planes; plus libwebp-encoded lossy+alpha files. distinct_nontrivial = distinct cases with more than one pixel and a real filter".into();
    let mut rng = Rng::new(o.seed ^ 0xC05);
    // (a)
    let na = if o.thorough() { 30000 } else { 4000 };
    for i in 0..na {
        let (w, h) = match i % 7 {
            0 => (1, rng.range(1, 12) as usize),
            1 => (rng.range(1, 20) as usize, 1),
            _ => (rng.range(1, 17) as usize, rng.range(1, 9) as usize),
        };
        let f = (i % 4) as u8;
        let d: Vec<u8> = match rng.below(4) {
            0 => rng.bytes(w * h),
            1 => (0..w * h).map(|_| *rng.pick(&[0u8, 1, 255, 128, 127])).collect(),
            2 => vec![rng.byte(); w * h],
            _ => (0..w * h).map(|k| (k * 17) as u8).collect(),
        };
        if i < 2 {
            rep.sample(json!({"alphaunfilter": {"w": w, "h": h, "filter": f, "deltas": hex(&d)}}));
        }
        plane_case(&mut drv, &mut rep, w, h, f, &d);
    }
    // (b) info bytes and bodies
    for b in 0..=255u8 {
        let exp = drv.ask(&format!("alphheader {b}"));
        let mut body = vec![b];
        body.extend_from_slice(&[7, 8, 9, 10, 11, 12]);
        let got = match catch(|| hk::read_alph(&body, 3, 2)) {
            Ok(Ok((f, data))) => format!("ok {f} {}", if b & 3 == 1 { 1 } else { 0 }) + if b & 3 == 0 && data != [7, 8, 9, 10, 11, 12] { " baddata" } else { "" },
            Ok(Err(e)) => {
                let s = format!("{e:?}");
                if s.starts_with("InvalidAlphaPreprocessing") || s.starts_with("InvalidCompressionMethod") { format!("err {}", s) } else { format!("decode-err {s}") }
            }
            Err(m) => format!("PANIC {m}"),
        };
        rep.case(&format!("alphheader {b}"), true);
        rep.hit("alph_info_bytes");
        // for compression = 1 the dummy body is not a VP8L stream: only the header decision counts
        let comparable = !(exp.starts_with("ok") && b & 3 == 1);
        if comparable && got != exp {
            rep.disagree(Disagreement { case: format!("alphheader {b}"), got, expected: exp, class: "violation", obligation: "C05.alph_header: info byte fields".into(), detail: String::new() });
        }
    }
    let nb = if o.thorough() { 2000 } else { 300 };
    for _ in 0..nb {
        let (w, h) = (rng.range(1, 20) as usize, rng.range(1, 12) as usize);
        let alpha = rng.bytes(w * h);
        let f = rng.below(4) as u8;
        let comp = rng.chance(1, 2);
        let body = make_alph(&alpha, w, h, f, comp, rng.below(2) as u8, rng.below(4) as u8);
        let exp_d = forward_filter(&alpha, w, h, f);
        let case = format!("readalph {w} {h} {}", hex(&body));
        rep.case(&case, true);
        rep.hit(if comp { "read_alph_lossless" } else { "read_alph_raw" });
        match catch(|| hk::read_alph(&body, w as u16, h as u16)) {
            Ok(Ok((ff, data))) if ff == f && data == exp_d => {}
            other => rep.disagree(Disagreement { case, got: format!("{:?}", other.map(|r| r.map(|(f, d)| (f, hex(&d))).map_err(|e| format!("{e:?}")))), expected: format!("({f}, {})", hex(&exp_d)), class: "violation", obligation: "C05: read_alpha_chunk returns the filter and the delta plane (raw bytes, or green channel of the VP8L stream with implicit dimensions)".into(), detail: String::new() }),
        }
    }
    // (b') grammar-generated VP8L streams as ALPH bodies: any transforms in any order, colour cache,
    // meta prefix codes, arbitrary red/blue/alpha samples - everything the lossless format allows,
    // not only what an alpha encoder writes.  Expected delta plane = green channel of the image
    // libwebp decodes from the same stream with its 5-byte header in front.
    let ng = if o.thorough() { 1500 } else { 250 };
    for _ in 0..ng {
        let (w, h) = (rng.range(1, 24) as u32, rng.range(1, 14) as u32);
        let (s, _feat) = crate::vp8lgen::stream(&mut rng, w, h);
        let Some((_, _, rgba)) = oracle::decode_rgba(&riff(&chunk(b"VP8L", &s))) else { rep.hit("alph_generated_rejected_by_libwebp"); continue };
        let green: Vec<u8> = rgba.chunks_exact(4).map(|p| p[1]).collect();
        let f = rng.below(4) as u8;
        let mut body = vec![(f << 2) | 1];
        body.extend_from_slice(&s[5..]);
        let case = format!("readalph {w} {h} {}", hex(&body));
        rep.case(&case, true);
        rep.hit("read_alph_generated_vp8l");
        match catch(|| hk::read_alph(&body, w as u16, h as u16)) {
            Ok(Ok((ff, data))) if ff == f && data == green => {}
            other => rep.disagree(Disagreement { case, got: format!("{:?}", other.map(|r| r.map(|(f, d)| (f, hex(&d))).map_err(|e| format!("{e:?}")))), expected: format!("({f}, {})", hex(&green)), class: "violation", obligation: "C05: a losslessly compressed alpha plane is the green channel of the VP8L image the stream defines (every transform applied), as libwebp decodes it".into(), detail: "grammar-generated VP8L stream as ALPH body".into() }),
        }
    }
    // (c) files
    let nc = if o.thorough() { 600 } else { 96 };
    for i in 0..nc {
        let (w, h) = match i % 6 {
            0 => (1u32, rng.range(1, 9) as u32),
            1 => (rng.range(1, 9) as u32, 1u32),
            2 => (17, 17),
            _ => (rng.range(2, 40) as u32, rng.range(2, 40) as u32),
        };
        let rgba = random_rgba(&mut rng, w, h, 3);
        let rgb = drop_alpha(&rgba);
        let alpha: Vec<u8> = match rng.below(4) {
            0 => rgba.chunks_exact(4).map(|p| p[3]).collect(),
            1 => (0..w * h).map(|k| if (k / w + k % w) % 3 == 0 { 0 } else { 255 }).collect(),
            2 => (0..w * h).map(|k| ((k % w) * 255 / w.max(1)) as u8 & 0xf0).collect(),
            _ => (0..w * h).map(|k| ((k / w) * 255 / h.max(1)) as u8).collect(),
        };
        let f = (i % 4) as u8;
        let comp = (i / 4) % 2 == 1;
        if i < 1 {
            rep.sample(json!({"file": {"w": w, "h": h, "filter": f, "compressed": comp}}));
        }
        file_case(&mut rep, w, h, &rgb, &alpha, f, comp, *rng.pick(&[30.0f32, 75.0, 95.0]), "handbuilt");
    }
    // libwebp-encoded lossy+alpha (its own choice of filter, quantised levels)
    let nd = if o.thorough() { 200 } else { 40 };
    for i in 0..nd {
        let (w, h) = (rng.range(1, 33) as u32, rng.range(1, 33) as u32);
        let rgba = random_rgba(&mut rng, w, h, 2 + (i % 2) as u32);
        let Some(p) = make_lossy_alpha(&rgba, w, h, 60.0, *rng.pick(&[100, 50, 0]), (i % 3) as i32, ((i / 3) % 2) as i32) else { continue };
        let file = extended_still(&p, w, h, true);
        let case = format!("lossyalpha {}", hex(&file));
        rep.case(&case, true);
        rep.hit("file_libwebp_encoded");
        let mine = catch(|| {
            let mut d = WebPDecoder::new(Cursor::new(file.clone())).ok()?;
            let mut buf = vec![0u8; (w * h * 4) as usize];
            d.read_image(&mut buf).ok()?;
            Some(buf)
        });
        let lib = oracle::decode_rgba_nofancy(&file);
        match (mine, lib) {
            (Ok(Some(m)), Some((_, _, l))) => {
                let ma: Vec<u8> = m.chunks_exact(4).map(|p| p[3]).collect();
                let la: Vec<u8> = l.chunks_exact(4).map(|p| p[3]).collect();
                rep.oracle_checks += 1;
                if ma != la {
                    rep.disagree(Disagreement { case, got: hex(&ma), expected: hex(&la), class: "violation", obligation: "C05: alpha channel equals libwebp's on a libwebp-encoded lossy+alpha file".into(), detail: String::new() });
                }
            }
            (m, l) => rep.disagree(Disagreement { case, got: format!("crate decoded: {:?}", m.map(|x| x.is_some())), expected: format!("libwebp decoded: {}", l.is_some()), class: "violation", obligation: "C05: a valid lossy+ALPH still decodes".into(), detail: String::new() }),
        }
    }
    rep
}
