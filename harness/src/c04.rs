//! C04: lossless encoder round trip.  `encode_frame` through its hook against the Lean model
//! `Enc.encodeFrame` byte for byte (tie 2); the model's output through the specification decoder
//! (in Lean); the real output through this crate's decoder and through libwebp; dimension
//! rejection; the full `WebPEncoder::encode` with metadata through both decoders.
use crate::c09::{color_of, encode_real};
use crate::common::*;
use crate::oracle;
use image_webp::verif_hooks as hk;
use image_webp::WebPDecoder;
use serde_json::json;
use std::io::Cursor;

fn expand(ci: u64, data: &[u8]) -> Vec<u8> {
    match ci % 4 {
        0 => data.iter().flat_map(|&p| [p, p, p, 255]).collect(),
        1 => data.chunks_exact(2).flat_map(|p| [p[0], p[0], p[0], p[1]]).collect(),
        2 => data.chunks_exact(3).flat_map(|p| [p[0], p[1], p[2], 255]).collect(),
        _ => data.to_vec(),
    }
}

/// content families (in units of pixels, `bpp` bytes each)
fn content(rng: &mut Rng, family: u64, n: usize, bpp: usize) -> Vec<u8> {
    let px = |rng: &mut Rng| -> Vec<u8> { (0..bpp).map(|_| rng.byte()).collect() };
    match family % 9 {
        0 => (0..n).flat_map(|_| px(rng)).collect(),
        1 => { let p = px(rng); (0..n).flat_map(|_| p.clone()).collect() }
        2 => {
            // long runs incl. exactly 4096 / 4097 / 8193 when the image is large enough
            let mut v = Vec::new();
            let mut left = n;
            while left > 0 {
                let run = (*rng.pick(&[1usize, 2, 3, 4, 5, 6, 17, 4095, 4096, 4097, 8193])).min(left);
                let p = px(rng);
                for _ in 0..run { v.extend_from_slice(&p); }
                left -= run;
            }
            v
        }
        3 => { let a = px(rng); let b = px(rng); (0..n).flat_map(|i| if (i / 3) % 2 == 0 { a.clone() } else { b.clone() }).collect() }
        4 => (0..n).flat_map(|i| (0..bpp).map(move |c| (i * (c + 1)) as u8)).collect(),
        5 => {
            // Fibonacci-skewed histogram: forces the 15-bit limit on the pixel alphabets
            let mut pool = Vec::new();
            let (mut a, mut b) = (1usize, 1usize);
            let mut sym = 0u8;
            while pool.len() < n && sym < 40 {
                for _ in 0..a.min(n - pool.len()) { pool.push(sym); }
                let c = a + b; a = b; b = c; sym += 1;
            }
            while pool.len() < n { pool.push(0); }
            for i in (1..pool.len()).rev() { pool.swap(i, rng.below(i as u64 + 1) as usize); }
            pool.iter().flat_map(|&s| (0..bpp).map(move |c| s.wrapping_mul(c as u8 * 2 + 1))).collect()
        }
        6 => { let vals = [rng.byte(), rng.byte(), rng.byte()]; (0..n * bpp).map(|_| *rng.pick(&vals)).collect() }
        7 => (0..n * bpp).map(|_| *rng.pick(&[0u8, 255, 1, 254])).collect(),
        _ => (0..n).flat_map(|i| (0..bpp).map(move |c| if c == 1 || bpp < 3 { 7 } else { (i % 5) as u8 })).collect(),
    }
}

fn one(drv: &mut Drv, rep: &mut Report, ci: u64, pred: bool, w: u32, h: u32, data: &[u8], family: &str) {
    let (color, _bpp, _alpha, cname) = color_of(ci);
    let line = format!("encframe {} {} {w} {h} {}", ci % 4, pred as u8, hex(data));
    rep.case(&line, w * h > 1);
    rep.hit(&format!("color_{cname}_pred{}", pred as u8));
    rep.hit(&format!("family_{family}"));
    let got = match catch(|| hk::enc_frame(data, w, h, color, pred)) {
        Ok(Ok(b)) => b,
        Ok(Err(e)) => { rep.disagree(Disagreement { case: line, got: format!("{e:?}"), expected: "Ok".into(), class: "violation", obligation: "C04: encode succeeds for every image of legal dimensions".into(), detail: family.into() }); return; }
        Err(m) => { rep.disagree(Disagreement { case: line, got: format!("PANIC {m}"), expected: "Ok".into(), class: "violation", obligation: "C04: encode never panics".into(), detail: family.into() }); return; }
    };
    let expect_px = expand(ci, data);
    // the property itself: both decoders give back the input
    let mut buf = vec![0x77u8; (w * h * 4) as usize];
    let mine = catch(|| hk::vp8l_decode(Cursor::new(&got[..]), w, h, false, &mut buf).map_err(|e| format!("{e:?}")));
    if !matches!(mine, Ok(Ok(()))) || buf != expect_px {
        rep.disagree(Disagreement { case: line.clone(), got: format!("{mine:?} pixels_equal={}", buf == expect_px), expected: "the input pixels".into(), class: "violation", obligation: "C04: the produced stream decodes with this crate's decoder to exactly the input pixels".into(), detail: family.into() });
        return;
    }
    let file = crate::webpfile::riff(&crate::webpfile::chunk(b"VP8L", &got));
    rep.oracle_checks += 1;
    match oracle::decode_rgba(&file) {
        Some((lw, lh, l)) if lw == w && lh == h && l == expect_px => {}
        other => { rep.disagree(Disagreement { case: line.clone(), got: format!("libwebp: {:?}", other.map(|(a, b, c)| (a, b, c == expect_px))), expected: "the input pixels".into(), class: "violation", obligation: "C04: the produced stream decodes with libwebp to exactly the input pixels".into(), detail: family.into() }); return; }
    }
    // tie 2 (only for images the Lean side handles quickly)
    if w * h <= 1600 || family == "deep_codes_all_channels+model" {
        let reply = drv.ask(&line);
        let model_hex = reply.strip_prefix("ok ").and_then(|r| r.split(" S=").next()).unwrap_or("");
        if model_hex != hex(&got) {
            rep.disagree(Disagreement { case: line.clone(), got: hex(&got), expected: model_hex.to_string(), class: "correspondence", obligation: "tie2: encode_frame = Enc.encodeFrame byte for byte".into(), detail: format!("{family}; both decoders return the input, so the property holds on this image") });
        } else if !reply.ends_with("S=roundtrip-ok") {
            rep.disagree(Disagreement { case: line, got: reply.rsplit("S=").next().unwrap_or("").to_string(), expected: "roundtrip-ok".into(), class: "correspondence", obligation: "specification decoder applied to the model's output returns the input (validation of Spec/Lossless.lean on encoder-shaped streams)".into(), detail: family.into() });
        }
    }
}

pub fn run(o: &Opts) -> Report {
    let mut rep = Report::new("C04");
    let mut drv = Drv::spawn(&o.drv);
    if let Some(case) = &o.replay {
        let p: Vec<&str> = case.split_whitespace().collect();
        one(&mut drv, &mut rep, p[1].parse().unwrap(), p[2] == "1", p[3].parse().unwrap(), p[4].parse().unwrap(), &unhex(p[5]), "replay");
        return rep;
    }
    rep.rule = "images: 4 colour types x predictor on/off x sizes {1x1, 1xN, Nx1, 2..40 square-ish, 16384x1, 1x16384, 9000x2 (runs beyond 4096)} x content families (uniform noise, constant, runs of exactly 1..6/17/4095/4096/4097/8193, two colours, gradients, Fibonacci-skewed histograms forcing the 15-bit limit, 20/21 pixel kinds in Fibonacci counts with identical depth in all four channels and no adjacent equal pixels (packed writes of 57..60 bits), three values, extremes, single code length); encode_frame output decoded by this crate's decoder and by libwebp (must equal the input) and compared byte for byte with Enc.encodeFrame, whose output the Lean specification decoder must also turn back into the input; dimensions 0 and 16385 must give InvalidDimensions; WebPEncoder::encode with metadata read back through the public decoder. distinct_nontrivial = distinct images with more than one pixel".into();
    let mut rng = Rng::new(o.seed ^ 0xC04);
    let n = if o.thorough() { 3000 } else { 420 };
    for i in 0..n {
        let ci = i % 4;
        let (_, bpp, _, _) = color_of(ci);
        let (w, h) = match (i / 8) % 9 {
            0 => (1u32, 1u32),
            1 => (1, rng.range(2, 60) as u32),
            2 => (rng.range(2, 60) as u32, 1),
            3 if i % 40 == 24 => (16384, 1),
            4 if i % 40 == 32 => (1, 16384),
            5 if i % 16 == 8 => (9000, 2),
            _ => (rng.range(2, 40) as u32, rng.range(2, 40) as u32),
        };
        let fam = (i / 4) % 9;
        let data = content(&mut rng, fam, (w * h) as usize, bpp);
        let fname = ["noise", "constant", "runs", "two_colours", "gradient", "fibonacci", "three_values", "extremes", "single_length"][fam as usize];
        if i < 2 {
            rep.sample(json!({"color": color_of(ci).3, "w": w, "h": h, "family": fname}));
        }
        one(&mut drv, &mut rep, ci, (i / 4) % 2 == 0, w, h, &data, fname);
    }
    // deep codes in all channels at once: Fibonacci pixel-kind counts (20 / 21 kinds => 15-bit
    // codes), arranged with a stride so that equal pixels are never adjacent (no run tokens, the
    // histograms are exactly Fibonacci); every channel of a pixel carries a symbol of the same
    // depth, so the packed multi-code writes reach 57..60 bits at every bit alignment
    for (k, &(kinds, w, h)) in [(20usize, 154u32, 115u32), (21, 199, 144), (20, 115, 154), (19, 149, 73)].iter().enumerate() {
        for variant in 0..(if o.thorough() { 8u64 } else { 3 }) {
            let mut counts = vec![1usize, 1];
            while counts.len() < kinds { let m = counts.len(); counts.push(counts[m - 1] + counts[m - 2]); }
            let total: usize = counts.iter().sum();
            let n = (w * h) as usize;
            let mut sorted: Vec<u8> = Vec::new();
            for (kind, &c) in counts.iter().enumerate() { sorted.extend(std::iter::repeat(kind as u8).take(c)); }
            while sorted.len() < n { sorted.push(0); }
            sorted.truncate(n);
            let _ = total;
            let biggest = *counts.last().unwrap();
            let gcd = |mut a: usize, mut b: usize| { while b != 0 { let t = a % b; a = b; b = t; } a };
            let mut stride = biggest + 1 + rng.below((n - 2 * biggest - 2).max(1) as u64) as usize;
            while gcd(stride, n) != 1 { stride += 1; }
            let order: Vec<u8> = (0..n).map(|p| sorted[p * stride % n]).collect();
            for ci in [3u64, 2, 1, 0] {
                if ci != 3 && variant > 0 { continue; }
                let (_, bpp, _, _) = color_of(ci);
                let data: Vec<u8> = order.iter().enumerate().flat_map(|(i, &kd)| {
                    let a = if variant % 2 == 1 && kd as usize == kinds - 1 && i % 4 == 0 { kd + 1 } else { kd };
                    let v = [2 * kd + variant as u8 / 2, kd, 2 * kd, a];
                    match bpp { 4 => v.to_vec(), 3 => v[..3].to_vec(), 2 => vec![kd, a], _ => vec![kd] }
                }).collect();
                let tie = o.thorough() || (k == 3 && variant == 0 && ci == 3);
                one(&mut drv, &mut rep, ci, (variant + k as u64) % 3 == 2, w, h, &data, if tie { "deep_codes_all_channels+model" } else { "deep_codes_all_channels" });
            }
        }
    }
    // dimension rejection
    for (w, h) in [(0u32, 1u32), (1, 0), (0, 0), (16385, 1), (1, 16385), (20000, 1)] {
        let data = vec![0u8; (w as usize * h as usize) * 4];
        let r = catch(|| hk::enc_frame(&data, w, h, image_webp::ColorType::Rgba8, true));
        let case = format!("encframe 3 1 {w} {h} {}", if data.len() < 64 { hex(&data) } else { "zeros".into() });
        rep.case(&case, true);
        rep.hit("dimension_rejection");
        let ok = matches!(&r, Ok(Err(e)) if format!("{e:?}").starts_with("InvalidDimensions"));
        if !ok {
            rep.disagree(Disagreement { case, got: format!("{:?}", r.map(|x| x.map(|b| b.len()).map_err(|e| format!("{e:?}")))), expected: "Err(InvalidDimensions)".into(), class: "violation", obligation: "C04.reject_dims: dimensions of 0 or above 16384 are rejected with InvalidDimensions".into(), detail: String::new() });
        }
    }
    // full encoder with metadata through the public decoder
    for i in 0..(if o.thorough() { 200 } else { 40u64 }) {
        let ci = i % 4;
        let (color, bpp, alpha, _) = color_of(ci);
        let (w, h) = (rng.range(1, 30) as u32, rng.range(1, 30) as u32);
        let data = content(&mut rng, i, (w * h) as usize, bpp);
        let icc = if i % 2 == 0 { rng.bytes(5) } else { vec![] };
        let exif = if i % 3 == 0 { rng.bytes(3) } else { vec![] };
        let case = format!("fullencode {ci} {w} {h} {}", hex(&data));
        rep.case(&case, true);
        rep.hit("full_encode_with_metadata");
        match encode_real(&data, w, h, color, i % 4 < 2, &icc, &exif, &[]) {
            Ok((file, _)) => {
                let r = catch(|| { let mut d = WebPDecoder::new(Cursor::new(file.clone())).ok()?; let mut b = vec![0u8; d.output_buffer_size()?]; d.read_image(&mut b).ok()?; Some((d.has_alpha(), b)) });
                let exp = expand(ci, &data);
                // the decoder must report alpha exactly when the colour type has it (the alpha
                // channel must survive the round trip with metadata attached)
                let ok = match &r { Ok(Some((ha, b))) => *ha == alpha && if *ha { *b == exp } else { *b == crate::webpfile::drop_alpha(&exp) }, _ => false };
                let lib_ok = oracle::decode_rgba(&file).map(|(_, _, l)| l == exp).unwrap_or(false);
                if !ok || !lib_ok {
                    rep.disagree(Disagreement { case, got: format!("crate ok={ok} libwebp ok={lib_ok}"), expected: "both return the input".into(), class: "violation", obligation: "C04: the produced file decodes with both decoders to the input pixels, with any metadata attached".into(), detail: String::new() });
                }
            }
            Err(e) => rep.disagree(Disagreement { case, got: e, expected: "Ok".into(), class: "violation", obligation: "C04: encode succeeds".into(), detail: String::new() }),
        }
    }
    rep
}
