//! C10: independence of reader chunking, I/O faults surfacing as errors.
//!  (a) tie 2 for the theorem part: `lossless::BitReader` scripts under arbitrary fill_buf
//!      schedules against `BitReader.run`, and against the whole-buffer schedule;
//!  (b) whole decoder over a chunking BufRead+Seek: every schedule must give the baseline result;
//!  (c) single injected fault at every I/O call position: the call in progress returns Err,
//!      never panics, never Ok; calls before it are unaffected;
//!  (d) encoder: sink failing at every write position => Err; sinks accepting 1..n bytes per
//!      write => identical bytes.
use crate::common::*;
use crate::webpfile::*;
use image_webp::verif_hooks as hk;
use image_webp::{WebPDecoder, WebPEncoder};
use serde_json::json;
use std::io::{self, BufRead, Read, Seek, SeekFrom, Write};

/// BufRead + Seek over a byte vector: `fill_buf` at byte position p exposes
/// `min(sched[p % sched.len()], remaining)` bytes; the k-th I/O call (fill_buf/read/seek) fails if
/// `fault_at == Some(k)`.
pub struct Chunked {
    data: Vec<u8>,
    pos: usize,
    sched: Vec<usize>,
    pub calls: usize,
    fault_at: Option<usize>,
    pub fault_hit: bool,
}
impl Chunked {
    pub fn new(data: Vec<u8>, sched: Vec<usize>, fault_at: Option<usize>) -> Self {
        Chunked { data, pos: 0, sched, calls: 0, fault_at, fault_hit: false }
    }
    fn tick(&mut self) -> io::Result<()> {
        let k = self.calls;
        self.calls += 1;
        if self.fault_at == Some(k) {
            self.fault_hit = true;
            return Err(io::Error::new(io::ErrorKind::Other, "injected fault"));
        }
        Ok(())
    }
    fn window(&self) -> usize {
        let rem = self.data.len().saturating_sub(self.pos);
        if self.sched.is_empty() { rem } else { self.sched[self.pos % self.sched.len()].max(1).min(rem) }
    }
}
impl Read for Chunked {
    fn read(&mut self, buf: &mut [u8]) -> io::Result<usize> {
        self.tick()?;
        let n = self.window().min(buf.len());
        let p = self.pos.min(self.data.len());
        buf[..n].copy_from_slice(&self.data[p..p + n]);
        self.pos += n;
        Ok(n)
    }
}
impl BufRead for Chunked {
    fn fill_buf(&mut self) -> io::Result<&[u8]> {
        self.tick()?;
        let n = self.window();
        let p = self.pos.min(self.data.len());
        Ok(&self.data[p..p + n])
    }
    fn consume(&mut self, amt: usize) {
        self.pos += amt;
    }
}
impl Seek for Chunked {
    fn seek(&mut self, s: SeekFrom) -> io::Result<u64> {
        self.tick()?;
        let np: i128 = match s {
            SeekFrom::Start(p) => p as i128,
            SeekFrom::Current(d) => self.pos as i128 + d as i128,
            SeekFrom::End(d) => self.data.len() as i128 + d as i128,
        };
        if np < 0 {
            return Err(io::Error::new(io::ErrorKind::InvalidInput, "negative seek"));
        }
        self.pos = np as usize;
        Ok(self.pos as u64)
    }
}

/// Drive the public API over a reader; returns one line per call: the outcome digests.
/// Stops at the first Err.  `fault_hit` tells whether the injected fault was reached.
fn drive(file: &[u8], sched: &[usize], fault_at: Option<usize>) -> (Vec<String>, usize, bool) {
    let mut outs = Vec::new();
    use std::cell::Cell;
    use std::rc::Rc;
    let calls = Rc::new(Cell::new(0usize));
    let hit = Rc::new(Cell::new(false));
    let r = catch(|| {
        let rdr = Shared { inner: Chunked::new(file.to_vec(), sched.to_vec(), fault_at), calls: calls.clone(), hit: hit.clone() };
        let mut d = match WebPDecoder::new(rdr) {
            Ok(d) => d,
            Err(e) => { outs.push(format!("new:Err({})", short_err(&e))); return; }
        };
        outs.push(format!("new:Ok dims={:?} alpha={} anim={} frames={}", d.dimensions(), d.has_alpha(), d.is_animated(), d.num_frames()));
        for (name, r) in [("icc", d.icc_profile()), ("exif", d.exif_metadata()), ("xmp", d.xmp_metadata())] {
            match r {
                Ok(v) => outs.push(format!("{name}:Ok({:?})", v.map(|b| fnv_bytes(FNV_INIT, &b)))),
                Err(e) => { outs.push(format!("{name}:Err({})", short_err(&e))); return; }
            }
        }
        let Some(n) = d.output_buffer_size() else { return };
        if n > 1 << 24 { return; }
        let mut buf = vec![0u8; n];
        match d.read_image(&mut buf) {
            Ok(()) => outs.push(format!("read_image:Ok({})", fnv_bytes(FNV_INIT, &buf))),
            Err(e) => { outs.push(format!("read_image:Err({})", short_err(&e))); return; }
        }
        if d.is_animated() {
            for _ in 0..d.num_frames() + 1 {
                match d.read_frame(&mut buf) {
                    Ok(dur) => outs.push(format!("read_frame:Ok({dur},{})", fnv_bytes(FNV_INIT, &buf))),
                    Err(image_webp::DecodingError::NoMoreFrames) => { outs.push("read_frame:NoMoreFrames".into()); break; }
                    Err(e) => { outs.push(format!("read_frame:Err({})", short_err(&e))); return; }
                }
            }
        }
    });
    if let Err(m) = r {
        outs.push(format!("PANIC {m}"));
    }
    (outs, calls.get(), hit.get())
}

/// reader that shares its counters with the driver
struct Shared {
    inner: Chunked,
    calls: std::rc::Rc<std::cell::Cell<usize>>,
    hit: std::rc::Rc<std::cell::Cell<bool>>,
}
impl Shared {
    fn sync(&self) {
        self.calls.set(self.inner.calls);
        self.hit.set(self.inner.fault_hit);
    }
}
impl Read for Shared {
    fn read(&mut self, b: &mut [u8]) -> io::Result<usize> {
        let x = self.inner.read(b);
        self.sync();
        x
    }
}
impl BufRead for Shared {
    fn fill_buf(&mut self) -> io::Result<&[u8]> {
        // two-phase to satisfy the borrow checker: tick first, then borrow
        let t = self.inner.tick();
        self.sync();
        t?;
        let n = self.inner.window();
        let p = self.inner.pos.min(self.inner.data.len());
        Ok(&self.inner.data[p..p + n])
    }
    fn consume(&mut self, a: usize) {
        self.inner.consume(a)
    }
}
impl Seek for Shared {
    fn seek(&mut self, s: SeekFrom) -> io::Result<u64> {
        let x = self.inner.seek(s);
        self.sync();
        x
    }
}
fn short_err(e: &image_webp::DecodingError) -> String {
    match e {
        image_webp::DecodingError::IoError(io) => format!("IoError:{:?}", io.kind()),
        o => format!("{o:?}").split(['(', ' ', '{']).next().unwrap_or("").to_string(),
    }
}

/// sink: fails at the k-th write call, or accepts at most `chunk` bytes per write
struct Sink {
    bytes: Vec<u8>,
    calls: usize,
    fail_at: Option<usize>,
    chunk: usize,
    /// a sink of bounded capacity (`&mut [u8]`, `Cursor<&mut [u8]>` semantics): takes what fits and
    /// answers `Ok(0)` once it is full - the other way std sinks report "cannot take more"
    cap: Option<usize>,
    /// answer vectored writes like `Vec` / `&mut [u8]` / sockets do (take from all buffers, possibly
    /// stopping inside one) instead of std's default (first non-empty buffer only)
    gather: bool,
}
impl Write for Sink {
    fn write(&mut self, b: &[u8]) -> io::Result<usize> {
        let k = self.calls;
        self.calls += 1;
        if self.fail_at == Some(k) {
            return Err(io::Error::new(io::ErrorKind::Other, "injected sink fault"));
        }
        let mut n = b.len().min(self.chunk.max(1));
        if let Some(c) = self.cap {
            n = n.min(c - self.bytes.len().min(c));
        }
        self.bytes.extend_from_slice(&b[..n]);
        Ok(n)
    }
    fn write_vectored(&mut self, bufs: &[io::IoSlice<'_>]) -> io::Result<usize> {
        if !self.gather {
            let b = bufs.iter().find(|b| !b.is_empty()).map_or(&[][..], |b| &**b);
            return self.write(b);
        }
        let k = self.calls;
        self.calls += 1;
        if self.fail_at == Some(k) {
            return Err(io::Error::new(io::ErrorKind::Other, "injected sink fault"));
        }
        let mut left = self.chunk.max(1);
        if let Some(c) = self.cap { left = left.min(c - self.bytes.len().min(c)); }
        let mut n = 0;
        for b in bufs {
            let t = b.len().min(left);
            self.bytes.extend_from_slice(&b[..t]);
            left -= t;
            n += t;
            if left == 0 { break; }
        }
        Ok(n)
    }
    fn flush(&mut self) -> io::Result<()> {
        Ok(())
    }
}

fn corpus(rng: &mut Rng) -> Vec<(&'static str, Vec<u8>)> {
    let mut v: Vec<(&'static str, Vec<u8>)> = Vec::new();
    let rgba = random_rgba(rng, 7, 5, 3);
    let ll = make_lossless(&rgba, 7, 5, true);
    v.push(("simple_lossless", simple_file(&ll)));
    let big = random_rgba(rng, 40, 23, 2);
    v.push(("simple_lossless_40x23", simple_file(&make_lossless(&big, 40, 23, false))));
    let lossy = make_lossy(&drop_alpha(&rgba), 7, 5, 60.0);
    v.push(("simple_lossy", simple_file(&lossy)));
    // extended with metadata through the crate's encoder
    let mut out = Vec::new();
    {
        let mut e = WebPEncoder::new(&mut out);
        e.set_icc_profile(rng.bytes(9));
        e.set_exif_metadata(rng.bytes(4));
        e.set_xmp_metadata(rng.bytes(7));
        let _ = e.encode(&rgba, 7, 5, image_webp::ColorType::Rgba8);
    }
    v.push(("extended_metadata", out));
    let alpha: Vec<u8> = rgba.chunks_exact(4).map(|p| p[3]).collect();
    if let Payload::Lossy(b) = make_lossy(&drop_alpha(&rgba), 7, 5, 60.0) {
        for (name, comp) in [("lossy_alpha_raw", false), ("lossy_alpha_lossless", true)] {
            let alph = crate::c05::make_alph(&alpha, 7, 5, 3, comp, 0, 0);
            v.push((name, extended_still(&Payload::LossyAlpha(alph, b.clone()), 7, 5, true)));
        }
    }
    let spec = AnimSpec {
        cw: 8, ch: 6, alpha_flag: true, bg_file_order: [1, 2, 3, 4], loops: 2,
        frames: vec![
            FrameSpec { x: 0, y: 0, w: 7, h: 5, duration: 30, blend: true, dispose: true, payload: ll.clone() },
            FrameSpec { x: 0, y: 0, w: 7, h: 5, duration: 40, blend: false, dispose: false, payload: lossy.clone() },
        ],
    };
    v.push(("animated_mixed", anim_file(&spec)));
    v
}

pub fn run(o: &Opts) -> Report {
    let mut rep = Report::new("C10");
    let mut drv = Drv::spawn(&o.drv);
    rep.rule = "(a) BitReader scripts (read_bits 0..32, fill, peek/consume, peek_full) on random byte strings of length 0..40 under position-keyed fill_buf schedules {1,2,3,7,8,9, random, alternating 1/9, whole}: real BitReader vs BitReader.run under the same schedule, and every schedule vs the whole-buffer one; (b) corpus of small files of every kind (simple lossless x2, simple lossy, extended+ICC/EXIF/XMP, lossy+ALPH raw/lossless, mixed animation) opened and fully read over a chunking BufRead+Seek under the same schedules: identical results; (c) one injected I/O fault at EVERY call index up to the fault-free call count (schedules whole and 1-byte; thorough: all schedules): the call in progress returns Err, no panic, no Ok; (d) encoder: sink failing at every write index => Err without panic; sinks accepting 1,2,3,7 bytes per write => identical bytes. distinct_nontrivial = distinct (input, schedule, fault index) executions".into();
    let mut rng = Rng::new(o.seed ^ 0xC10);
    let scheds: Vec<(&str, Vec<usize>)> = vec![
        ("whole", vec![]), ("1", vec![1]), ("2", vec![2]), ("3", vec![3]), ("7", vec![7]), ("8", vec![8]), ("9", vec![9]),
        ("alternating_1_9", vec![1, 9]), ("random", (0..17).map(|_| rng.range(1, 12) as usize).collect()),
    ];
    // (a)
    let na = if o.thorough() { 20000 } else { 3000 };
    for i in 0..na {
        let len = rng.below(41) as usize;
        let data = rng.bytes(len);
        let nops = rng.range(1, 30) as usize;
        let ops: Vec<hk::BitOp> = (0..nops)
            .map(|_| match rng.below(10) {
                0..=5 => hk::BitOp::Read(*rng.pick(&[0u8, 1, 2, 3, 4, 7, 8, 13, 14, 16, 24, 31, 32])),
                6 => hk::BitOp::Fill,
                7 | 8 => hk::BitOp::PeekConsume(rng.below(16) as u8),
                _ => hk::BitOp::PeekFull,
            })
            .collect();
        let ops_s: Vec<String> = ops.iter().map(|o| match o { hk::BitOp::Read(n) => format!("r{n}"), hk::BitOp::Fill => "f".into(), hk::BitOp::PeekConsume(n) => format!("p{n}"), hk::BitOp::PeekFull => "u".into() }).collect();
        let mut baseline: Option<String> = None;
        for (sname, sched) in &scheds {
            let line = format!("bitreader {} {} {}", hex(&data), join(sched), ops_s.join(","));
            let res = catch(|| hk::bitreader_script(Chunked::new(data.clone(), sched.clone(), None), &ops));
            let got = match res {
                Ok(v) => v.iter().map(|r| match r { Ok(v) => v.to_string(), Err(_) => "E".into() }).collect::<Vec<_>>().join(","),
                Err(m) => format!("PANIC {m}"),
            };
            rep.case(&line, true);
            rep.hit(&format!("bitreader_sched_{sname}"));
            // peek_full exposes bits above `nbits`, which legitimately depend on how far the last
            // fill looked ahead: mask those entries out of the cross-schedule comparison only
            let model = drv.ask(&line);
            if got != model {
                rep.disagree(Disagreement { case: line.clone(), got: got.clone(), expected: model, class: "correspondence", obligation: "tie2: lossless::BitReader = BitReader.run under the same fill_buf schedule".into(), detail: format!("schedule {sname}") });
            }
            let masked: String = got.split(',').zip(ops_s.iter().chain(std::iter::repeat(&String::new()))).map(|(v, o)| if o == "u" { "_" } else { v }).collect::<Vec<_>>().join(",");
            match &baseline {
                None => baseline = Some(masked),
                Some(b) => {
                    if *b != masked {
                        rep.disagree(Disagreement { case: line, got: masked, expected: b.clone(), class: "violation", obligation: "C10: bit reader results are the same however few bytes each fill_buf exposes (C10.schedule_independent)".into(), detail: format!("schedule {sname} vs whole") });
                    }
                }
            }
        }
        if i < 1 {
            rep.sample(json!({"bitreader_script": {"data": hex(&data), "ops": ops_s.join(",")}}));
        }
    }
    // (b) + (c)
    let files = corpus(&mut rng);
    for (fname, file) in &files {
        let (base, ncalls, _) = drive(file, &[], None);
        rep.sample(json!({"file": fname, "bytes": file.len(), "io_calls_whole_schedule": ncalls, "baseline": base}));
        if base.iter().any(|l| l.contains("Err") || l.starts_with("PANIC")) {
            rep.notes.push(format!("corpus file {fname} does not decode cleanly: {base:?}"));
        }
        for (sname, sched) in &scheds {
            let (outs, n, _) = drive(file, sched, None);
            let case = format!("file {fname} schedule {sname} | {}", hex(file));
            rep.case(&case, true);
            rep.hit("file_schedules");
            if outs != base {
                let k = outs.iter().zip(&base).position(|(a, b)| a != b).unwrap_or(outs.len().min(base.len()));
                rep.disagree(Disagreement { case, got: outs.get(k).cloned().unwrap_or("<missing>".into()), expected: base.get(k).cloned().unwrap_or("<missing>".into()), class: "violation", obligation: "C10: decoder results are the same no matter how few bytes each fill_buf call exposes".into(), detail: format!("call #{k}") });
            }
            // fault injection
            let fault_scheds_ok = o.thorough() || *sname == "whole" || *sname == "1";
            if !fault_scheds_ok {
                continue;
            }
            let step = if n > 4000 && !o.thorough() { n / 2000 + 1 } else { 1 };
            let mut k = 0;
            while k < n {
                let (outs, _, hit) = drive(file, sched, Some(k));
                let case = format!("file {fname} schedule {sname} fault {k} | {}", hex(file));
                rep.case(&case, true);
                rep.hit("fault_positions");
                if !hit {
                    // fault index not reached (cannot happen for k < n with a deterministic run)
                    if outs != base {
                        rep.disagree(Disagreement { case, got: format!("{outs:?}"), expected: "baseline".into(), class: "violation", obligation: "C10: a fault that is not reached changes nothing".into(), detail: String::new() });
                    }
                } else {
                    let last = outs.last().cloned().unwrap_or_default();
                    let prefix_ok = outs.len() <= base.len() && outs[..outs.len().saturating_sub(1)] == base[..outs.len().saturating_sub(1)];
                    let is_err = last.contains(":Err(");
                    if last.starts_with("PANIC") || !is_err || !prefix_ok {
                        rep.disagree(Disagreement { case, got: format!("{outs:?}"), expected: "the call in progress returns Err; earlier calls as in the fault-free run".into(), class: "violation", obligation: "C10: if any read or seek fails the current call returns an error: never a panic, never success with partially decoded data".into(), detail: format!("fault at I/O call {k} of {n}") });
                    }
                }
                k += step;
            }
        }
    }
    // (d) encoder sinks
    for t in 0..(if o.thorough() { 40 } else { 8 }) {
        let (w, h) = (rng.range(1, 12) as u32, rng.range(1, 12) as u32);
        let data = rng.bytes((w * h * 4) as usize);
        let meta = t % 2 == 0;
        let enc = |sink: &mut Sink| -> Result<Result<(), String>, String> {
            catch(|| {
                let mut e = WebPEncoder::new(&mut *sink);
                if meta {
                    // odd and even payloads in every position (the last chunk of the file is EXIF or XMP)
                    if t % 4 == 0 { e.set_exif_metadata(vec![1, 2, 3]); }
                    e.set_icc_profile(vec![4; 5 + (t % 3) as usize]);
                    if t % 4 == 2 { e.set_xmp_metadata(vec![7; 9]); e.set_exif_metadata(vec![1, 2]); }
                }
                e.encode(&data, w, h, image_webp::ColorType::Rgba8).map_err(|e| format!("{e:?}"))
            })
        };
        let mut base = Sink { bytes: vec![], calls: 0, fail_at: None, chunk: usize::MAX, cap: None, gather: false };
        let _ = enc(&mut base);
        // every piece size with a gathering sink (a vectored write may stop inside any buffer), a few with std's default
        let pieces: Vec<(usize, bool)> = [1usize, 2, 3, 7].iter().map(|&c| (c, false)).chain((1..=base.bytes.len() + 1).map(|c| (c, true))).collect();
        for (chunk, gather) in pieces {
            let mut s = Sink { bytes: vec![], calls: 0, fail_at: None, chunk, cap: None, gather };
            let r = enc(&mut s);
            rep.case(&format!("encode {w}x{h} meta={meta} sinkchunk {chunk} gather={gather} data {}", hex(&data)), true);
            rep.hit("encoder_sink_split");
            if !matches!(r, Ok(Ok(()))) || s.bytes != base.bytes {
                rep.disagree(Disagreement { case: format!("encode {w}x{h} meta={meta} sinkchunk {chunk} gather={gather} data {}", hex(&data)), got: format!("{r:?} {} bytes", s.bytes.len()), expected: format!("Ok, {} identical bytes", base.bytes.len()), class: "violation", obligation: "C10: the encoder produces identical bytes however the sink splits writes".into(), detail: String::new() });
            }
        }
        // a sink that is full after `cap` bytes (every capacity below the file length, and the exact one)
        for (cap, gather) in (0..=base.bytes.len()).flat_map(|c| [(c, false), (c, true)]) {
            let mut s = Sink { bytes: vec![], calls: 0, fail_at: None, chunk: usize::MAX, cap: Some(cap), gather };
            let r = enc(&mut s);
            let case = format!("encode {w}x{h} meta={meta} sinkcapacity {cap} of {} gather={gather} data {}", base.bytes.len(), hex(&data));
            rep.case(&case, true);
            rep.hit("encoder_sink_capacity");
            let ok = if cap < base.bytes.len() { matches!(&r, Ok(Err(e)) if e.starts_with("IoError")) } else { matches!(r, Ok(Ok(()))) && s.bytes == base.bytes };
            if !ok {
                rep.disagree(Disagreement { case, got: format!("{r:?} {} bytes written", s.bytes.len()), expected: (if cap < base.bytes.len() { "Err(IoError)" } else { "Ok, identical bytes" }).into(), class: "violation", obligation: "C10: the encoder returns an I/O error whenever its sink cannot take the bytes (write answering Ok(0)), and never reports success for a truncated file".into(), detail: format!("sink full after {cap} of {} bytes", base.bytes.len()) });
            }
        }
        for k in 0..base.calls {
            let mut s = Sink { bytes: vec![], calls: 0, fail_at: Some(k), chunk: usize::MAX, cap: None, gather: k % 2 == 1 };
            let r = enc(&mut s);
            rep.case(&format!("encode {w}x{h} meta={meta} sinkfault {k} data {}", hex(&data)), true);
            rep.hit("encoder_sink_faults");
            match r {
                Ok(Err(e)) if e.starts_with("IoError") => {}
                other => rep.disagree(Disagreement { case: format!("encode {w}x{h} meta={meta} sinkfault {k} data {}", hex(&data)), got: format!("{other:?}"), expected: "Err(IoError)".into(), class: "violation", obligation: "C10: the encoder returns an I/O error, without panicking, whenever its sink fails at any call".into(), detail: format!("write call {k} of {}", base.calls) }),
            }
        }
    }
    rep
}
