//! C13: `Frame::fill_rgb` / `fill_rgba` against the Lean model `Yuv.*` (tie 2) and against
//! libwebp's own row sampler (the property's reference), exhaustively over all 2^24 (Y,U,V)
//! triples x {first of pair, second of pair, odd tail} x {RGB writer, RGBA writer}.
use crate::common::*;
use crate::oracle;
use image_webp::verif_hooks as hk;
use serde_json::json;

const POS: [&str; 3] = ["pair_first", "pair_second", "odd_tail"];

/// For one luma value: digests of the implementation's output at each of 3 positions x 2 writers
/// (order of mixing: v, u, then R,G,B), the same from libwebp's sampler, and the number of alpha
/// bytes the RGBA writer changed.
fn impl_block(y: u8) -> ([[u64; 3]; 2], [[u64; 3]; 2], u64) {
    let mut di = [[FNV_INIT; 3]; 2];
    let mut dl = [[FNV_INIT; 3]; 2];
    let mut alpha_changed = 0u64;
    let us: Vec<u8> = (0..=255u8).collect();
    for v in 0..=255u8 {
        // frame A: 512x1, pixel 2u and 2u+1 share chroma (u, v): pair positions for every u
        // frame B: 1x512, rows 2u, 2u+1 use chroma row u: the odd-tail code path for every u
        for (wi, rgba) in [false, true].into_iter().enumerate() {
            let bpp = if rgba { 4 } else { 3 };
            let mut buf: Vec<u8> = (0..512 * bpp).map(|i| (i * 37 + 11) as u8).collect();
            let orig = buf.clone();
            hk::frame_fill(512, 1, vec![y; 512], us.clone(), vec![v; 256], rgba, &mut buf);
            let mut lib = orig.clone();
            oracle::sampler_row(if rgba { oracle::MODE_RGBA } else { oracle::MODE_RGB }, &vec![y; 512], &us, &vec![v; 256], &mut lib);
            for u in 0..256usize {
                for (p, x) in [(0usize, 2 * u), (1, 2 * u + 1)] {
                    for c in 0..3 {
                        di[wi][p] = fnv_byte(di[wi][p], buf[x * bpp + c]);
                        dl[wi][p] = fnv_byte(dl[wi][p], lib[x * bpp + c]);
                    }
                    if rgba && buf[x * 4 + 3] != orig[x * 4 + 3] {
                        alpha_changed += 1;
                    }
                }
            }
            let mut buf: Vec<u8> = (0..512 * bpp).map(|i| (i * 29 + 5) as u8).collect();
            let orig = buf.clone();
            hk::frame_fill(1, 512, vec![y; 512], us.clone(), vec![v; 256], rgba, &mut buf);
            for u in 0..256usize {
                let x = 2 * u; // row 2u (row 2u+1 uses the same chroma row)
                for c in 0..3 {
                    di[wi][2] = fnv_byte(di[wi][2], buf[x * bpp + c]);
                }
                // libwebp reference for a one-pixel row
                let mut one = [0u8; 4];
                oracle::sampler_row(if rgba { oracle::MODE_RGBA } else { oracle::MODE_RGB }, &[y], &[u as u8], &[v], &mut one);
                for c in 0..3 {
                    dl[wi][2] = fnv_byte(dl[wi][2], one[c]);
                }
                if rgba && (buf[x * 4 + 3] != orig[x * 4 + 3] || buf[(x + 1) * 4 + 3] != orig[(x + 1) * 4 + 3]) {
                    alpha_changed += 1;
                }
                if buf[(x + 1) * bpp..(x + 1) * bpp + 3] != buf[x * bpp..x * bpp + 3] {
                    // both rows of a chroma row must agree for constant luma
                    di[wi][2] = fnv_byte(di[wi][2], 0xEE);
                }
            }
        }
    }
    (di, dl, alpha_changed)
}

fn frame_case(drv: &mut Drv, rep: &mut Report, rgba: bool, w: usize, h: usize, yb: &[u8], ub: &[u8], vb: &[u8], buf0: &[u8], line_override: Option<&str>) {
    let line = match line_override {
        Some(l) => l.to_string(),
        None => format!("yuvframe {} {} {} {} {} {}", if rgba { "rgba" } else { "rgb" }, w, hex(yb), hex(ub), hex(vb), hex(buf0)),
    };
    let mut buf = buf0.to_vec();
    let res = catch(|| hk::frame_fill(w as u16, h as u16, yb.to_vec(), ub.to_vec(), vb.to_vec(), rgba, &mut buf));
    let got = match res {
        Ok(()) => hex(&buf),
        Err(m) => format!("PANIC {m}"),
    };
    let exp = drv.ask(&line);
    rep.case(&line, true);
    if got != exp {
        // locate first differing pixel for the detail
        let e = unhex(&exp);
        let bpp = if rgba { 4 } else { 3 };
        let idx = buf.iter().zip(e.iter()).position(|(a, b)| a != b).unwrap_or(0);
        rep.disagree(Disagreement {
            case: line,
            got,
            expected: exp,
            class: "violation",
            obligation: "tie2: Frame::fill_rgb/fill_rgba = Yuv.fillRgb/fillRgba (C13.frame_rgb, C13.frame_rgba: every pixel is libwebp's kernel of luma (x,y), chroma (x/2,y/2); alpha byte untouched)".into(),
            detail: format!("first difference at byte {idx} = pixel ({}, {}) channel {}", (idx / bpp) % w, (idx / bpp) / w, idx % bpp),
        });
    }
}

pub fn run(o: &Opts) -> Report {
    let mut rep = Report::new("C13");
    let mut drv = Drv::spawn(&o.drv);
    if let Some(case) = &o.replay {
        let p: Vec<&str> = case.split_whitespace().collect();
        if p[0] == "yuvframe" {
            let rgba = p[1] == "rgba";
            let w: usize = p[2].parse().unwrap();
            let yb = unhex(p[3]);
            let h = yb.len() / w;
            frame_case(&mut drv, &mut rep, rgba, w, h, &yb, &unhex(p[4]), &unhex(p[5]), &unhex(p[6]), Some(case));
        } else if p[0] == "yuvpx" {
            let (y, u, v): (u8, u8, u8) = (p[1].parse().unwrap(), p[2].parse().unwrap(), p[3].parse().unwrap());
            px_case(&mut drv, &mut rep, y, u, v);
        }
        return rep;
    }
    rep.rule = "all 2^24 (Y,U,V) triples x {first of pair, second of pair, odd tail} x {fill_rgb, fill_rgba} through Frame::fill_* (frames 512x1 and 1x512 per (Y,V)), digest per luma value compared with the Lean kernel digest AND with libwebp's WebPSamplers row function; alpha bytes of the RGBA writer checked untouched; plus random frames (w 1..33, h 1..6, all parities) compared byte for byte with Yuv.fillRgb/fillRgba. distinct_nontrivial = luma blocks enumerated completely x 6 position/writer classes + distinct random frames".into();

    let lines: Vec<String> = (0..256).map(|y| format!("yuvblock {y}")).collect();
    let model = ask_parallel(&o.drv, &lines, o.jobs);
    let mut blocks = Vec::new();
    std::thread::scope(|sc| {
        let hs: Vec<_> = (0..256usize).map(|y| sc.spawn(move || catch(|| impl_block(y as u8)))).collect();
        for h in hs {
            blocks.push(h.join().unwrap());
        }
    });
    rep.evaluations += 256 * 65536 * 6;
    rep.oracle_checks += 256 * 65536 * 6;
    rep.distinct_extra += 256 * 6;
    rep.exhaustive = true;
    rep.exhaustive_note = "2^24 triples x 3 positions x 2 writers: complete, implementation vs model and vs libwebp".into();
    for (y, b) in blocks.iter().enumerate() {
        match b {
            Err(m) => rep.disagree(Disagreement {
                case: format!("yuvblock {y}"),
                got: format!("PANIC {m}"),
                expected: model[y].clone(),
                class: "violation",
                obligation: "fill_rgb/fill_rgba must not panic on well-sized planes".into(),
                detail: String::new(),
            }),
            Ok((di, dl, alpha_changed)) => {
                if *alpha_changed != 0 {
                    rep.disagree(Disagreement {
                        case: format!("yuvblock {y}"),
                        got: format!("{alpha_changed} alpha bytes changed"),
                        expected: "0".into(),
                        class: "violation",
                        obligation: "C13.row_rgba / frame_rgba: the four-channel writer leaves the alpha byte as found".into(),
                        detail: "fill_rgba modified alpha bytes".into(),
                    });
                }
                for wi in 0..2 {
                    for p in 0..3 {
                        rep.hit(&format!("{}_{}", if wi == 0 { "rgb" } else { "rgba" }, POS[p]));
                        let ok_m = di[wi][p].to_string() == model[y];
                        let ok_l = di[wi][p] == dl[wi][p];
                        if (!ok_m || !ok_l) && rep.n_disagreements >= 3 {
                            rep.hit("block_mismatch_not_expanded");
                            continue;
                        }
                        if !ok_m || !ok_l {
                            // expand: find a concrete triple (locate it against libwebp first, in-process)
                            let mut found = false;
                            'o: for v in 0..=255u8 {
                                for u in 0..=255u8 {
                                    if !px_differs_from_libwebp(y as u8, u, v) && ok_m == ok_l {
                                        continue;
                                    }
                                    let before = rep.n_disagreements;
                                    px_case(&mut drv, &mut rep, y as u8, u, v);
                                    if rep.n_disagreements > before {
                                        found = true;
                                        break 'o;
                                    }
                                }
                            }
                            if !found {
                                rep.disagree(Disagreement {
                                    case: format!("yuvblock {y}"),
                                    got: di[wi][p].to_string(),
                                    expected: format!("model {} libwebp {}", model[y], dl[wi][p]),
                                    class: "correspondence",
                                    obligation: format!("tie2 digest, writer {wi} position {}", POS[p]),
                                    detail: "digest differs but single-pixel probes agree".into(),
                                });
                            }
                        }
                    }
                }
            }
        }
    }

    // random frames through the whole frame writers
    let mut rng = Rng::new(o.seed);
    let n = if o.thorough() { 20000 } else { 3000 };
    for i in 0..n {
        let w = rng.range(1, 33) as usize;
        let h = rng.range(1, 6) as usize;
        let cw = w.div_ceil(2);
        let ch = h.div_ceil(2);
        let rgba = rng.chance(1, 2);
        let bpp = if rgba { 4 } else { 3 };
        let yb = rng.bytes(w * h);
        let ub = rng.bytes(cw * ch);
        let vb = rng.bytes(cw * ch);
        let buf0 = rng.bytes(w * h * bpp);
        rep.hit(&format!("frame_w{}_h{}", if w % 2 == 0 { "even" } else { "odd" }, if h % 2 == 0 { "even" } else { "odd" }));
        if w == 1 || h == 1 {
            rep.hit("frame_one_pixel_row_or_column");
        }
        if i < 2 {
            rep.sample(json!({"request": format!("yuvframe {} {} {} {} {} {}", if rgba { "rgba" } else { "rgb" }, w, hex(&yb), hex(&ub), hex(&vb), hex(&buf0))}));
        }
        frame_case(&mut drv, &mut rep, rgba, w, h, &yb, &ub, &vb, &buf0, None);
    }
    rep.sample(json!({"request": "yuvblock 128", "model_digest": model[128], "impl_digests_rgb_rgba_x_positions": blocks[128].as_ref().map(|b| format!("{:?}", b.0)).unwrap_or_default()}));
    rep
}

fn px_differs_from_libwebp(y: u8, u: u8, v: u8) -> bool {
    let mut lib = [0u8; 3];
    oracle::sampler_row(oracle::MODE_RGB, &[y], &[u], &[v], &mut lib);
    for rgba in [false, true] {
        let bpp = if rgba { 4 } else { 3 };
        let mut buf = vec![0x55u8; 3 * bpp];
        if catch(|| hk::frame_fill(3, 1, vec![y; 3], vec![u; 2], vec![v; 2], rgba, &mut buf)).is_err() {
            return true;
        }
        for p in 0..3 {
            if buf[p * bpp..p * bpp + 3] != lib {
                return true;
            }
        }
    }
    false
}

/// one triple at all positions/writers, against the model kernel and libwebp
fn px_case(drv: &mut Drv, rep: &mut Report, y: u8, u: u8, v: u8) {
    let line = format!("yuvpx {y} {u} {v}");
    let exp = drv.ask(&line);
    let mut lib = [0u8; 3];
    oracle::sampler_row(oracle::MODE_RGB, &[y], &[u], &[v], &mut lib);
    for rgba in [false, true] {
        let bpp = if rgba { 4 } else { 3 };
        let mut buf = vec![0x55u8; 3 * bpp];
        let r = catch(|| hk::frame_fill(3, 1, vec![y; 3], vec![u; 2], vec![v; 2], rgba, &mut buf));
        for p in 0..3 {
            let got = if r.is_ok() { hex(&buf[p * bpp..p * bpp + 3]) } else { "PANIC".into() };
            rep.evaluations += 1;
            if got != exp || got != hex(&lib) {
                rep.disagree(Disagreement {
                    case: line.clone(),
                    got,
                    expected: format!("{exp} (libwebp {})", hex(&lib)),
                    class: "violation",
                    obligation: "C13.rgb_kernel: every colour equals libwebp's VP8YUVToR/G/B".into(),
                    detail: format!("writer {} position {}", if rgba { "fill_rgba" } else { "fill_rgb" }, POS[p]),
                });
                return;
            }
        }
    }
}
