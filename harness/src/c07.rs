//! C07: sequences of read_frame / reset_animation / read_image on one decoder against
//! `Anim.run` (= the abstract cursor player, by C07.trace_refines).
use crate::animgen::*;
use crate::c06::file_case;
use crate::common::*;
use serde_json::json;

fn all_sequences(max_len: usize) -> Vec<String> {
    let mut out = vec![String::new()];
    let mut frontier = vec![String::new()];
    for _ in 0..max_len {
        let mut next = Vec::new();
        for s in &frontier {
            for c in ['f', 'r', 'i'] {
                let mut t = s.clone();
                t.push(c);
                next.push(t);
            }
        }
        out.extend(next.iter().cloned());
        frontier = next;
    }
    out.retain(|s| !s.is_empty());
    out
}

pub fn run(o: &Opts) -> Report {
    let mut rep = Report::new("C07");
    let mut drv = Drv::spawn(&o.drv);
    if o.replay.is_some() {
        let mut r6 = crate::c06::run(o);
        r6.property = "C07".into();
        return r6;
    }
    rep.rule = "generated animations (1..4 frames, sub-canvas first frames, dispose/blend mixes, VP8L and lossy frames) x call sequences over {read_frame, reset_animation, read_image}: ALL sequences of length <= 5 (quick) / 6 (thorough) on three animations, random sequences of length <= 14 on the others; every returned duration / error / buffer (digest) compared with Anim.run, and NoMoreFrames checked to leave the buffer untouched. distinct_nontrivial = distinct (animation, sequence) pairs with at least two calls".into();
    let mut rng = Rng::new(o.seed ^ 0xC07);
    let obligation = "tie2: WebPDecoder under a call history = Anim.run (C07.trace_refines: = abstract cursor player; frames after reset equal a fresh decoder's; read_image returns frame 1 and keeps the position; NoMoreFrames until reset)";
    // exhaustive part
    let seqs = all_sequences(if o.thorough() { 6 } else { 5 });
    let mut fixed = 0;
    while fixed < 3 {
        let Ok(Some(g)) = catch(|| gen_anim(&mut rng, &GenOpts { max_canvas: 5, max_frames: 3, lossy: fixed == 2, binary_alpha: false })) else { continue };
        if g.spec.frames.len() < 2 {
            continue;
        }
        // want a first frame that does not cover the canvas
        let f0 = &g.spec.frames[0];
        if f0.w == g.spec.cw && f0.h == g.spec.ch && g.spec.cw * g.spec.ch > 1 {
            continue;
        }
        fixed += 1;
        rep.sample(json!({"animation": g.shape(), "canvas": [g.spec.cw, g.spec.ch], "sequences": seqs.len(), "example_sequence": seqs[seqs.len() / 2]}));
        for s in &seqs {
            rep.hit("exhaustive_sequences");
            file_case(&mut drv, &mut rep, &g, s, obligation, false);
        }
    }
    rep.exhaustive = true;
    rep.exhaustive_note = format!("all {} call sequences up to length {} on three animations", seqs.len(), if o.thorough() { 6 } else { 5 });
    // random part
    let n = if o.thorough() { 3000 } else { 400 };
    for i in 0..n {
        let Ok(Some(g)) = catch(|| gen_anim(&mut rng, &GenOpts { max_canvas: 8, max_frames: 4, lossy: i % 3 == 0, binary_alpha: false })) else {
            rep.hit("generator_skipped");
            continue;
        };
        for _ in 0..4 {
            let len = rng.range(2, 14) as usize;
            let s: String = (0..len).map(|_| *rng.pick(&['f', 'f', 'f', 'r', 'i'])).collect();
            rep.hit(&format!("random_seq_resets_{}", s.matches('r').count().min(3)));
            file_case(&mut drv, &mut rep, &g, &s, obligation, false);
            // the same history through unusual readers: the file embedded behind foreign bytes, and
            // one transient I/O fault somewhere in the file with the failed call repeated - the
            // successful calls must return what they return in the plain run (= the model)
            let clean = crate::c06::run_ops(&g.file, &s, false);
            let at = 12 + rng.below(g.file.len().saturating_sub(12).max(1) as u64);
            // the history with rejected calls sprinkled in (read_image with a buffer of the wrong length)
            let sw: String = s.chars().flat_map(|c| if rng.chance(1, 3) { vec!['w', c] } else { vec![c] }).chain(std::iter::once('w')).collect();
            for (what, prefix, fault) in [("embedded", 23usize, u64::MAX), ("fault", 0usize, at), ("embedded+fault", 9usize, at), ("rejected-calls", 0usize, u64::MAX)] {
                let (got, _) = crate::c06::run_ops_unusual(&g.file, if what == "rejected-calls" { &sw } else { &s }, prefix, fault);
                rep.case(&format!("animunusual {what} prefix={prefix} at={fault} {} {}", hex(&g.file), if what == "rejected-calls" { &sw } else { &s }), true);
                rep.hit(&format!("unusual_reader_{what}"));
                if got != clean {
                    let (gi, ci): (Vec<&str>, Vec<&str>) = (got.split(' ').collect(), clean.split(' ').collect());
                    let j = gi.iter().zip(ci.iter()).position(|(a, b)| a != b).unwrap_or(gi.len().min(ci.len()));
                    rep.disagree(Disagreement { case: format!("animunusual {what} prefix={prefix} at={fault} {} {}", hex(&g.file), if what == "rejected-calls" { &sw } else { &s }), got: gi.get(j).map(|x| x.chars().take(120).collect()).unwrap_or_default(), expected: ci.get(j).map(|x| x.chars().take(120).collect()).unwrap_or_default(), class: "violation", obligation: "C07: under every call history the successful calls return the frames of the abstract player - also when the file starts behind foreign bytes in the reader, when an earlier call failed with a transient I/O error and was repeated, and when read_image calls with a buffer of the wrong length were rejected in between".into(), detail: format!("{what}; first differing successful call: #{j} of `{s}`; animation {}", g.shape()) });
                }
            }
        }
    }
    rep
}
