//! C14: `build_huffman_tree` against the Lean model `EncHuff.build` (tie 2) and against the
//! property's own clauses evaluated on the real output (length range, unused = 0, Kraft equality,
//! canonical code words per the lossless specification, decoder reconstruction).
use crate::common::*;
use image_webp::verif_hooks as hk;
use serde_json::json;

fn kraft(lengths: &[u8], limit: u8) -> u64 {
    lengths.iter().filter(|&&l| l != 0 && l <= limit).map(|&l| 1u64 << (limit - l)).sum()
}

/// the property evaluated on the implementation's output
fn property_holds(freqs: &[u32], limit: u8, flag: bool, lengths: &[u8], codes: &[u16], spec_codes: &[u64]) -> Result<(), String> {
    let used = freqs.iter().filter(|&&f| f > 0).count();
    if used <= 1 {
        return if !flag && lengths.iter().all(|&l| l == 0) && codes.iter().all(|&c| c == 0) { Ok(()) } else { Err("fewer than two used symbols must be signalled with all-zero lengths and codes".into()) };
    }
    if !flag {
        return Err("two or more used symbols but signalled as single".into());
    }
    for (i, &f) in freqs.iter().enumerate() {
        if f == 0 && lengths[i] != 0 {
            return Err(format!("unused symbol {i} has length {}", lengths[i]));
        }
        if f > 0 && !(1..=limit).contains(&lengths[i]) {
            return Err(format!("used symbol {i} has length {} outside 1..={limit}", lengths[i]));
        }
    }
    if kraft(lengths, limit) != 1u64 << limit {
        return Err(format!("Kraft sum {} != 2^{limit}", kraft(lengths, limit)));
    }
    for i in 0..freqs.len() {
        if u64::from(codes[i]) != spec_codes[i] {
            return Err(format!("symbol {i}: code word {} but the canonical (bit-reversed) code word is {}", codes[i], spec_codes[i]));
        }
    }
    // a WebP decoder reconstructs the code from the lengths: build and decode every code word
    match hk::Huff::build_implicit(lengths.iter().map(|&l| u16::from(l)).collect()) {
        Err(e) => return Err(format!("decoder rejects the lengths: {e:?}")),
        Ok(t) => {
            for (i, &l) in lengths.iter().enumerate() {
                if l == 0 {
                    continue;
                }
                let mut bytes = (u64::from(codes[i])).to_le_bytes().to_vec();
                bytes.extend_from_slice(&[0u8; 8]);
                let (syms, err) = t.read_symbols(&bytes, 1);
                if err.is_some() || syms != vec![i as u16] {
                    return Err(format!("decoder reads code word of symbol {i} as {syms:?} {err:?}"));
                }
            }
        }
    }
    Ok(())
}

fn parse_list<T: std::str::FromStr>(s: &str) -> Vec<T> {
    if s == "-" {
        return vec![];
    }
    s.split(',').filter_map(|x| x.parse().ok()).collect()
}

fn one(drv: &mut Drv, rep: &mut Report, freqs: &[u32], limit: u8, family: &str) {
    let line = format!("enchuff {limit} {}", join(freqs));
    let used = freqs.iter().filter(|&&f| f > 0).count();
    rep.case(&line, used >= 2);
    rep.hit(&format!("family_{family}"));
    let r = catch(|| hk::enc_build_huffman(freqs, limit));
    let model = drv.ask(&line);
    let (flag, lengths, codes) = match r {
        Ok(x) => x,
        Err(m) => {
            rep.disagree(Disagreement { case: line, got: format!("PANIC {m}"), expected: model, class: "violation", obligation: "C14: build_huffman_tree never panics (the final assert_eq! is the Kraft equality)".into(), detail: family.into() });
            return;
        }
    };
    let got = if !flag { "single".to_string() } else { format!("built {} {}", join(&lengths), join(&codes)) };
    let spec = drv.ask(&format!("enccodes {limit} {}", join(&lengths)));
    let sp: Vec<&str> = spec.split(' ').collect();
    let model_codes_for_impl_lengths = sp.first().copied().unwrap_or("");
    let spec_codes: Vec<u64> = parse_list(sp.get(2).copied().unwrap_or("-"));
    let limited = lengths.iter().any(|&l| l == limit) && flag;
    if limited {
        rep.hit("reached_length_limit");
    }
    if let Err(why) = property_holds(freqs, limit, flag, &lengths, &codes, &spec_codes) {
        rep.disagree(Disagreement { case: line, got, expected: model, class: "violation", obligation: "C14: lengths in 1..limit for used symbols, 0 for unused, Kraft equality, canonical code words, decoder reconstructs them".into(), detail: format!("{why} [{family}]") });
        return;
    }
    if got == model {
        return;
    }
    // admissible tie order of sort_unstable_by_key?
    if flag && model.starts_with("built ") {
        let mlen = model.split(' ').nth(1).unwrap_or("");
        let adm = drv.ask(&format!("enchuffadmits {} {} {}", join(freqs), mlen, join(&lengths)));
        if adm == "admits" && join(&codes) == model_codes_for_impl_lengths {
            rep.hit("admissible_tie_order_variant");
            return;
        }
    }
    rep.disagree(Disagreement { case: line, got, expected: model, class: "correspondence", obligation: "tie2: build_huffman_tree = EncHuff.build (up to the unspecified tie order of sort_unstable_by_key, EncHuff.admitsReassign)".into(), detail: format!("the property's clauses hold on this output [{family}]") });
}

pub fn run(o: &Opts) -> Report {
    let mut rep = Report::new("C14");
    let mut drv = Drv::spawn(&o.drv);
    if let Some(case) = &o.replay {
        let p: Vec<&str> = case.split_whitespace().collect();
        one(&mut drv, &mut rep, &parse_list::<u32>(p[2]), p[1].parse().unwrap(), "replay");
        return rep;
    }
    rep.rule = "frequency vectors: ALL vectors over alphabets of 2..5 symbols with frequencies 0..4 (0..5 thorough), 6 symbols with 0..3, 7..8 symbols with 0..2, at limits 2..4; for the real alphabets (16 symbols/limit 7, 256/15, 280/15): Fibonacci, geometric (ratio 2 and 3), one dominant symbol, all equal, two-level ties, Zipf-like, sparse random, uniform random, near-u32 totals; output compared with EncHuff.build (up to the unspecified tie order of sort_unstable), and the property's clauses evaluated on the real output incl. decoding every code word with the crate's decoder. distinct_nontrivial = distinct vectors with at least two used symbols".into();
    // exhaustive small alphabets
    let fmax: u32 = if o.thorough() { 5 } else { 4 };
    for n in 2..=8usize {
        // alphabets of 6 symbols: frequencies 0..3; 7 and 8 symbols: 0..2 (ties at the minimum)
        let fmax: u32 = if n <= 5 { fmax } else if n == 6 { 3 } else { 2 };
        let total = (fmax as usize + 1).pow(n as u32);
        for code in 0..total {
            let mut c = code;
            let freqs: Vec<u32> = (0..n).map(|_| { let f = (c % (fmax as usize + 1)) as u32; c /= fmax as usize + 1; f }).collect();
            let used = freqs.iter().filter(|&&f| f > 0).count();
            for limit in 2..=4u8 {
                if used > (1usize << limit) {
                    continue;
                }
                one(&mut drv, &mut rep, &freqs, limit, "exhaustive_small");
            }
        }
    }
    rep.exhaustive = true;
    rep.exhaustive_note = format!("all frequency vectors over 2..5 symbols with frequencies 0..{fmax}, 6 symbols 0..3, 7-8 symbols 0..2, at limits 2,3,4");
    // families on the real alphabets
    let mut rng = Rng::new(o.seed ^ 0xC14);
    let reps = if o.thorough() { 60 } else { 8 };
    for &(n, limit) in &[(16usize, 7u8), (256, 15), (280, 15)] {
        for r in 0..reps {
            let mut fams: Vec<(&str, Vec<u32>)> = Vec::new();
            // Fibonacci (forces maximal depth), in random symbol positions
            let mut fib = vec![0u32; n];
            let (mut a, mut b) = (1u64, 1u64);
            let k = (if n == 16 { 16 } else { rng.range(17, 44) as usize }).min(n);
            let mut pos: Vec<usize> = (0..n).collect();
            for i in (1..n).rev() {
                pos.swap(i, rng.below(i as u64 + 1) as usize);
            }
            for &p in pos.iter().take(k) {
                fib[p] = a as u32;
                let c = a + b;
                a = b;
                b = c;
                if b > u64::from(u32::MAX) / 4 {
                    a = 1;
                    b = 1;
                }
            }
            fams.push(("fibonacci", fib));
            // Fibonacci with a tie at the minimum (1,1,1,2,3,5,...) in ascending, descending and
            // random symbol order, of every length that brings the optimal depth near the limit
            for order in 0..3 {
                let len = if n == 16 { rng.range(6, 16) as usize } else { rng.range(12, 26) as usize };
                let mut vals: Vec<u32> = vec![1, 1, 1];
                let (mut a, mut b) = (2u64, 3u64);
                while vals.len() < len {
                    vals.push(a as u32);
                    let c = a + b;
                    a = b;
                    b = c;
                }
                match order {
                    0 => {}
                    1 => vals.reverse(),
                    _ => {
                        for i in (1..vals.len()).rev() {
                            vals.swap(i, rng.below(i as u64 + 1) as usize);
                        }
                    }
                }
                let mut f = vec![0u32; n];
                let start = rng.below((n - len) as u64 + 1) as usize;
                f[start..start + len].copy_from_slice(&vals);
                fams.push((["fib_min_ties_ascending", "fib_min_ties_descending", "fib_min_ties_shuffled"][order], f));
            }
            for ratio in [2u64, 3] {
                let mut g = vec![0u32; n];
                let mut v = 1u64;
                for &p in pos.iter().take(k.min(if ratio == 2 { 30 } else { 19 })) {
                    g[p] = v as u32;
                    v *= ratio;
                }
                fams.push((if ratio == 2 { "geometric2" } else { "geometric3" }, g));
            }
            let mut dom = vec![1u32; n];
            dom[rng.below(n as u64) as usize] = 1 << 27;
            fams.push(("one_dominant", dom));
            fams.push(("all_equal", vec![rng.range(1, 1000) as u32; n]));
            let two: Vec<u32> = (0..n).map(|i| if i % 2 == 0 { 7 } else { 7 * 64 }).collect();
            fams.push(("two_level_ties", two));
            let zipf: Vec<u32> = (0..n).map(|i| (1_000_000 / (i as u64 + 1 + rng.below(3))) as u32).collect();
            fams.push(("zipf", zipf));
            let sparse: Vec<u32> = (0..n).map(|_| if rng.chance(1, 8) { rng.range(1, 100000) as u32 } else { 0 }).collect();
            fams.push(("sparse_random", sparse));
            let unif: Vec<u32> = (0..n).map(|_| rng.below(50) as u32).collect();
            fams.push(("uniform_small_with_ties", unif));
            let exp: Vec<u32> = (0..n).map(|_| 1u32 << rng.below(24)).collect();
            fams.push(("random_powers_of_two", exp));
            let mut twoused = vec![0u32; n];
            twoused[rng.below(n as u64) as usize] = 5;
            twoused[rng.below(n as u64) as usize] += 9;
            fams.push(("one_or_two_used", twoused));
            fams.push(("none_used", vec![0u32; n]));
            for (name, f) in fams {
                if r == 0 && n == 16 && (name == "fibonacci" || name == "two_level_ties") {
                    rep.sample(json!({"family": name, "limit": limit, "freqs": f}));
                }
                one(&mut drv, &mut rep, &f, limit, &format!("{name}_{n}_{limit}"));
            }
        }
    }
    rep
}
