#!/bin/bash
# usage: seed_verify.sh <PROP> <variant> [unit:<src file>]
# Confirms in a scratch worktree that (1) the demo passes on the unchanged crate, (2) with the patch
# the crate still compiles and the existing suite passes, (3) the demo fails with the patch.
# Then applies the patch to /repo, runs the property's quick check, and undoes it.
set -u
P=$1; V=$2; MODE=${3:-integration}
S=/tmp/seed/$P/$V
WT=/tmp/seedverify_$P$V
OUT=/verif/seeded/${P}_$V
mkdir -p $OUT
cp $S/patch.diff $OUT/patch.diff
cp $S/demo.rs $OUT/demo.rs 2>/dev/null
cp $S/notes.md $OUT/notes_from_author.md 2>/dev/null
if [ "${CHECK_ONLY:-}" != "1" ]; then
git -C /repo worktree remove --force $WT 2>/dev/null
git -C /repo worktree add -q $WT HEAD || exit 2
cd $WT
install_demo() {
  if [[ $MODE == unit:* ]]; then
    f=${MODE#unit:}
    # insert the demo test functions before the final closing brace of the file's tests module
    python3 - "$f" "$S/demo.rs" <<'PY'
import sys,re
f,d=sys.argv[1],sys.argv[2]
s=open(f).read(); demo=open(d).read()
k=s.find('mod tests {')
i=s.find('\n}\n',k)+1 if k>=0 else s.rfind('}')
open(f,'w').write(s[:i]+"\n"+demo+"\n"+s[i:])
PY
  else
    cp $S/demo.rs tests/demo.rs
  fi
}
run_demo() {
  if [[ $MODE == unit:* ]]; then cargo test --offline --lib 2>&1 | grep -E "^test result|FAILED|panicked" | head -5
  else cargo test --offline --test demo 2>&1 | grep -E "^test result|FAILED|error" | head -5; fi
}
echo "== demo on unchanged crate"; install_demo; R1=$(run_demo); echo "$R1"
git checkout -q -- . ; rm -f tests/demo.rs
echo "== existing suite with patch"; git apply $S/patch.diff || { echo "PATCH DOES NOT APPLY"; exit 3; }
R2=$(cargo test --offline 2>&1 | grep -E "^test result|FAILED|^error" | head -8); echo "$R2"
echo "== demo with patch"; install_demo; R3=$(run_demo); echo "$R3"
cd /verif; git -C /repo worktree remove --force $WT
printf '%s\n---\n%s\n---\n%s\n' "$R1" "$R2" "$R3" > $OUT/confirm.txt
if [ "${CONFIRM_ONLY:-}" = "1" ]; then exit 0; fi
else
  R1=$(awk 'BEGIN{RS="\n---\n"} NR==1' $OUT/confirm.txt); R2=$(awk 'BEGIN{RS="\n---\n"} NR==2' $OUT/confirm.txt); R3=$(awk 'BEGIN{RS="\n---\n"} NR==3' $OUT/confirm.txt)
fi
cd /verif
echo "== check on /repo with patch applied"
git -C /repo apply $S/patch.diff || { echo "PATCH DOES NOT APPLY TO /repo"; exit 3; }
# the evidence file of the property is rewritten by the run on the patched tree: keep the one of the unchanged tree
cp /verif/evidence/$P.json /tmp/evidence_keep_$P.json 2>/dev/null
R4=$(cd /verif && timeout 900 bin/check $P 2>&1 | grep -E "^VIOLATION|^\[|KNOWN" | cut -c1-300); echo "$R4"
git -C /repo checkout -- .
mv /tmp/evidence_keep_$P.json /verif/evidence/$P.json 2>/dev/null
rm -f /verif/replays/${P}_*.json
python3 - "$P" "$V" "$OUT" "$R1" "$R2" "$R3" "$R4" <<'PY'
import json,sys
P,V,OUT,R1,R2,R3,R4=sys.argv[1:8]
json.dump({"property":P,"variant":V,"demo_on_unchanged":R1,"suite_with_patch":R2,"demo_with_patch":R3,"check_with_patch":R4,
 "detected":"VIOLATION" in R4,"confirmed":("ok" in R1 and "FAILED" not in R1) and ("FAILED" in R3 or "error" in R3) and "FAILED" not in R2},open(OUT+"/meta.json","w"),indent=1)
print(open(OUT+"/meta.json").read())
PY
