#!/usr/bin/env python3
"""Translator for constant tables (tie 1b).

Regenerates, on every run,
  lean/WebpVerif/Gen/Tables.lean   from /repo/src/*.rs   (the constants the implementation uses)
  lean/WebpVerif/Gen/Libwebp.lean  from libwebp's C source vendored in the libwebp-sys crate
                                   (the constants the specification side uses)
Files are rewritten only when their content changes, so an unchanged tree rebuilds nothing.
Exit code 0 always when the files could be written; a table that cannot be found is emitted as a
Lean `#eval (panic! ...)`-free marker `def <name>_missing : Unit := ()` and reported on stdout —
the theorem that needs it then fails to build, which the orchestrator reports as a broken obligation.
"""
import glob, os, re, sys

V = os.path.dirname(os.path.dirname(os.path.abspath(__file__)))
REPO = os.environ.get("VERIF_REPO", "/repo")
GEN = os.path.join(V, "lean", "WebpVerif", "Gen")


def libwebp_dir():
    c = sorted(glob.glob(os.path.expanduser("~/.cargo/registry/src/*/libwebp-sys-0.9.6/vendor")))
    return c[0] if c else None


def write_if_changed(path, text):
    old = open(path).read() if os.path.exists(path) else None
    if old != text:
        os.makedirs(os.path.dirname(path), exist_ok=True)
        open(path, "w").write(text)
        return True
    return False


def strip_rust_comments(s):
    s = re.sub(r"/\*.*?\*/", "", s, flags=re.S)
    return re.sub(r"//[^\n]*", "", s)


class RustConsts:
    """Scalar consts and literal arrays of a Rust file."""
    def __init__(self, text):
        self.text = strip_rust_comments(text)
        self.scalars = {}
        for m in re.finditer(r"(?:pub(?:\([a-z]+\))?\s+)?(?:const|static)\s+([A-Z][A-Z0-9_]*)\s*:\s*([a-z0-9]+)\s*=\s*([^;\[\]{}]+);", self.text):
            name, ty, expr = m.groups()
            v = self.eval(expr)
            if v is not None:
                self.scalars[name] = v

    def eval(self, expr):
        e = expr.strip()
        e = re.sub(r"\b([0-9][0-9_]*)(?:u8|u16|u32|u64|usize|i8|i16|i32|i64|isize)\b", r"\1", e)
        e = re.sub(r"\bas\s+[a-z0-9]+", "", e)
        def sub(m):
            n = m.group(0)
            if n in self.scalars:
                return str(self.scalars[n])
            return n
        e = re.sub(r"\b[A-Z][A-Z0-9_]*\b", sub, e)
        e = e.replace("_", "") if re.fullmatch(r"[0-9_xXa-fA-F\s\-+*()<>|&]+", e) else e
        if not re.fullmatch(r"[0-9xXa-fA-F\s\-+*()<>|&]+", e):
            return None
        try:
            return int(eval(e, {"__builtins__": {}}))
        except Exception:
            return None

    def array(self, name):
        """Nested python list for `const NAME: [...] = [ ... ];` (tuples become lists)."""
        m = re.search(r"(?:const|static)\s+" + name + r"\s*:[^=]*=\s*", self.text)
        if not m:
            return None
        i = m.end()
        depth = 0
        j = i
        while j < len(self.text):
            c = self.text[j]
            if c in "[(":
                depth += 1
            elif c in "])":
                depth -= 1
                if depth == 0:
                    j += 1
                    break
            j += 1
        body = self.text[i:j]
        return self.parse(body)

    def parse(self, body):
        toks = [t.strip() for t in re.findall(r"[\[\]\(\),]|[^\[\]\(\),]+", body)]
        toks = [t for t in toks if t != ""]
        pos = 0
        def elem():
            nonlocal pos
            t = toks[pos]
            if t in ("[", "("):
                pos += 1
                out = []
                while toks[pos] not in ("]", ")"):
                    if toks[pos] == ",":
                        pos += 1
                        continue
                    out.append(elem())
                pos += 1
                return out
            pos += 1
            v = self.eval(t)
            if v is None:
                raise ValueError("cannot evaluate " + t)
            return v
        return elem()


def lean_lit(v, int=False):
    if isinstance(v, list):
        return "[" + ", ".join(lean_lit(x, int) for x in v) + "]"
    if v < 0:
        return f"({v})"
    return str(v)


def lean_ty(v, int):
    if isinstance(v, list):
        return "List (" + lean_ty(v[0], int) + ")" if isinstance(v[0], list) else "List " + ("Int" if int else "Nat")
    return "Int" if int else "Nat"


def has_neg(v):
    return any(has_neg(x) for x in v) if isinstance(v, list) else v < 0


def emit(name, v):
    i = has_neg(v)
    return f"def {name} : {lean_ty(v, i)} := {lean_lit(v, i)}\n"


def c_array(text, name):
    """Flat list of ints of a C array initialiser `name[...]... = { ... };` (nested braces flattened, with shape)."""
    m = re.search(r"\b" + name + r"\s*(\[[^=;]*\])+\s*=\s*", text)
    if not m:
        return None
    i = m.end()
    depth = 0
    j = i
    while j < len(text):
        if text[j] == "{":
            depth += 1
        elif text[j] == "}":
            depth -= 1
            if depth == 0:
                j += 1
                break
        j += 1
    body = re.sub(r"/\*.*?\*/", "", text[i:j], flags=re.S)
    body = re.sub(r"//[^\n]*", "", body)
    def parse(s):
        toks = [t.strip() for t in re.findall(r"[{},]|[^{},]+", s)]
        toks = [t for t in toks if t != ""]
        pos = 0
        def el():
            nonlocal pos
            if toks[pos] == "{":
                pos += 1
                out = []
                while True:
                    while toks[pos] == ",":
                        pos += 1
                    if toks[pos] == "}":
                        pos += 1
                        return out
                    out.append(el())
            t = toks[pos]
            pos += 1
            return int(t, 0)
        return el()
    return parse(body)


def gen_repo():
    out = ["/- GENERATED by tools/gen_tables.py from /repo/src — do not edit. -/\nnamespace Gen.Tables\n"]
    missing = []
    def src(f):
        return RustConsts(open(os.path.join(REPO, "src", f)).read())
    ll = src("lossless.rs")
    vp8 = src("vp8.rs")
    enc = src("encoder.rs")
    tr = src("transform.rs")
    hf = src("huffman.rs")
    ar = src("vp8_arithmetic_decoder.rs")
    items = [
        (ll, "DISTANCE_MAP"), (ll, "CODE_LENGTH_CODE_ORDER"), (ll, "ALPHABET_SIZE"),
        (vp8, "SEGMENT_ID_TREE"), (vp8, "KEYFRAME_YMODE_TREE"), (vp8, "KEYFRAME_YMODE_PROBS"),
        (vp8, "KEYFRAME_BPRED_MODE_TREE"), (vp8, "KEYFRAME_BPRED_MODE_PROBS"),
        (vp8, "KEYFRAME_UV_MODE_TREE"), (vp8, "KEYFRAME_UV_MODE_PROBS"),
        (vp8, "COEFF_UPDATE_PROBS"), (vp8, "COEFF_PROBS"), (vp8, "DCT_TOKEN_TREE"),
        (vp8, "PROB_DCT_CAT"), (vp8, "DCT_CAT_BASE"), (vp8, "COEFF_BANDS"),
        (vp8, "DC_QUANT"), (vp8, "AC_QUANT"), (vp8, "ZIGZAG"),
    ]
    for rc, name in items:
        try:
            v = rc.array(name)
        except Exception as e:
            v = None
        if v is None:
            missing.append(name)
            continue
        out.append(emit(name, v))
    # the encoder's local copy of the code length order (a `const` inside a fn body)
    try:
        v = enc.array("CODE_LENGTH_ORDER")
        out.append(emit("ENC_CODE_LENGTH_ORDER", v))
    except Exception:
        missing.append("ENC_CODE_LENGTH_ORDER")
    for rc, name in [(tr, "CONST1"), (tr, "CONST2"), (hf, "MAX_ALLOWED_CODE_LENGTH"), (hf, "MAX_TABLE_BITS"),
                     (ll, "CODE_LENGTH_CODES"), (ll, "HUFFMAN_CODES_PER_META_CODE"), (ll, "NUM_TRANSFORM_TYPES"),
                     (vp8, "MAX_SEGMENTS"), (vp8, "NUM_DCT_TOKENS")]:
        if name in rc.scalars:
            out.append(emit(name, rc.scalars[name]))
        else:
            missing.append(name)
    # YUV->RGB literals of fill_rgb_row / fill_rgba_row (in-line literals, extracted per writer)
    t = vp8.text
    for fn in ("fill_rgb_row", "fill_rgba_row"):
        m = re.search(r"fn " + fn + r"\b(.*?)\n    }\n", t, flags=re.S)
        body = m.group(1) if m else ""
        calls = sorted(set(re.findall(r"mulhi\(\s*(\w+)(?:\[\d\])?\s*,\s*(\d+)\s*\)", body)))
        offs = sorted(set(re.findall(r"([+-])\s*(\d{4,6})\s*\)", body)))
        for var in ("y", "u", "v"):
            out.append(f"def YUV_{fn.upper()}_MULHI_{var.upper()} : List Nat := [" + ", ".join(b for a, b in calls if a == var) + "]\n")
        out.append(f"def YUV_{fn.upper()}_OFFSETS : List Int := [" + ", ".join(("-" if s == "-" else "") + v for s, v in offs) + "]\n")
    # literals of the quantiser set-up (read_quantization_indices)
    for name, pat in [("Y2DC_MUL", r"y2dc = dc_quant\([^)]*\) \* (\d+);"), ("Y2AC_NUM", r"ac_quant\(base \+ y2ac_delta\)\) \* (\d+) / \d+\)"),
                      ("Y2AC_DEN", r"ac_quant\(base \+ y2ac_delta\)\) \* \d+ / (\d+)\)"), ("Y2AC_MIN", r"y2ac < (\d+)"), ("UVDC_MAX", r"uvdc > (\d+)")]:
        mm = re.search(pat, t)
        if mm:
            out.append(f"def {name} : Nat := {mm.group(1)}\n")
        else:
            # in-line literals of one function: when the function is written differently the pattern
            # does not find them.  The reference value is used then (RFC 6386 section 14.1 / libwebp's
            # quant_dec.c) - the model Vp8Quant built on it is compared with the real
            # read_quantization_indices on thousands of headers in every C02 run (hook 91cb7bc), so
            # a code value that differs from the reference shows up there with failing inputs.
            ref = {"Y2DC_MUL": 2, "Y2AC_NUM": 155, "Y2AC_DEN": 100, "Y2AC_MIN": 8, "UVDC_MAX": 132}[name]
            out.append(f"def {name} : Nat := {ref}  -- literal not found in the source text: reference value, validated by the C02 quantiser tie\n")
    m = re.search(r"fn clip\(v: i32\) -> u8 \{\s*const YUV_FIX2: i32 = (\d+);", t)
    out.append(f"def YUV_FIX2 : Nat := {m.group(1) if m else 0}\n")
    out.append("end Gen.Tables\n")
    if missing:
        out.append("-- MISSING: " + ", ".join(missing) + "\n")
    return "".join(out), missing


def gen_libwebp():
    d = libwebp_dir()
    out = ["/- GENERATED by tools/gen_tables.py from libwebp's C source (libwebp-sys 0.9.6 vendor/) — do not edit. -/\nnamespace Gen.Libwebp\n"]
    missing = []
    if not d:
        out.append("end Gen.Libwebp\n-- MISSING: libwebp-sys vendor directory\n")
        return "".join(out), ["libwebp-sys"]
    yuv = open(os.path.join(d, "src/dsp/yuv.h")).read()
    def fnbody(name):
        m = re.search(r"static WEBP_INLINE int " + name + r"\([^)]*\)\s*\{(.*?)\}", yuv, flags=re.S)
        return m.group(1) if m else ""
    r, g, b = fnbody("VP8YUVToR"), fnbody("VP8YUVToG"), fnbody("VP8YUVToB")
    def mh(body, var):
        m = re.search(r"MultHi\(" + var + r",\s*(\d+)\)", body)
        return int(m.group(1)) if m else None
    def off(body):
        m = re.search(r"([+-])\s*(\d+)\);", body)
        return (int(m.group(2)) * (-1 if m.group(1) == "-" else 1)) if m else None
    consts = {
        "kYScale": mh(r, "y"), "kVToR": mh(r, "v"), "kUToG": mh(g, "u"), "kVToG": mh(g, "v"), "kUToB": mh(b, "u"),
        "kRCst": off(r), "kGCst": off(g), "kBCst": off(b),
    }
    m = re.search(r"YUV_FIX2 = (\d+)", yuv)
    consts["YUV_FIX2"] = int(m.group(1)) if m else None
    for k, v in consts.items():
        if v is None:
            missing.append(k)
        else:
            out.append(f"def {k} : Int := {v}\n" if v < 0 or k.endswith("Cst") else f"def {k} : Nat := {v}\n")
    # sanity: same scale used in all three
    if not (mh(r, "y") == mh(g, "y") == mh(b, "y")):
        missing.append("kYScale(consistent)")
    # lossless tables
    vp8l = open(os.path.join(d, "src/dec/vp8l_dec.c")).read()
    for cname, lname in [("kCodeLengthCodeOrder", "kCodeLengthCodeOrder"), ("kCodeToPlane", "kCodeToPlane"), ("kAlphabetSize", None)]:
        if lname is None:
            continue
        v = c_array(vp8l, cname)
        if v is None:
            missing.append(cname)
        else:
            out.append(emit(lname, v))
    # VP8 (lossy) tables
    def rd(f):
        try:
            return open(os.path.join(d, f)).read()
        except Exception:
            return ""
    quant, tree, vp8d = rd("src/dec/quant_dec.c"), rd("src/dec/tree_dec.c"), rd("src/dec/vp8_dec.c")
    for text, cname in [(quant, "kDcTable"), (quant, "kAcTable"), (tree, "CoeffsProba0"), (tree, "CoeffsUpdateProba"),
                        (tree, "kBModesProba"), (tree, "kBands"), (vp8d, "kZigzag"), (vp8d, "kCat3"), (vp8d, "kCat4"),
                        (vp8d, "kCat5"), (vp8d, "kCat6")]:
        try:
            v = c_array(text, cname)
        except Exception:
            v = None
        if v is None:
            missing.append(cname)
        else:
            out.append(emit(cname, v))
    # literals of the quantiser set-up and of GetLargeValue
    m = re.search(r"y2_mat_\[1\] = \(kAcTable\[[^\]]*\] \* (\d+)\) >> (\d+);", quant)
    if m:
        out.append(f"def y2acMul : Nat := {m.group(1)}\ndef y2acShift : Nat := {m.group(2)}\n")
    else:
        missing.append("y2acMul")
    m = re.search(r"uv_mat_\[0\] = kDcTable\[clip\(q \+ dquv_dc, (\d+)\)\];", quant)
    if m:
        out.append(f"def uvdcClip : Nat := {m.group(1)}\n")
    else:
        missing.append("uvdcClip")
    m = re.search(r"v = 5 \+ VP8GetBit\(br, (\d+),.*?v = 7 \+ 2 \* VP8GetBit\(br, (\d+),.*?v \+= VP8GetBit\(br, (\d+),", vp8d, flags=re.S)
    if m:
        out.append(f"def kCat1 : List Nat := [{m.group(1)}]\ndef kCat2 : List Nat := [{m.group(2)}, {m.group(3)}]\n")
    else:
        missing.append("kCat1/kCat2")
    dsp = rd("src/dsp/dec.c")
    m1 = re.search(r"#define MUL1\(a\) \(\(\(\(a\) \* (\d+)\) >> 16\) \+ \(a\)\)", dsp)
    m2 = re.search(r"#define MUL2\(a\) \(\(\(a\) \* (\d+)\) >> 16\)", dsp)
    if m1 and m2:
        out.append(f"def kC1minus65536 : Nat := {m1.group(1)}\ndef kC2 : Nat := {m2.group(1)}\n")
    else:
        missing.append("kC1/kC2")
    out.append("end Gen.Libwebp\n")
    if missing:
        out.append("-- MISSING: " + ", ".join(missing) + "\n")
    return "".join(out), missing


def main():
    t1, m1 = gen_repo()
    t2, m2 = gen_libwebp()
    c1 = write_if_changed(os.path.join(GEN, "Tables.lean"), t1)
    c2 = write_if_changed(os.path.join(GEN, "Libwebp.lean"), t2)
    print(f"gen_tables: Tables.lean {'rewritten' if c1 else 'unchanged'}, Libwebp.lean {'rewritten' if c2 else 'unchanged'}; missing: {m1 + m2}")


if __name__ == "__main__":
    main()
