#!/bin/bash
# usage: seed_recheck.sh <PROP> <variant> [note]   — re-run the quick check on a stored seeded change
set -u
P=$1; V=$2; NOTE=${3:-}
OUT=/verif/seeded/${P}_$V
[ -z "$(git -C /repo status --short)" ] || { echo "/repo not clean"; exit 2; }
git -C /repo apply $OUT/patch.diff || { echo "PATCH DOES NOT APPLY TO /repo"; exit 3; }
R4=$(cd /verif && timeout 900 bin/check $P 2>&1 | grep -E "^VIOLATION|^\[|KNOWN" | cut -c1-300); echo "$R4"
git -C /repo checkout -- .
rm -f /verif/replays/${P}_*.json
python3 - "$OUT" "$R4" "$NOTE" <<'PY'
import json,sys
OUT,R4,NOTE=sys.argv[1:4]
m=json.load(open(OUT+"/meta.json"))
if not m.get("detected"):
    m["first_check_with_patch"]=m.get("check_with_patch")
m["check_with_patch"]=R4
m["detected"]="VIOLATION" in R4
if NOTE: m["strengthening"]=NOTE
json.dump(m,open(OUT+"/meta.json","w"),indent=1)
print("detected:",m["detected"])
PY
